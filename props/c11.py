"""C11 — Symbolic Sequence layer: same signal, chain-rule-exact derivatives.

(a) proofs (Props/C11.v) over the model Model/Expr.v and the tables generated from sequence.py;
(b) correspondence of Expression evaluation / derive / map with the model: exact rational arithmetic
    inside Coq (evalQ) for + - * / integer powers abs sign, Interval for exp / log / real powers;
(c) virtual operators: every type, arguments passed positionally / by keyword in random order, built
    operator vs the hand-built concrete operator, re-run in subprocesses under several PYTHONHASHSEED;
(d) Sequence.jacobian / crlb vs central differences of Sequence.signal (supporting evidence and
    failing-input search)."""
import os, sys, json, math, random, subprocess, warnings
from fractions import Fraction
import numpy as np
from vlib import core

REPO = os.environ.get("EPGPY_REPO", "/repo")

HEADER_Q = """From Coq Require Import List String ZArith QArith Qcanon Bool.
From EPG Require Import SeqTables Expr.
Import ListNotations.
Local Open Scope string_scope.
"""

HEADER_R = """From Coq Require Import List String ZArith QArith Qcanon Reals Lra.
From Coquelicot Require Import Coquelicot.
From Interval Require Import Tactic.
From EPG Require Import SeqTables Expr ExprProofs.
Import ListNotations.
Local Open Scope string_scope.
Local Open Scope R_scope.
Arguments powR : simpl never.
Arguments sgn : simpl never.
Arguments Q2R : simpl never.
Ltac side := unfold Rpower; interval.
Ltac norm_step := match goal with
  | |- context[powR ?a ?b] => rewrite (powR_pos a b) by side
  | |- context[sgn ?a] => first [rewrite (sgn_pos a) by side | rewrite (sgn_neg a) by side]
  end.
Ltac tie_expr := unfold eval, renv; cbn; rewrite ?Q2R_int_plus; cbn; rewrite ?powR_Qint; unfold Q2R; cbn [Qnum Qden]; repeat norm_step; unfold Rpower;
  interval with (i_prec 90).
Ltac tie n := tryif assert_succeeds (solve [repeat split; tie_expr]) then idtac "TIE-OK" n else idtac "TIE-FAIL" n.
"""

VARS = ["x", "y", "z"]
FN = {"add": "Fadd", "sub": "Fsub", "mul": "Fmul", "div": "Fdiv", "pow": "Fpow", "neg": "Fneg", "abs": "Fabs",
      "log": "Flog", "exp": "Fexp", "inv": "Finv", "left": "Fleft", "right": "Fright", "sign": "Fsign"}
ARITY = {"add": 2, "sub": 2, "mul": 2, "div": 2, "pow": 2, "left": 2, "right": 2,
         "neg": 1, "abs": 1, "log": 1, "exp": 1, "inv": 1, "sign": 1}


# ------------------------------------------------------------------ expression trees
def C(q):
    return ("c", Fraction(q))


def V(n):
    return ("v", n)


def A(f, *args):
    return ("app", f, list(args))


def gen_leaf(rng):
    if rng.random() < 0.6:
        return V(rng.choice(VARS))
    return C(rng.choice([Fraction(k, d) for k in range(-6, 7) for d in (1, 2)]))


def gen_tree(rng, depth, mode):
    if depth <= 0 or rng.random() < 0.15:
        return gen_leaf(rng)
    sub = lambda: gen_tree(rng, depth - 1, mode)
    if mode == "exact":
        f = rng.choice(["add", "sub", "mul", "mul", "div", "div", "neg", "abs", "powc", "powc", "inv", "left", "right", "sign"])
        if f == "powc":
            if rng.random() < 0.2:     # number ** integer
                return A("pow", C(rng.choice([2, 3, -2, Fraction(1, 2)])), C(rng.choice([-1, 0, 1, 2, 3])))
            return A("pow", sub(), C(rng.choice([-2, -1, 0, 1, 2, 2, 3])))
    else:
        f = rng.choice(["add", "sub", "mul", "div", "exp", "logp", "powp", "powp", "cpow", "abs", "neg"])
        if f == "cpow":                # positive number ** expression
            return A("pow", C(rng.choice([2, 3, Fraction(1, 2), Fraction(3, 2)])), gen_tree(rng, min(depth - 1, 1), mode))
        if f == "logp":
            return A("log", A("add", A("abs", sub()), C(rng.choice([Fraction(1, 2), 1, 2]))))
        if f == "powp":
            return A("pow", A("add", A("abs", sub()), C(rng.choice([Fraction(1, 2), 1, 2]))), gen_tree(rng, min(depth - 1, 1), mode))
    return A(f, *[sub() for _ in range(ARITY[f])])


def tree_vars(t):
    if t[0] == "v":
        return {t[1]}
    if t[0] == "app":
        return set().union(*[tree_vars(a) for a in t[2]]) if t[2] else set()
    return set()


def tree_fns(t):
    if t[0] == "app":
        return {t[1]}.union(*[tree_fns(a) for a in t[2]])
    return set()


def tree_size(t):
    return 1 + (sum(tree_size(a) for a in t[2]) if t[0] == "app" else 0)


def sign_over_var(t, v):
    """a sign node (no derivative in the table) whose argument contains v, directly or through abs'"""
    if t[0] != "app":
        return False
    if t[1] == "sign" and v in tree_vars(t):
        return True
    return any(sign_over_var(a, v) for a in t[2])


def num(q):
    q = Fraction(q)
    return int(q) if q.denominator == 1 else float(q)


def fnum(q, exponent=False):
    """constants are binary64 (integer-typed constants turn into numpy integers under np.abs / np.sign, and
    numpy refuses negative integer powers of those: outside the real-number domain modelled here);
    exponents of ** stay python ints to exercise that path"""
    q = Fraction(q)
    return int(q) if exponent and q.denominator == 1 else float(q)


def to_py(t, sq, rng=None, exponent=False, root_raw=None):
    """build the epgpy Expression with the public operators (raw python numbers for some constant operands:
    a number on the left goes through the reflected method __radd__ ... __rpow__); root_raw = "left" /
    "right" forces the raw operand of the root operator"""
    k = t[0]
    if k == "c":
        return sq.Constant(fnum(t[1], exponent))
    if k == "v":
        return sq.Variable(t[1])
    f, args = t[1], t[2]
    raw = [a[0] == "c" and rng is not None and rng.random() < 0.5 for a in args]
    if len(args) == 2 and all(raw):
        raw[rng.randrange(2)] = False
    if root_raw and len(args) == 2:
        raw = [root_raw == "left" and args[0][0] == "c", root_raw == "right" and args[1][0] == "c"]
    isexp = [f == "pow" and i == 1 for i in range(len(args))]
    ex = [fnum(a[1], e) if r else to_py(a, sq, rng, e) for a, r, e in zip(args, raw, isexp)]
    if f == "add":
        return ex[0] + ex[1]
    if f == "sub":
        return ex[0] - ex[1]
    if f == "mul":
        return ex[0] * ex[1]
    if f == "div":
        return ex[0] / ex[1]
    if f == "pow":
        return ex[0] ** ex[1]
    if f == "neg":
        return -ex[0] if not raw[0] else sq.math.neg(ex[0])
    if f == "abs":
        return abs(ex[0]) if not raw[0] else sq.math.abs(ex[0])
    return getattr(sq.math, f)(*ex)


def qlit(q):
    q = Fraction(q)
    n = "(%d)" % q.numerator if q.numerator < 0 else "%d" % q.numerator
    return "(%s # %d)" % (n, q.denominator)


def tree_str(t):
    if t[0] == "c":
        return "%g" % float(t[1])
    if t[0] == "v":
        return t[1]
    sym = {"add": "+", "sub": "-", "mul": "*", "div": "/", "pow": "**"}
    if t[1] in sym:
        return "(%s %s %s)" % (tree_str(t[2][0]), sym[t[1]], tree_str(t[2][1]))
    return "%s(%s)" % (t[1], ", ".join(tree_str(a) for a in t[2]))


def to_coq(t):
    k = t[0]
    if k == "c":
        return "(Const %s)" % qlit(t[1])
    if k == "v":
        return '(Var "%s")' % t[1]
    return "(App %s [%s])" % (FN[t[1]], "; ".join(to_coq(a) for a in t[2]))


def env_coq(vals):
    return "[" + "; ".join('("%s", %s)' % (k, qlit(v)) for k, v in sorted(vals.items())) + "]"


UNDEF = "undefined"


def observe(thunk):
    """-> Fraction | UNDEF (ZeroDivisionError / FloatingPointError / non finite) | ("raised", name, msg)"""
    try:
        with np.errstate(divide="raise", invalid="raise", over="raise"), warnings.catch_warnings():
            warnings.simplefilter("error", RuntimeWarning)
            v = thunk()
    except (ZeroDivisionError, FloatingPointError, OverflowError, RuntimeWarning):
        return UNDEF
    except Exception as e:
        return ("raised", type(e).__name__, str(e)[:200])
    if isinstance(v, (complex, np.complexfloating)):
        return UNDEF
    if isinstance(v, (int, np.integer)):
        return Fraction(int(v))
    v = float(v)
    if not math.isfinite(v):
        return UNDEF
    return Fraction(v)


def obs_coq(o):
    return "None" if o == UNDEF else "(Some %s)" % qlit(o)


def rlit(q):
    q = Fraction(q)
    if q.denominator == 1:
        return "(%d)" % q.numerator if q.numerator >= 0 else "(- %d)" % (-q.numerator)
    return "(%d / %d)" % (q.numerator, q.denominator) if q.numerator >= 0 else "(- (%d / %d))" % (-q.numerator, q.denominator)


def central_diff(ex, vals, v, h=1e-6):
    a, b = dict(vals), dict(vals)
    a[v] += h
    b[v] -= h
    return (float(ex(**a)) - float(ex(**b))) / (2 * h)


# ------------------------------------------------------------------ (b) expression correspondence
def gen_expr_case(rng, mode, sq, make_tree=None, root_raw=None):
    for _ in range(200):
        t = make_tree(rng) if make_tree else gen_tree(rng, rng.choice([1, 2, 2, 3]), mode)
        if not tree_vars(t) or tree_size(t) > 14:
            continue
        vals = {v: Fraction(rng.choice([k for k in range(-12, 13) if k != 0]), 4) for v in VARS}
        fvals = {k: float(v) for k, v in vals.items()}
        pyseed = rng.randrange(2 ** 30)
        ex = to_py(t, sq, random.Random(pyseed), root_raw=root_raw)
        dv = sorted(tree_vars(t))
        v1 = rng.choice(dv)
        v2 = rng.choice(dv)
        # substitution: x -> expression, y -> variable name, z -> number
        sub_t = gen_tree(rng, 1, mode if mode == "exact" else "exact")
        if mode == "tol" and "sign" in tree_fns(sub_t):
            # sign(constant) in a substituted expression: the real-number goal contains a case distinction the
            # Interval tactic cannot decide at 0 (an unprovable goal, not a disagreement); sign is covered in exact mode
            continue
        sigma = {"x": ("e", sub_t), "y": ("s", rng.choice(VARS)), "z": ("n", Fraction(rng.randint(-6, 6), 2))}
        sigma = {k: s for k, s in sigma.items() if rng.random() < 0.7}
        pysig = {k: (to_py(s[1], sq, rng) if s[0] == "e" else s[1] if s[0] == "s" else fnum(s[1])) for k, s in sigma.items()}
        obs = {"val": observe(lambda: ex(**fvals))}
        obs["d1"] = {v: observe(lambda v=v: ex.derive(v)(**fvals)) for v in dv}
        obs["d2"] = observe(lambda: ex.derive(v1).derive(v2)(**fvals))
        obs["map"] = observe(lambda: ex.map(pysig)(**fvals))
        flat = [obs["val"], obs["d2"], obs["map"]] + list(obs["d1"].values())
        if mode == "tol":
            if any(o == UNDEF or isinstance(o, tuple) or abs(o) > 10 ** 5 for o in flat):
                continue
        return {"tree": t, "vals": vals, "mode": mode, "v1": v1, "v2": v2, "sigma": sigma, "obs": obs, "repr": repr(ex),
                "pyseed": pyseed, "root_raw": root_raw}
    raise RuntimeError("expression generator exhausted")


def sigma_coq(sigma):
    items = []
    for k, s in sorted(sigma.items()):
        e = to_coq(s[1]) if s[0] == "e" else '(Var "%s")' % s[1] if s[0] == "s" else "(Const %s)" % qlit(s[1])
        items.append('("%s", %s)' % (k, e))
    return "[" + "; ".join(items) + "]"


def case_checks(c):
    """list of (label, coq expr term, observation)"""
    E = to_coq(c["tree"])
    out = [("value", E, c["obs"]["val"])]
    for v, o in c["obs"]["d1"].items():
        out.append(("derive(%s)" % v, '(derive "%s" %s)' % (v, E), o))
    out.append(("derive(%s).derive(%s)" % (c["v1"], c["v2"]), '(derive "%s" (derive "%s" %s))' % (c["v2"], c["v1"], E), c["obs"]["d2"]))
    out.append(("map", "(subst %s %s)" % (sigma_coq(c["sigma"]), E), c["obs"]["map"]))
    return out


def usable(c, label, o):
    """derive raising 'Undefined derivatives' is the documented behaviour for sign(...) of the variable"""
    if isinstance(o, tuple):
        if (o[1] == "ValueError" and "ndefined" in o[2] and label.startswith("derive")
                and tree_fns(c["tree"]) & {"sign", "abs"}):
            return False   # sign has no derivative in the table (abs'' reaches it)
        return None    # unexpected exception
    return True


def exact_tol(c):
    fns = tree_fns(c["tree"]) | (tree_fns(c["sigma"]["x"][1]) if "x" in c["sigma"] else set())
    if fns <= {"add", "sub", "mul", "neg", "abs", "left", "right", "sign"} and tree_size(c["tree"]) <= 7:
        return Fraction(0)
    return Fraction(1, 10 ** 11)


def run_expressions(ctx, sq, n_exact, n_tol):
    rng = ctx.rng
    # ---- exact (rational) mode
    cases, terms, meta = [], [], []
    # every binary operator with a plain python number on the left (reflected method) and on the right
    forced = [(f, side) for f in ("add", "sub", "mul", "div") for side in ("left", "right")] + [("pow", "right")]
    plan = [("forced", fs) for fs in forced] + [("random", None)] * n_exact if n_exact else []
    for how, fs in plan:
        if how == "forced":
            f, side = fs
            cst = lambda r: C(r.choice([2, 3, -2, Fraction(1, 2), Fraction(5, 2)])) if f != "pow" else C(r.choice([2, 3]))
            mk = (lambda r, f=f, side=side, cst=cst: A(f, cst(r), gen_tree(r, r.choice([0, 1]), "exact")) if side == "left"
                  else A(f, gen_tree(r, r.choice([0, 1]), "exact"), cst(r)))
            c = gen_expr_case(rng, "exact", sq, make_tree=mk, root_raw=side)
        else:
            c = gen_expr_case(rng, "exact", sq)
        tol = exact_tol(c)
        conj = []
        for label, term, o in case_checks(c):
            u = usable(c, label, o)
            if u is None:
                ctx.report("Expression %s: %s raised %s: %s" % (c["repr"], label, o[1], o[2]),
                           {"case": ser(c), "check": label}, found_input=True,
                           signature={"site": "Expression", "raises": o[1]})
                continue
            if u is False:
                continue
            conj.append("okq (evalQ (qenv %s) %s) %s %s" % (env_coq(c["vals"]), term, obs_coq(o), qlit(tol)))
            meta.append((len(cases), label))
        terms += conj
        cases.append(c)
        ctx.count(("expr", c["repr"], sorted(c["vals"].items())), nontrivial=tree_size(c["tree"]) >= 3)
        ctx.sample({"expression": c["repr"], "values": {k: str(v) for k, v in c["vals"].items()}, "mode": "exact"})
    verdicts, errors = ctx.run_bool_cases("expr", HEADER_Q, terms, chunk=40 if len(terms) > 2000 else 100)
    for e in errors:
        ctx.report("expression correspondence shard failed to evaluate",
                   {"theorem_or_correspondence": "C11 expression correspondence (Cases)", "coq_output": e}, found_input=False)
    for (ci, label), v in zip(meta, verdicts):
        if v is False:
            explain_expr_mismatch(ctx, sq, cases[ci], label)
    ctx.cov["expr_exact_checks"] = len(terms)
    # ---- tolerance mode (Interval)
    goals, gmeta, tcases = [], [], []
    tplan = ([("forced", None)] * 2 + [("random", None)] * n_tol) if n_tol else []
    for how, _ in tplan:
        if how == "forced":      # number ** expression (reflected power)
            mk = lambda r: A("pow", C(r.choice([2, 3, Fraction(1, 2), Fraction(3, 2)])), gen_tree(r, r.choice([0, 1]), "exact"))
            c = gen_expr_case(rng, "tol", sq, make_tree=mk, root_raw="left")
        else:
            c = gen_expr_case(rng, "tol", sq)
        tcases.append(c)
        conj = []
        for label, term, o in case_checks(c):
            tol = Fraction(1, 10 ** 9) * (1 + abs(o))
            conj.append("Rabs (eval (renv %s) %s - %s) <= %s" % (env_coq(c["vals"]), term, rlit(o), rlit(tol)))
        goals.append("Goal %s.\nProof. tie %d%%nat. Abort." % (" /\\\n  ".join(conj), len(goals)))
        ctx.count(("expr-tol", c["repr"], sorted(c["vals"].items())), nontrivial=True)
        ctx.sample({"expression": c["repr"], "values": {k: str(v) for k, v in c["vals"].items()}, "mode": "interval"}, maxn=6)
    ok, bad = run_goals(ctx, "exprtol", goals)
    for i in sorted(bad):
        explain_expr_mismatch(ctx, sq, tcases[i], "interval")
    ctx.cov["expr_interval_cases"] = len(ok)
    ctx.cov["expr_function_histogram"] = hist([f for c in cases + tcases for f in tree_fns(c["tree"])])


def hist(xs):
    h = {}
    for x in xs:
        h[x] = h.get(x, 0) + 1
    return dict(sorted(h.items()))


def run_goals(ctx, tag, goals):
    if not goals:
        return set(), set()
    nsh = min(core.NPROC, max(1, len(goals) // 6))
    files = []
    for s in range(nsh):
        path = os.path.join(core.CASES, "%s_p%d_%s_%d.v" % (ctx.pid, os.getpid(), tag, s))
        with open(path, "w") as f:
            f.write(HEADER_R + "\n".join(goals[s::nsh]) + "\n")
        files.append(path)
    res = core.coqc_many(files)
    ctx._case_files += files
    import re
    ok, fail = set(), set()
    for path in files:
        rc, out = res[path]
        if rc != 0:
            ctx.report("interval shard failed to compile", {"theorem_or_correspondence": "C11 Interval correspondence", "coq_output": out[-1500:]}, found_input=False)
            continue
        ok |= {int(m) for m in re.findall(r"TIE-OK (\d+)", out)}
        fail |= {int(m) for m in re.findall(r"TIE-FAIL (\d+)", out)}
    return ok, (set(range(len(goals))) - ok)


def ser(c):
    return {"tree": c["tree"], "vals": {k: str(v) for k, v in c["vals"].items()}, "mode": c["mode"], "repr": c["repr"],
            "v1": c["v1"], "v2": c["v2"], "sigma": c["sigma"], "pyseed": c.get("pyseed"), "root_raw": c.get("root_raw")}


def rebuild(c, sq):
    """the same python construction as in the case (same raw-number operands)"""
    return to_py(c["tree"], sq, random.Random(c["pyseed"]) if c.get("pyseed") is not None else None, root_raw=c.get("root_raw"))


def spec_val(t, vals):
    """closed-form meaning of the formula as written: plain python float arithmetic (the specification side)"""
    k = t[0]
    if k == "c":
        return float(t[1])
    if k == "v":
        return vals[t[1]]
    a = [spec_val(x, vals) for x in t[2]]
    f = t[1]
    if f == "sign":
        return float((a[0] > 0) - (a[0] < 0))
    return {"add": lambda: a[0] + a[1], "sub": lambda: a[0] - a[1], "mul": lambda: a[0] * a[1], "div": lambda: a[0] / a[1],
            "pow": lambda: a[0] ** a[1], "exp": lambda: math.exp(a[0]), "log": lambda: math.log(a[0]), "neg": lambda: -a[0],
            "abs": lambda: abs(a[0]), "inv": lambda: 1.0 / a[0], "left": lambda: a[0], "right": lambda: a[1]}[f]()


def spec_diff(t, vals, v, h=1e-6):
    a, b = dict(vals), dict(vals)
    a[v] += h
    b[v] -= h
    return (spec_val(t, a) - spec_val(t, b)) / (2 * h)


def explain_expr_mismatch(ctx, sq, c, label):
    """model and implementation disagree: find the failing input of the property -- the value against the
    closed-form meaning of the formula as written, derive against central differences of that meaning and of
    the implementation's own evaluation"""
    t, fvals = c["tree"], {k: float(v) for k, v in c["vals"].items()}
    ex = rebuild(c, sq)
    try:
        with np.errstate(all="ignore"):
            got, want = float(ex(**fvals)), spec_val(t, fvals)
        if isinstance(want, float) and math.isfinite(got) and math.isfinite(want) and abs(got - want) > 1e-9 * (1 + abs(want)):
            ctx.report("Expression built as %s from the formula %s evaluates to %.12g at %s; the formula is %.12g" % (
                c["repr"], tree_str(t), got, fvals, want), {"case": ser(c), "value": got, "closed_form": want},
                found_input=True, signature={"site": "Expression", "why": "value", "functions": sorted(tree_fns(t))})
            return
    except Exception:
        pass
    try:     # substitution: simultaneous, commutes with evaluation
        sigma = c["sigma"]
        pysig = {k: (to_py(s_[1], sq) if s_[0] == "e" else s_[1] if s_[0] == "s" else fnum(s_[1])) for k, s_ in sigma.items()}
        sub = dict(fvals)
        for k, s_ in sigma.items():
            sub[k] = spec_val(s_[1], fvals) if s_[0] == "e" else fvals[s_[1]] if s_[0] == "s" else float(s_[1])
        with np.errstate(all="ignore"):
            got, want = float(ex.map(pysig)(**fvals)), spec_val(t, sub)
        if isinstance(want, float) and math.isfinite(got) and math.isfinite(want) and abs(got - want) > 1e-9 * (1 + abs(want)):
            ctx.report("%s .map(%s) evaluates to %.12g at %s; the formula with every variable replaced simultaneously is %.12g" % (
                c["repr"], {k: (tree_str(s_[1]) if s_[0] == "e" else str(s_[1])) for k, s_ in sigma.items()}, got, fvals, want),
                {"case": ser(c), "value": got, "closed_form": want, "check": "map"},
                found_input=True, signature={"site": "Expression.map"})
            return
    except Exception:
        pass
    for v in sorted(tree_vars(t)):
        try:
            with np.errstate(all="ignore"):
                d, sd = float(ex.derive(v)(**fvals)), spec_diff(t, fvals, v)
            sd2 = spec_diff(t, fvals, v, h=1e-5)
        except Exception:
            continue
        if (isinstance(sd, float) and math.isfinite(d) and math.isfinite(sd) and abs(sd - sd2) <= 1e-6 * (1 + abs(sd))
                and abs(d - sd) > 1e-4 * (1 + abs(sd))):
            ctx.report("Expression.derive(%s) of %s (formula %s) at %s gives %.9g, central difference of the formula gives %.9g" % (
                v, c["repr"], tree_str(t), fvals, d, sd), {"case": ser(c), "derive": d, "central_difference": sd, "variable": v},
                found_input=True, signature={"site": "Expression.derive", "functions": sorted(tree_fns(t))})
            return
    for v in sorted(tree_vars(t)):
        try:
            with np.errstate(all="ignore"):
                d = float(ex.derive(v)(**fvals))
                fd = central_diff(ex, fvals, v)
        except Exception:
            continue
        if math.isfinite(d) and math.isfinite(fd) and abs(d - fd) > 1e-4 * (1 + abs(fd)):
            ctx.report("Expression.derive(%s) of %s at %s gives %.9g, central difference of the expression gives %.9g" % (
                v, c["repr"], fvals, d, fd), {"case": ser(c), "derive": d, "central_difference": fd, "variable": v},
                found_input=True, signature={"site": "Expression.derive", "functions": sorted(tree_fns(t))})
            return
    ctx.report("model and implementation disagree on %s of %s (derive agrees with central differences)" % (label, c["repr"]),
               {"case": ser(c), "theorem_or_correspondence": "C11 expression correspondence Model/Expr.v vs epgpy.sequence"},
               found_input=False)


def search_derive_failure(ctx, sq, n=400):
    """a proof obligation broke: look for an expression whose derive is not its derivative"""
    rng = random.Random(ctx.rng.random())
    for i in range(n):
        mode = "exact" if i % 2 else "tol"
        t = gen_tree(rng, rng.choice([1, 2]), mode)
        if not tree_vars(t):
            continue
        fvals = {v: rng.choice([k for k in range(-12, 13) if k != 0]) / 4 + 0.0625 for v in VARS}
        ex = to_py(t, sq)
        for v in sorted(tree_vars(t)):
            if sign_over_var(t, v):
                continue
            try:
                with np.errstate(all="raise"):
                    d = float(ex.derive(v)(**fvals))
                    fd = central_diff(ex, fvals, v)
                    fd2 = central_diff(ex, fvals, v, h=1e-5)
            except Exception:
                continue
            if not (math.isfinite(d) and math.isfinite(fd)) or abs(fd - fd2) > 1e-6 * (1 + abs(fd)):
                continue   # not smooth here (abs kink, pole)
            if abs(d - fd) > 1e-4 * (1 + abs(fd)):
                ctx.report("Expression.derive(%s) of %s at %s gives %.9g, central difference gives %.9g" % (v, repr(ex), fvals, d, fd),
                           {"case": {"tree": t, "vals": fvals, "repr": repr(ex)}, "variable": v, "derive": d, "central_difference": fd,
                            "failed_obligations": ctx.failed_obligations}, found_input=True,
                           signature={"site": "Expression.derive", "functions": sorted(tree_fns(t))})
                return True
    return False


# ------------------------------------------------------------------ (c) virtual operators (worker runs in a subprocess)
ALIAS = {"Null": "EmptyOperator"}

# intended parameters of the concrete class each virtual operator is named after (signature order),
# which of them are keyword-only there, and value generators
def vop_specs():
    r = lambda lo, hi: (lambda g: round(g.uniform(lo, hi), 3))
    return {
        "E": ([("tau", r(1, 20)), ("T1", r(500, 1500)), ("T2", r(20, 90)), ("g", r(-0.05, 0.05))], []),
        "P": ([("tau", r(1, 20)), ("g", r(-0.05, 0.05))], []),
        "R": ([("rT", r(0.01, 0.2)), ("rL", r(0.001, 0.01))], [("r0", r(0.001, 0.01))]),
        "T": ([("alpha", r(10, 170)), ("phi", r(-90, 90))], []),
        "Phi": ([("phi", r(-90, 90))], []),
        "S": ([("k", lambda g: g.choice([-2, -1, 1, 2]))], []),
        "D": ([("tau", r(1, 20)), ("D", r(0.5, 3)), ("k", lambda g: g.choice([1, 2]))], []),
        "X": ([("tau", r(1, 20)), ("khi", r(0.01, 0.3))],
              [("T1", lambda g: [1000.0, 400.0]), ("T2", lambda g: [60.0, 25.0]), ("g", lambda g: [0.0, 0.02])]),
        "Adc": ([], [("phase", r(-90, 90)), ("weights", r(0.5, 2))]),
        "Wait": ([("duration", r(1, 20))], []),
        "Offset": ([("duration", r(-20, 20))], []),
        "Spoiler": ([], []), "Reset": ([], []), "Null": ([], []), "System": ([], []),
        "PD": ([("pd", r(0.5, 2))], []),
    }


def vop_gen_cases(seed, n):
    g = random.Random("vop-%s" % seed)
    specs = vop_specs()
    names = sorted(specs)
    cases = []
    for i in range(n):
        name = names[i % len(names)] if i < 2 * len(names) else g.choice(names)
        pos, kws = specs[name]
        params = [(p, gen(g)) for p, gen in pos]
        kwparams = [(p, gen(g)) for p, gen in kws if g.random() < 0.8]
        npos = g.randint(0, len(params)) if i >= len(names) else len(params)
        bykw = params[npos:] + kwparams
        g.shuffle(bykw)
        # some arguments become expressions of variables
        how = {}
        for p, val in params + kwparams:
            how[p] = g.choice(["const", "var", "scaled"]) if not isinstance(val, list) else "const"
        cases.append({"id": i, "op": name, "positional": [p for p, _ in params[:npos]], "keyword": [p for p, _ in bykw],
                      "values": dict(params + kwparams), "how": how})
    return cases


def _fingerprint(op, epg, pnames):
    """observable behaviour of a concrete operator: class, duration, parameter attributes, action on a
    reference two-compartment state (as an acquisition for probes)"""
    sm = epg.StateMatrix([[[0, 0, 1]], [[0, 0, 0.5]]])
    sm = epg.System(kvalue=3000.0)(sm)
    for o in [epg.T(40, 10), epg.S(1), epg.E(3, 100, 20, 0.02), epg.T(70, 33), epg.S(1)]:
        sm = o(sm)
    fp = {"class": type(op).__name__, "duration": repr(getattr(op, "duration", None))}
    for p in pnames:
        if hasattr(op, p):
            fp["attr:" + p] = repr(np.asarray(getattr(op, p)).tolist())
    out = op(sm)
    fp["states"] = repr(np.asarray(out.states).round(12).tolist())
    fp["equilibrium"] = repr(np.asarray(out.equilibrium).round(12).tolist())
    if isinstance(op, epg.operators.Probe):
        fp["acquire"] = repr(np.asarray(op.acquire(sm)).round(12).tolist())
    return fp


def vop_worker(seed, n):
    import epgpy as epg
    from epgpy import sequence as sq
    res = []
    for c in vop_gen_cases(seed, n):
        name = c["op"]
        conc = getattr(epg.operators, ALIAS.get(name, name))
        values, args = {}, {}
        for p, val in c["values"].items():
            h = c["how"][p]
            if h == "const":
                args[p] = val
            elif h == "var":
                args[p] = sq.Variable("v_" + p)
                values["v_" + p] = val
            else:
                args[p] = 2 * sq.Variable("v_" + p) - val     # 2*(val) - val = val
                values["v_" + p] = val
        call = "%s(%s)" % (name, ", ".join(["<%s>" % p for p in c["positional"]] + ["%s=<%s>" % (p, p) for p in c["keyword"]]))
        try:
            ref = _fingerprint(conc(**c["values"]), epg, list(c["values"]))
        except Exception as e:
            res.append({"id": c["id"], "op": name, "call": call, "ok": None, "outcome": "reference raised %s: %s" % (type(e).__name__, e)})
            continue
        try:
            vop = getattr(sq.operators, name)(*[args[p] for p in c["positional"]], **{p: args[p] for p in c["keyword"]})
            built = sq.Sequence([vop]).build(values)[0]
            got = _fingerprint(built, epg, list(c["values"]))
            ok = got == ref
            outcome = "same" if ok else "built %s differs in %s" % (getattr(built, "name", built), sorted(k for k in ref if got.get(k) != ref[k]))
        except Exception as e:
            ok, outcome = False, "raised %s: %s" % (type(e).__name__, str(e)[:160])
        res.append({"id": c["id"], "op": name, "call": call, "ok": ok, "outcome": outcome,
                    "nkw_positionals": len([p for p in c["keyword"] if p in dict(vop_specs()[name][0])])})
    return res


def run_vops(ctx, bad_binding, n, seeds):
    env = dict(os.environ)
    env["PYTHONPATH"] = REPO + ":" + core.VERIF
    procs = []
    for hs in seeds:
        e = dict(env, PYTHONHASHSEED=str(hs))
        procs.append((hs, subprocess.Popen([sys.executable, "-m", "props.c11", "--vop-worker", str(ctx.seed), str(n)],
                                           stdout=subprocess.PIPE, stderr=subprocess.PIPE, text=True, env=e, cwd=core.VERIF)))
    byseed = {}
    for hs, p in procs:
        out, err = p.communicate(timeout=600)
        if p.returncode != 0:
            ctx.report("virtual-operator worker failed under PYTHONHASHSEED=%s" % hs,
                       {"theorem_or_correspondence": "C11 virtual operator worker", "stderr": err[-1500:]}, found_input=False)
            continue
        byseed[hs] = json.loads(out.strip().split("\n")[-1])
    if not byseed:
        return
    cases = {c["id"]: c for c in vop_gen_cases(ctx.seed, n)}
    first = byseed[sorted(byseed)[0]]
    ctx.cov["vop_cases"] = len(first)
    ctx.cov["vop_hash_seeds"] = sorted(byseed)
    ctx.cov["vop_histogram"] = hist([r["op"] for r in first])
    found_entry, found_hash = set(), False
    for idx, r0 in enumerate(first):
        outs = {hs: byseed[hs][idx] for hs in byseed}
        ctx.count(("vop", r0["call"], idx), nontrivial=True)
        if r0["ok"] is None:
            ctx.report("hand-built concrete operator for %s could not be built: %s" % (r0["call"], r0["outcome"]),
                       {"case": cases[r0["id"]], "theorem_or_correspondence": "C11 harness reference operator"}, found_input=False)
            continue
        if all(o["ok"] for o in outs.values()):
            continue
        distinct = {o["outcome"] for o in outs.values()}
        replay = {"case": cases[r0["id"]], "call": r0["call"], "outcomes": {str(hs): o["outcome"] for hs, o in outs.items()}, "kind": "vop"}
        if r0["op"] in bad_binding:
            if r0["op"] not in found_entry:
                found_entry.add(r0["op"])
                ctx.report("virtual operator %s does not bind its arguments to the parameters of epgpy.%s: %s -> %s" % (
                    r0["op"], ALIAS.get(r0["op"], r0["op"]), r0["call"], sorted(distinct)[0]), replay, found_input=True,
                    signature={"table": "virtual-operators", "entry": r0["op"]})
        elif len(distinct) > 1:
            if not found_hash:
                found_hash = True
                ctx.report("keyword-passed positionals are bound in set-iteration order: %s gives different operators under different PYTHONHASHSEED: %s" % (
                    r0["call"], sorted(distinct)), replay, found_input=True,
                    signature={"site": "VirtualOperator.__init__", "why": "hash-seed-dependent-binding"})
        elif r0.get("nkw_positionals", 0) >= 2:
            # same wrong permutation under every swept seed: still the set-order binding
            if not found_hash:
                found_hash = True
                ctx.report("keyword-passed positionals are bound in set-iteration order: %s -> %s" % (r0["call"], sorted(distinct)[0]),
                           replay, found_input=True, signature={"site": "VirtualOperator.__init__", "why": "hash-seed-dependent-binding"})
        else:
            ctx.report("virtual operator call %s differs from the hand-built concrete operator: %s" % (r0["call"], sorted(distinct)[0]),
                       replay, found_input=True, signature={"site": "VirtualOperator", "op": r0["op"]})
    return found_entry


def option_findings(ctx, bad_options, vops):
    """entries whose OPTIONS the constructor does not accept: exhibit the failing call"""
    import epgpy as epg
    from epgpy import sequence as sq
    table = {v[0]: v for v in vops}
    for name in bad_options:
        shown = False
        sensible = {"attr": "Z0", "reduce": 0, "name": "n", "duration": 1.0, "reset": True}
        for opt in table[name][4]:
            # a non-name in OPTIONS (None): the intended `...` (any option) is not recognised
            kw = {"T1": 1000.0} if opt.startswith("<") else {opt: sensible.get(opt, 1.0)}
            try:
                getattr(sq.operators, name)(**kw).build({})
            except (TypeError, ValueError) as e:
                if "unexpected keyword" not in str(e) and "Unknown option" not in str(e):
                    continue
                ctx.report("virtual operator %s declares option %s but %s(%s) fails: %s: %s" % (
                    name, opt, name, ", ".join("%s=%r" % kv for kv in kw.items()), type(e).__name__, e),
                    {"kind": "vop-option", "op": name, "kwargs": kw}, found_input=True,
                    signature={"table": "virtual-operators", "entry": name, "field": "options"})
                shown = True
                break
        if not shown:
            ctx.report("virtual operator %s: OPTIONS %s not accepted by the constructor signature (no failing call found)" % (name, table[name][4]),
                       {"theorem_or_correspondence": "vop_opt_ok", "op": name}, found_input=False,
                       signature={"table": "virtual-operators", "entry": name, "field": "options"})


# ------------------------------------------------------------------ (d) jacobian / crlb vs central differences
def gen_sequence(rng, sq, bad_binding):
    """random sharing pattern: a few variables feeding several operators through small expressions"""
    ops = sq.operators
    b1, T1, T2, tau, f = (sq.Variable(n) for n in ["b1", "T1", "T2", "tau", "f"])
    values = {"b1": rng.choice([0.8, 0.9, 1.1]), "T1": rng.choice([800.0, 1200.0]), "T2": rng.choice([40.0, 70.0]),
              "tau": rng.choice([4.0, 7.5]), "f": rng.choice([0.01, -0.02])}
    n = rng.randint(2, 4)
    seq, used, desc = [], set(), []
    for i in range(n):
        a = rng.choice([30, 60, 90, 150])
        k = rng.choice(["E", "E", "P", "E2"])
        seq.append(ops.T(a * b1, rng.choice([0, 90, 15 * i])))
        desc.append("T(%d*b1)" % a)
        seq.append(ops.S(1))
        if k == "E":
            seq.append(ops.E(tau, T1, T2, f))
            desc.append("E(tau,T1,T2,f)")
        elif k == "E2":
            seq.append(ops.E(tau / 2, T1, 1 / (1 / T2 + 0.001 * b1), g=f))
            desc.append("E(tau/2,T1,1/(1/T2+b1/1000),g=f)")
        else:
            seq.append(ops.P(tau, f * 2))
            seq.append(ops.E(tau, T1, T2))
            desc.append("P(tau,2f) E(tau,T1,T2)")
        seq.append("ADC")
    names = sorted(values)
    rng.shuffle(names)
    return seq, values, names[:rng.randint(1, 4)], " ".join(desc)


def run_jacobians(ctx, sq, n, bad_binding):
    from epgpy import stats
    rng = ctx.rng
    nbad = 0
    for _ in range(n):
        seq, values, wrt, desc = gen_sequence(rng, sq, bad_binding)
        s = sq.Sequence(seq)
        try:
            sig, jac = s.jacobian(wrt)(values)
            sig0 = s.signal()(values)
        except Exception as e:
            ctx.report("Sequence.jacobian raised %s on %s wrt %s: %s" % (type(e).__name__, desc, wrt, e),
                       {"kind": "jacobian", "sequence": desc, "wrt": wrt, "values": values}, found_input=True,
                       signature={"site": "Sequence.jacobian", "raises": type(e).__name__})
            continue
        cr = cr_ref = None
        fisher = np.einsum("...ni,...nj->...ij", jac.conj(), jac).real
        if jac.shape[-2] >= len(wrt) and np.linalg.cond(fisher) < 1e8:   # crlb wrapper, well-conditioned cases only
            cr, cr_ref = s.crlb(wrt)(values), stats.crlb(jac)
        ctx.count(("jac", desc, tuple(wrt), tuple(sorted(values.items()))), nontrivial=True)
        ctx.cov["jacobian_cases"] = ctx.cov.get("jacobian_cases", 0) + 1
        why = None
        if not np.array_equal(sig, sig0):
            why = "signal returned by jacobian() differs from signal()"
        elif cr is not None and not np.allclose(cr, cr_ref, rtol=1e-6):
            why = "crlb() differs from stats.crlb(jacobian)"
        else:
            for j, v in enumerate(wrt):
                h = 1e-5 * max(1.0, abs(values[v]))
                up, dn = dict(values), dict(values)
                up[v] += h
                dn[v] -= h
                fd = (s.signal()(up) - s.signal()(dn)) / (2 * h)
                err = np.abs(jac[..., j] - fd).max()
                if err > 1e-5 * (np.abs(fd).max() + np.abs(sig).max()):
                    why = "d signal / d %s: jacobian %s, central difference %s" % (v, np.round(jac[..., j], 8).tolist(), np.round(fd, 8).tolist())
                    break
        if why:
            nbad += 1
            usesbad = sorted(b for b in bad_binding if (b + "(") in desc)
            sig_ = {"table": "virtual-operators", "entry": usesbad[0]} if usesbad else {"site": "Sequence.jacobian"}
            if nbad <= 1 or not usesbad:
                ctx.report("Sequence %s, jacobian wrt %s at %s: %s" % (desc, wrt, values, why),
                           {"kind": "jacobian", "sequence": desc, "wrt": wrt, "values": values, "why": why}, found_input=True, signature=sig_)


# ------------------------------------------------------------------ (e) hessian: variables shared across parameters, non-linear
HVARS = ["a", "b", "c"]
# physical ranges of the parameters of the multi-parameter operators
TARGET = {"alpha": 55.0, "phi": 35.0, "tau": 5.0, "T1": 800.0, "T2": 50.0, "g": 0.02, "rT": 0.05, "rL": 0.004, "r0": 0.004}
HOPS = {"T": ["alpha", "phi"], "E": ["tau", "T1", "T2", "g"], "P": ["tau", "g"], "Phi": ["phi"], "R": ["rT", "rL", "r0"]}


def gen_form(rng, nonlinear):
    u, w, x = rng.sample(HVARS, 3)
    if nonlinear:
        return rng.choice([
            A("mul", V(u), V(w)), A("div", V(u), V(w)), A("add", A("mul", V(u), V(w)), V(x)),
            A("mul", A("add", V(u), V(w)), V(x)), A("mul", A("pow", V(u), C(2)), V(w)),
            A("mul", V(u), A("exp", A("div", V(w), C(8)))), A("div", V(u), A("add", V(w), V(x)))])
    return rng.choice([V(u), A("mul", C(2), V(u)), A("add", V(u), C(1)), A("pow", V(u), C(2)), A("add", V(u), V(w))])


def tree_val(t, vals):
    k = t[0]
    if k == "c":
        return float(t[1])
    if k == "v":
        return vals[t[1]]
    a = [tree_val(x, vals) for x in t[2]]
    f = t[1]
    return {"add": lambda: a[0] + a[1], "sub": lambda: a[0] - a[1], "mul": lambda: a[0] * a[1], "div": lambda: a[0] / a[1],
            "pow": lambda: a[0] ** a[1], "exp": lambda: math.exp(a[0]), "neg": lambda: -a[0]}[f]()


def gen_shared_case(rng):
    """sequence whose multi-parameter operators have argument expressions that share variables across
    parameters, several of them non-linear in two variables"""
    vals = {"a": rng.choice([2.0, 2.5, 3.0]), "b": rng.choice([3.5, 4.0, 5.0]), "c": rng.choice([1.25, 1.5, 2.0])}
    ops = [{"op": "T", "args": {"alpha": C(60), "phi": C(0)}, "kw": []}]
    for blk in range(rng.randint(2, 3)):
        ops.append({"op": "S", "args": {"k": C(1)}, "kw": []})
        for _ in range(rng.randint(1, 2)):
            name = rng.choice(["T", "T", "E", "E", "P", "R", "Phi"])
            args = {}
            for p in HOPS[name]:
                r = rng.random()
                if r < 0.2:
                    args[p] = C(Fraction(TARGET[p]).limit_denominator(1000))
                    continue
                form = gen_form(rng, r < 0.65)
                sc = TARGET[p] / tree_val(form, vals)
                sc = Fraction(float("%.2g" % sc)).limit_denominator(10 ** 6)
                args[p] = A("mul", C(sc), form)
            # which arguments are passed by keyword (a suffix of the positionals; keyword-only ones always)
            names = HOPS[name]
            npos = rng.randint(0, len(names))
            kw = [p for i, p in enumerate(names) if i >= npos or (name == "R" and p == "r0")]
            ops.append({"op": name, "args": args, "kw": kw})
        ops.append({"op": "ADC"})
    return {"ops": ops, "vals": vals}


def build_shared(case, sq):
    seq = []
    for o in case["ops"]:
        if o["op"] == "ADC":
            seq.append("ADC")
            continue
        cls = getattr(sq.operators, o["op"])
        ex = {p: (int(t[1]) if o["op"] == "S" else fnum(t[1]) if t[0] == "c" else to_py(t, sq)) for p, t in o["args"].items()}
        pos = [ex[p] for p in o["args"] if p not in o["kw"]]
        seq.append(cls(*pos, **{p: ex[p] for p in o["kw"]}))
    return sq.Sequence(seq)


def concrete_shared(case, vals):
    """the same sequence built by hand from epgpy.operators with the evaluated arguments"""
    import epgpy as epg
    seq = []
    for o in case["ops"]:
        if o["op"] == "ADC":
            seq.append(epg.ADC)
        else:
            seq.append(getattr(epg.operators, o["op"])(**{p: (int(t[1]) if o["op"] == "S" else tree_val(t, vals)) for p, t in o["args"].items()}))
    return seq


def shared_desc(case):
    def r(t):
        if t[0] == "c":
            return "%g" % float(t[1])
        if t[0] == "v":
            return t[1]
        sym = {"add": "+", "sub": "-", "mul": "*", "div": "/", "pow": "**"}
        if t[1] in sym:
            return "(%s%s%s)" % (r(t[2][0]), sym[t[1]], r(t[2][1]))
        return "%s(%s)" % (t[1], ", ".join(r(x) for x in t[2]))
    return " ".join("ADC" if o["op"] == "ADC" else "%s(%s)" % (o["op"], ", ".join("%s=%s" % (p, r(t)) for p, t in o["args"].items()))
                    for o in case["ops"])


def hessian_check(case, sq, v1, v2):
    """-> None or a description of the disagreement (spec: central differences of the signal of hand-built
    concrete operators for the jacobian, central differences of jacobian() for the hessian)"""
    import epgpy as epg
    s = build_shared(case, sq)
    vals = case["vals"]
    sig, jac, hes = s.hessian(v1, v2)(dict(vals))
    sig0 = np.moveaxis(np.asarray(epg.simulate(concrete_shared(case, vals))), 0, -1)
    if sig.shape != sig0.shape or np.abs(sig - sig0).max() > 1e-12:
        return "signal of hessian() differs from the hand-built concrete sequence"
    cols = v2 if v2 is not None else v1
    if jac.shape != sig.shape + (len(v1),) or hes.shape != sig.shape + (len(v1), len(cols)):
        return "shapes: signal %s jacobian %s hessian %s for %d x %d variables" % (sig.shape, jac.shape, hes.shape, len(v1), len(cols))

    def csig(v):
        return np.moveaxis(np.asarray(epg.simulate(concrete_shared(case, v))), 0, -1)
    for i, v in enumerate(v1):
        h = 1e-6 * abs(vals[v])
        up, dn = dict(vals), dict(vals)
        up[v] += h
        dn[v] -= h
        fd = (csig(up) - csig(dn)) / (2 * h)
        if np.abs(jac[..., i] - fd).max() > 1e-6 * (np.abs(fd).max() + np.abs(sig).max()):
            return "d signal / d %s: hessian()'s jacobian %s, central difference of the concrete sequence %s" % (
                v, np.round(jac[..., i], 9).tolist(), np.round(fd, 9).tolist())
    for j, v in enumerate(cols):
        h = 1e-5 * abs(vals[v])
        up, dn = dict(vals), dict(vals)
        up[v] += h
        dn[v] -= h
        fd = (s.jacobian(v1)(up)[1] - s.jacobian(v1)(dn)[1]) / (2 * h)
        for i, u in enumerate(v1):
            err = np.abs(hes[..., i, j] - fd[..., i]).max()
            if err > 1e-5 * (np.abs(fd).max() + np.abs(hes).max()) + 1e-9:
                return "d2 signal / d%s d%s: hessian %s, central difference of jacobian %s" % (
                    u, v, np.round(hes[..., i, j], 9).tolist(), np.round(fd[..., i], 9).tolist())
    return None


def run_hessians(ctx, sq, n):
    rng = ctx.rng
    seen = set()
    for k in range(n):
        case = gen_shared_case(rng)
        allv = sorted({v for o in case["ops"] if o["op"] != "ADC" for t in o["args"].values() for v in tree_vars(t)})
        if len(allv) < 2:
            continue
        v1 = rng.sample(allv, rng.randint(2, len(allv)))
        # second stream: different variables in rows and columns (docstring: hessian([var1, var2], [var3]))
        v2 = None if k % 3 else rng.sample(allv, rng.randint(1, len(allv)))
        desc = shared_desc(case)
        todo = [(v1, v2)]
        if k % 6 == 0:     # one row, one column, both orders
            u, w = rng.sample(allv, 2)
            todo = [([u], [w]), ([w], [u])]
        for v1, v2 in todo:
            run_hessian_case(ctx, sq, case, desc, v1, v2, seen)
        # 'magnitude' (the signal scale) among the rows / columns: alone in one list, only partner of a variable ...
        u, w = rng.sample(allv, 2)
        forms = [(["magnitude"], [u]), ([u], ["magnitude"]), (["magnitude"], rng.sample(["magnitude", u, w], 3)),
                 (rng.sample([u, "magnitude"], 2), ["magnitude"]), ([u, w], rng.sample(["magnitude", w], 2)),
                 (["magnitude"], None), (rng.sample(["magnitude", u, w], 3), None)]
        m1, m2 = forms[k % len(forms)]
        ctx.count(("hess-magnitude", desc, tuple(m1), tuple(m2 or ())), nontrivial=True)
        ctx.cov["hessian_magnitude_cases"] = ctx.cov.get("hessian_magnitude_cases", 0) + 1
        try:
            why = magnitude_check(case, sq, m1, m2)
        except Exception as e:
            why = "raised %s: %s" % (type(e).__name__, str(e)[:200])
        if why and "magnitude" not in seen:
            seen.add("magnitude")
            ctx.report("Sequence %s, hessian(%s, %s) at %s: %s" % (desc, m1, m2, case["vals"], why),
                       {"kind": "hessian-magnitude", "case": case, "v1": m1, "v2": m2, "sequence": desc, "why": why},
                       found_input=True, signature={"site": "Sequence.hessian", "why": "magnitude"})


def magnitude_check(case, sq, v1, v2):
    """'magnitude' scales the signal: d/dmagnitude = signal, d2/dmagnitude dv = d signal/dv, d2/dmagnitude2 = 0.
    Expected entries from signal(), jacobian(vars) and hessian(vars) of the same sequence without 'magnitude'
    (those are checked against central differences by hessian_check)"""
    s = build_shared(case, sq)
    vals = case["vals"]
    cols = v2 if v2 is not None else v1
    union = sorted((set(v1) | set(cols)) - {"magnitude"})
    sig = s.signal()(dict(vals))
    if union:
        _, J = s.jacobian(union)(dict(vals))
        _, _, H = s.hessian(union)(dict(vals))
    sg, jac, hes = s.hessian(v1, v2)(dict(vals))
    if not np.array_equal(sg, sig) or jac.shape != sig.shape + (len(v1),) or hes.shape != sig.shape + (len(v1), len(cols)):
        return "signal / shapes: %s %s %s" % (sg.shape, jac.shape, hes.shape)
    scale = 1e-9 * (np.abs(sig).max() + (np.abs(J).max() + np.abs(H).max() if union else 0))
    for i, a in enumerate(v1):
        ej = sig if a == "magnitude" else J[..., union.index(a)]
        if np.abs(jac[..., i] - ej).max() > scale:
            return "jacobian column of %s is %s, expected %s" % (a, np.round(jac[..., i], 9).tolist(), np.round(ej, 9).tolist())
        for j, b in enumerate(cols):
            if a == "magnitude" and b == "magnitude":
                e, what = np.zeros_like(sig), "0"
            elif a == "magnitude":
                e, what = J[..., union.index(b)], "d signal / d %s" % b
            elif b == "magnitude":
                e, what = J[..., union.index(a)], "d signal / d %s" % a
            else:
                e, what = H[..., union.index(a), union.index(b)], "d2 signal / d%s d%s" % (a, b)
            if np.abs(hes[..., i, j] - e).max() > scale:
                return "hessian entry (%s, %s) is %s, expected %s = %s" % (a, b, np.round(hes[..., i, j], 9).tolist(), what, np.round(e, 9).tolist())
    return None


def run_hessian_case(ctx, sq, case, desc, v1, v2, seen):
    if True:
        ctx.count(("hess", desc, tuple(v1), tuple(v2 or ())), nontrivial=True)
        ctx.cov["hessian_cases"] = ctx.cov.get("hessian_cases", 0) + 1
        replay = {"kind": "hessian", "case": case, "v1": v1, "v2": v2, "sequence": desc}
        try:
            why = hessian_check(case, sq, v1, v2)
        except Exception as e:
            why = "raised %s: %s" % (type(e).__name__, str(e)[:200])
        if why:
            sig = {"site": "Sequence.hessian"}
            if v2 is not None:
                # is the full symmetric hessian on the union of the variables right?  then only the
                # rows / columns selection of the wrapper is wrong
                union = sorted(set(v1) | set(v2))
                why_full = hessian_check_safe(case, sq, union)
                if why_full is None:
                    sig = {"site": "Sequence.hessian", "why": "rows-and-columns-variable-lists"}
                else:
                    why, replay = why_full, dict(replay, v1=union, v2=None)
                    v1, v2 = union, None
            if json.dumps(sig) in seen:
                return
            seen.add(json.dumps(sig))
            ctx.report("Sequence %s, hessian(%s, %s) at %s: %s" % (desc, v1, v2, case["vals"], why), dict(replay, why=why),
                       found_input=True, signature=sig)


def hessian_check_safe(case, sq, v1):
    try:
        return hessian_check(case, sq, v1, None)
    except Exception as e:
        return str(e)


# ------------------------------------------------------------------ (f) batches of variable values (rank 0..3, non-square)
def gen_batch_values(rng, names, base, rank):
    dims = rng.sample([2, 3, 4], rank) if rank else []
    shape = tuple(dims)
    vals = {}
    owners = {ax: rng.choice(names) for ax in range(rank)}       # every batch axis is carried by some variable
    for nme in names:
        shp = [1] * rank
        for ax in range(rank):
            if owners[ax] == nme or rng.random() < 0.25:
                shp[ax] = shape[ax]
        # arrays always have the full batch rank: epgpy's operators align lower-rank arrays from the left
        # (trailing axes appended) while numpy, inside one Expression, aligns them from the right
        if not shp or all(d == 1 for d in shp) and rng.random() < 0.5:
            vals[nme] = base[nme]
            continue
        size = int(np.prod(shp))
        vals[nme] = (base[nme] * (1 + 0.07 * np.arange(size) / max(size, 1)) * (1 + 0.013 * rng.random())).reshape(shp)
    return shape, vals


def run_batches(ctx, sq, n):
    rng = ctx.rng
    reported = False
    for k in range(n):
        rank = k % 4
        case = gen_shared_case(rng) if k % 2 else None
        if case is not None:
            s, base, desc = build_shared(case, sq), case["vals"], shared_desc(case)
        else:
            seq, base, _, desc = gen_sequence(rng, sq, [])
            s = sq.Sequence(seq)
        names = sorted(str(v) for v in s.variables)
        if not names:
            continue
        shape, vals = gen_batch_values(rng, names, base, rank)
        wrt = rng.sample(names, rng.randint(1, min(3, len(names))))
        ctx.count(("batch", desc, shape, tuple(wrt)), nontrivial=rank >= 1)
        ctx.cov["batch_cases"] = ctx.cov.get("batch_cases", 0) + 1
        ctx.cov.setdefault("batch_ranks", {})
        ctx.cov["batch_ranks"][str(rank)] = ctx.cov["batch_ranks"].get(str(rank), 0) + 1
        why = batch_check(s, vals, shape, wrt)
        if why and not reported:
            reported = True
            site = why[0]
            ctx.report("Sequence %s with batch shape %s (value shapes %s), variables %s: %s" % (
                desc, shape, {k_: np.shape(v) for k_, v in vals.items()}, wrt, why[1]),
                {"kind": "batch", "sequence": desc, "case": case, "batch_shape": list(shape), "wrt": wrt,
                 "values": {k_: np.asarray(v).tolist() for k_, v in vals.items()}, "why": why[1]},
                found_input=True, signature={"site": site, "why": "batch"})


def batch_check(s, vals, shape, wrt):
    """batched call vs one scalar call per batch entry (the scalar calls are what (d)/(e) check against
    central differences): shapes and every entry of signal, jacobian, hessian's jacobian, crlb, confint"""
    bshape = shape if shape else (1,)
    try:
        sig = s.signal()(dict(vals))
        sigj, jac = s.jacobian(wrt)(dict(vals))
        sigh, jach, hes = s.hessian(wrt)(dict(vals))
    except Exception as e:
        return ("Sequence.jacobian", "raised %s: %s" % (type(e).__name__, str(e)[:200]))
    nadc = sig.shape[-1]
    if sig.shape != bshape + (nadc,):
        return ("Sequence.signal", "signal has shape %s, expected %s" % (sig.shape, bshape + (nadc,)))
    if jac.shape != bshape + (nadc, len(wrt)):
        return ("Sequence.jacobian", "jacobian has shape %s, expected %s" % (jac.shape, bshape + (nadc, len(wrt))))
    if jach.shape != jac.shape or hes.shape != bshape + (nadc, len(wrt), len(wrt)):
        return ("Sequence.hessian", "hessian() returns shapes %s %s" % (jach.shape, hes.shape))
    if not np.array_equal(sigj, sig) or not np.array_equal(sigh, sig):
        return ("Sequence.jacobian", "signal returned by jacobian()/hessian() differs from signal()")
    scale = np.abs(jac).max() + np.abs(jach).max() + 1e-300
    if np.abs(jac - jach).max() > 1e-10 * scale:
        return ("Sequence.jacobian", "jacobian() differs from the jacobian returned by hessian() (max abs difference %.3g)" % np.abs(jac - jach).max())
    full = {}
    for k, v in vals.items():      # left-aligned broadcasting (epgpy convention: missing axes are appended)
        v = np.asarray(v, float)
        full[k] = np.broadcast_to(v.reshape(v.shape + (1,) * (len(bshape) - v.ndim)), bshape)
    fisher = np.einsum("...ni,...nj->...ij", jac.conj(), jac).real
    do_stats = nadc >= len(wrt) and np.all(np.linalg.cond(fisher) < 1e7)
    obs = sig * 1.01 + 0.002
    do_ci = do_stats
    if do_stats:
        try:
            cr = s.crlb(wrt)(dict(vals))
            try:
                ci = s.confint(obs, wrt)(dict(vals))
            except ModuleNotFoundError:      # t quantile not tabulated for this number of degrees of freedom (needs scipy)
                do_ci, ci = False, np.zeros(bshape + (len(wrt),))
        except Exception as e:
            return ("Sequence.crlb", "crlb/confint raised %s: %s" % (type(e).__name__, str(e)[:200]))
        if np.shape(cr) != bshape or np.shape(ci) != bshape + (len(wrt),):
            return ("Sequence.crlb", "crlb has shape %s, confint %s, batch %s" % (np.shape(cr), np.shape(ci), bshape))
    entries = list(np.ndindex(*bshape))
    if len(entries) > 8:     # first, last and a spread of interior entries
        entries = [entries[i] for i in sorted(set(np.linspace(0, len(entries) - 1, 8).astype(int)))]
    for idx in entries:
        sv = {k: float(v[idx]) for k, v in full.items()}
        s1 = s.signal()(dict(sv))[0]
        _, j1 = s.jacobian(wrt)(dict(sv))
        _, _, h1 = s.hessian(wrt)(dict(sv))
        if np.abs(sig[idx] - s1).max() > 1e-10 * (1 + np.abs(s1).max()):
            return ("Sequence.signal", "signal%s differs from the scalar run at %s" % (list(idx), sv))
        if np.abs(jac[idx] - j1[0]).max() > 1e-9 * (np.abs(j1).max() + 1e-12):
            return ("Sequence.jacobian", "jacobian%s = %s differs from the scalar run at %s: %s" % (
                list(idx), np.round(jac[idx], 8).tolist(), sv, np.round(j1[0], 8).tolist()))
        if np.abs(hes[idx] - h1[0]).max() > 1e-9 * (np.abs(h1).max() + 1e-12):
            return ("Sequence.hessian", "hessian%s differs from the scalar run at %s" % (list(idx), sv))
        if do_stats:
            c1 = s.crlb(wrt)(dict(sv))
            i1 = s.confint(obs[idx][None], wrt)(dict(sv)) if do_ci else ci[idx][None]
            if not np.allclose(cr[idx], c1[0], rtol=1e-6):
                return ("Sequence.crlb", "crlb%s = %s, scalar run at %s gives %s" % (list(idx), cr[idx], sv, c1[0]))
            if not np.allclose(ci[idx], i1[0], rtol=1e-6):
                return ("Sequence.confint", "confint%s = %s, scalar run at %s gives %s" % (list(idx), ci[idx], sv, i1[0]))
    return None


# ------------------------------------------------------------------ (g) distinct virtual operators with equal repr
TWIN_KINDS = ["array", "array", "keyword", "option", "map", "repeat", "expr-array"]


def _mk(sq, epg, name, pos, kw=None, opt=None):
    """(virtual operator, values -> hand-built concrete operator); a str argument is a variable name"""
    kw, opt = dict(kw or {}), dict(opt or {})
    v = getattr(sq.operators, name)(*pos, **kw, **opt)

    def conc(values):
        ev = lambda x: values[x] if isinstance(x, str) else x
        return getattr(epg.operators, ALIAS.get(name, name))(*[ev(x) for x in pos], **{k: ev(x) for k, x in kw.items()}, **opt)
    return v, conc


def gen_twins(seed, sq, epg):
    """sequence with two DIFFERENT virtual operators that print alike (VirtualOperator.__repr__ shows the class and
    the positional expressions, an array constant prints as arr[shape]) -> (items, values, kind, description);
    items: list of (virtual item, values -> concrete operator)"""
    g = random.Random("twins-%s" % (seed,))
    kind = TWIN_KINDS[seed % len(TWIN_KINDS)] if isinstance(seed, int) else g.choice(TWIN_KINDS)
    arr = lambda base: np.round(base * np.array([g.uniform(0.6, 0.9), g.uniform(1.1, 1.5)]), 3)
    values = {"T2": g.choice([40.0, 60.0]), "att": g.choice([0.8, 0.9])}
    base = {"T": [("alpha", 50.0), ("phi", 20.0)], "E": [("tau", 5.0), ("T1", 900.0), ("T2", 45.0), ("g", 0.02)],
            "P": [("tau", 5.0), ("g", 0.03)], "Phi": [("phi", 35.0)], "R": [("rT", 0.05), ("rL", 0.004)], "PD": [("pd", 1.5)]}
    adc = ("ADC", lambda v: epg.ADC)
    shift = _mk(sq, epg, "S", [1])
    exc = _mk(sq, epg, "T", [g.choice([60.0, 90.0]), 0.0])
    relax = _mk(sq, epg, "E", [4.0, 1000.0, "T2"])
    name = g.choice(["T", "E", "P", "Phi", "R"])
    pvals = [v for _, v in base[name]]
    i = g.randrange(len(pvals))
    desc = kind
    if kind in ("array", "expr-array"):
        a1, a2 = arr(pvals[i]), arr(pvals[i])
        if kind == "expr-array":        # array constant inside an expression of a variable
            att = sq.Variable("att")
            A = _mk(sq, epg, name, pvals[:i] + [att * sq.Constant(a1)] + pvals[i + 1:])
            B = _mk(sq, epg, name, pvals[:i] + [att * sq.Constant(a2)] + pvals[i + 1:])
            A = (A[0], (lambda a: lambda v: getattr(epg.operators, name)(*(pvals[:i] + [v["att"] * a] + pvals[i + 1:])))(a1))
            B = (B[0], (lambda a: lambda v: getattr(epg.operators, name)(*(pvals[:i] + [v["att"] * a] + pvals[i + 1:])))(a2))
        else:
            A = _mk(sq, epg, name, pvals[:i] + [a1] + pvals[i + 1:])
            B = _mk(sq, epg, name, pvals[:i] + [a2] + pvals[i + 1:])
        desc += " %s.%s = %s / %s" % (name, base[name][i][0], a1.tolist(), a2.tolist())
        items = [exc, shift, A, relax, adc, shift, B, relax, adc]
    elif kind == "keyword":
        which = g.choice(["Adc.phase", "Adc.weights", "R.r0"])
        if which == "R.r0":
            r1, r2 = round(g.uniform(0.001, 0.003), 4), round(g.uniform(0.005, 0.009), 4)
            A, B = _mk(sq, epg, "R", [0.05, 0.004], {"r0": r1}), _mk(sq, epg, "R", [0.05, 0.004], {"r0": r2})
            items = [exc, shift, A, adc, shift, B, adc]
        else:
            k = which.split(".")[1]
            x1, x2 = (0.0, g.choice([90.0, 45.0])) if k == "phase" else (1.0, g.choice([2.0, 0.5]))
            A, B = _mk(sq, epg, "Adc", [], {k: x1}), _mk(sq, epg, "Adc", [], {k: x2})
            items = [exc, shift, relax, A, shift, relax, B]
        desc += " " + which
    elif kind == "option":
        which = g.choice(["duration", "name", "PD.reset", "Adc.attr"])
        if which == "duration":
            A = _mk(sq, epg, name, pvals, opt={"duration": 1.0})
            B = _mk(sq, epg, name, pvals, opt={"duration": g.choice([2.5, 4.0])})
            items = [exc, shift, A, relax, adc, shift, B, relax, adc]
        elif which == "name":
            A, B = _mk(sq, epg, name, pvals, opt={"name": "first"}), _mk(sq, epg, name, pvals, opt={"name": "second"})
            items = [exc, shift, A, relax, adc, shift, B, relax, adc]
        elif which == "PD.reset":
            A, B = _mk(sq, epg, "PD", [1.5], opt={"reset": False}), _mk(sq, epg, "PD", [1.5], opt={"reset": True})
            items = [exc, shift, relax, A, adc, shift, relax, B, adc]
        else:
            A, B = _mk(sq, epg, "Adc", [], opt={"attr": "F0"}), _mk(sq, epg, "Adc", [], opt={"attr": "Z0"})
            items = [exc, shift, relax, A, shift, relax, B]
        desc += " " + which
    else:
        # one virtual operator with a variable argument, instantiated twice with array-valued substitutions
        a1, a2 = arr(pvals[i]), arr(pvals[i])
        proto = getattr(sq.operators, name)(*(pvals[:i] + ["u"] + pvals[i + 1:]))
        mkc = lambda a: (lambda v: getattr(epg.operators, name)(*(pvals[:i] + [a] + pvals[i + 1:])))
        if kind == "map":
            A, B = (proto.map({"u": a1}), mkc(a1)), (proto(u=a2), mkc(a2))
            items = [exc, shift, A, relax, adc, shift, B, relax, adc]
        else:
            block = [shift[0], proto, relax[0], "ADC"]
            rep = sq.repeat(block, 2, u=[a1.tolist(), a2.tolist()])
            virt = [exc[0]] + [o for r in rep for o in r]
            concs = [exc[1]] + [c for a in (a1, a2) for c in (shift[1], mkc(a), relax[1], adc[1])]
            items = list(zip(virt, concs))
        desc += " %s.%s <- %s / %s" % (name, base[name][i][0], a1.tolist(), a2.tolist())
    return items, values, kind, desc


def twins_check(items, values, sq, epg):
    from epgpy import functions
    s = sq.Sequence([v for v, _ in items])
    conc = [c(values) for _, c in items]
    built = s.build(dict(values))
    if len(built) != len(conc):
        return "build() returns %d operators for %d" % (len(built), len(conc))
    for k, (b, c) in enumerate(zip(built, conc)):
        fb, fc = _fingerprint(b, epg, ["alpha", "phi", "tau", "T1", "T2", "g", "rT", "rL", "r0"]), _fingerprint(c, epg, ["alpha", "phi", "tau", "T1", "T2", "g", "rT", "rL", "r0"])
        fb["name"], fc["name"] = repr(getattr(b, "name", None)), repr(getattr(c, "name", None))
        if fb != fc:
            return "operator %d built as %s, by hand %s (differs in %s)" % (k, getattr(b, "name", b), getattr(c, "name", c), sorted(x for x in fc if fb.get(x) != fc[x]))
    sig = s.signal()(dict(values))
    ref = np.moveaxis(np.asarray(functions.simulate(conc, asarray=True)), 0, -1)
    if sig.shape != ref.shape or np.abs(sig - ref).max() > 1e-12:
        return "signal %s differs from the hand-built concrete sequence %s" % (np.round(sig, 6).tolist(), np.round(ref, 6).tolist())
    t, tref = s.adc_times(**values), functions.get_adc_times(conc)
    if not np.allclose(t, tref):
        return "adc_times %s, by hand %s" % (t, tref)
    return None


def run_twins(ctx, sq, n):
    import epgpy as epg
    reported = False
    base = ctx.rng.randrange(10 ** 6)
    for k in range(n):
        seed = base * 1000 + k
        items, values, kind, desc = gen_twins(seed, sq, epg)
        ctx.count(("twins", desc), nontrivial=True)
        ctx.cov.setdefault("twin_kinds", {})
        ctx.cov["twin_kinds"][kind] = ctx.cov["twin_kinds"].get(kind, 0) + 1
        try:
            why = twins_check(items, values, sq, epg)
        except Exception as e:
            why = "raised %s: %s" % (type(e).__name__, str(e)[:200])
        if why and not reported:
            reported = True
            ctx.report("Sequence %s with two different virtual operators that print alike (%s) at %s: %s" % (
                [repr(v) for v, _ in items], desc, values, why),
                {"kind": "twins", "gen_seed": seed, "description": desc, "why": why}, found_input=True,
                signature={"site": "Sequence.build", "why": "distinct-operators-with-equal-repr"})


# ------------------------------------------------------------------ (h) crlb gradient / hessian axis order (mixed-case names)
def gen_crlb_case(rng, sq):
    ops = sq.operators
    T1, T2, tau, alpha, B1 = (sq.Variable(n) for n in ["T1", "T2", "tau", "alpha", "B1"])
    values = {"alpha": rng.choice([120.0, 140.0, 160.0]), "T1": rng.choice([800.0, 1000.0]), "T2": rng.choice([45.0, 60.0]),
              "tau": rng.choice([5.0, 6.0]), "B1": rng.choice([0.85, 0.95])}
    necho = rng.randint(5, 7)
    style = rng.randrange(3)
    relax = ops.E(tau, T1, T2)
    refoc = ops.T(alpha * B1, 0) if style != 1 else ops.T(alpha, 10 * B1)
    seq = [ops.T(90 * B1 if style == 2 else 90, 90)] + [ops.S(1), relax, refoc, ops.S(1), relax, "ADC"] * necho
    return sq.Sequence(seq), values, "CPMG(necho=%d, style=%d)" % (necho, style)


def crlb_check(s, values, variables, gradient, kw, cache=None):
    from epgpy import stats
    cache = {} if cache is None else cache
    cost, grad = s.crlb(variables, gradient=gradient, **kw)(dict(values))
    cost0 = s.crlb(variables, **kw)(dict(values))
    grad = np.asarray(grad)
    if grad.shape != np.shape(cost) + (len(gradient),):
        return "gradient has shape %s for %d gradient variables" % (grad.shape, len(gradient))
    if not np.allclose(cost, cost0, rtol=1e-9):
        return "cost with gradient %s differs from the gradient-free cost %s" % (cost, cost0)
    exp = np.zeros_like(grad)
    for j, v in enumerate(gradient):
        if v not in cache:
            h = 1e-5 * abs(values[v])
            up, dn = dict(values), dict(values)
            up[v] += h
            dn[v] -= h
            cache[v] = (np.asarray(s.crlb(variables, **kw)(up)) - np.asarray(s.crlb(variables, **kw)(dn))) / (2 * h)
        exp[..., j] = cache[v]
    scale = np.abs(exp).max()
    for j, v in enumerate(gradient):
        if not np.allclose(grad[..., j], exp[..., j], rtol=2e-3, atol=1e-4 * scale):
            return "d crlb / d %s (entry %d of gradient=%s) = %s, central difference of the gradient-free crlb = %s (all entries: %s vs %s)" % (
                v, j, gradient, grad[..., j].tolist(), exp[..., j].tolist(), grad.tolist(), exp.tolist())
    _, jac, hes = s.hessian(variables, gradient)(dict(values))
    skw = {("W" if k == "weights" else k): x for k, x in kw.items()}
    cost2, grad2 = stats.crlb(jac, H=hes, **skw)
    if not (np.allclose(cost, cost2, rtol=1e-9) and np.allclose(grad, grad2, rtol=1e-7, atol=1e-9 * scale)):
        return "crlb(gradient=%s) = %s differs from stats.crlb(hessian(variables, gradient)) = %s" % (gradient, grad.tolist(), np.asarray(grad2).tolist())
    return None


def hessian_order_check(s, values, v1, v2):
    """hessian(v1, v2)[..., i, j] is the (v1[i], v2[j]) entry of the full hessian on the sorted union"""
    union = sorted(set(v1) | set(v2))
    _, jf, hf = s.hessian(union)(dict(values))
    _, j, h = s.hessian(v1, v2)(dict(values))
    if h.shape[-2:] != (len(v1), len(v2)) or j.shape[-1] != len(v1):
        return "hessian(%s, %s) returns shapes %s %s" % (v1, v2, j.shape, h.shape)
    sc = np.abs(hf).max() + 1e-300
    for a, u in enumerate(v1):
        if np.abs(j[..., a] - jf[..., union.index(u)]).max() > 1e-9 * (np.abs(jf).max() + 1e-300):
            return "jacobian column %d of hessian(%s, %s) is not d/d%s" % (a, v1, v2, u)
        for b, w in enumerate(v2):
            if np.abs(h[..., a, b] - hf[..., union.index(u), union.index(w)]).max() > 1e-9 * sc:
                return "hessian(%s, %s)[..., %d, %d] is not d2/d%s d%s of hessian(%s)" % (v1, v2, a, b, u, w, union)
    return None


def run_crlb_gradients(ctx, sq, n):
    rng = ctx.rng
    seen = set()
    for k in range(n):
        s, values, desc = gen_crlb_case(rng, sq)
        names = sorted(values)
        variables = rng.sample(["T2", "alpha", "T1", "B1"], 2)
        _, jac = s.jacobian(variables)(dict(values))
        if np.linalg.cond(np.einsum("...ni,...nj->...ij", jac.conj(), jac).real).max() > 1e6:
            variables = ["T2", "alpha"]
        m = rng.randint(2, 4)
        gsel = sorted(rng.sample(names, m))
        orders = [gsel, gsel[::-1], rng.sample(gsel, m), sorted(gsel, key=str.lower), sorted(gsel, key=str.lower)[::-1]]
        kw = rng.choice([{}, {}, {"log": True}, {"weights": [1.0, 3.0], "sigma2": 0.5}, {"weights": [2.0, 0.5]}])
        cache = {}
        orders = [list(o) for o in dict.fromkeys(tuple(o) for o in orders)]
        for gradient in orders:
            ctx.count(("crlb", desc, tuple(variables), tuple(gradient), str(kw)), nontrivial=gradient != sorted(gradient))
            ctx.cov["crlb_gradient_cases"] = ctx.cov.get("crlb_gradient_cases", 0) + 1
            for site, fn in (("Sequence.crlb", lambda: crlb_check(s, values, variables, gradient, kw, cache)),
                             ("Sequence.hessian", lambda: hessian_order_check(s, values, gradient, rng.sample(names, rng.randint(1, 3))))):
                try:
                    why = fn()
                except Exception as e:
                    why = "raised %s: %s" % (type(e).__name__, str(e)[:200])
                if why and site not in seen:
                    seen.add(site)
                    ctx.report("Sequence %s at %s, variables %s, gradient %s, %s: %s" % (desc, values, variables, gradient, kw, why),
                               {"kind": "crlb-gradient", "sequence": desc, "values": values, "variables": variables,
                                "gradient": gradient, "options": kw, "why": why}, found_input=True,
                               signature={"site": site, "why": "variable-order"})


# ------------------------------------------------------------------ (i) hessian, scale: tiny second derivatives of parameters
def gen_scale_case(rng):
    """parameter expressions  base + 2^-k * (quadratic form in x, y), k = 20..40, at large x, y: the second
    derivative of the PARAMETER is small in absolute value (2^-19 .. 2^-40) while its contribution
    dS/dparam * d2param to the signal's hessian is the leading term or comparable to it"""
    vals = {"x": float(rng.choice([96, 160, 640, 1000, 1536])), "y": float(rng.choice([80, 192, 768, 1250]))}
    blocks = rng.randint(2, 3)
    ops = [{"op": "T", "args": {"alpha": C(40), "phi": C(0)}, "kw": []}]
    slots = []
    for b in range(blocks):
        ops.append({"op": "S", "args": {"k": C(1)}, "kw": []})
        ops.append({"op": "E", "args": {"tau": C(5), "T1": C(1000), "T2": C(rng.choice([50, 80])), "g": C(Fraction(1, 64))}, "kw": ["g"] if rng.random() < 0.5 else []})
        slots += [(len(ops) - 1, p) for p in ("tau", "T1", "T2", "g")]
        if rng.random() < 0.7:
            ops.append({"op": "T", "args": {"alpha": C(rng.choice([60, 120])), "phi": C(30)}, "kw": []})
            slots += [(len(ops) - 1, "alpha"), (len(ops) - 1, "phi")]
        ops.append({"op": "ADC"})
    chosen = rng.sample(slots, rng.randint(1, 3))
    x, y = V("x"), V("y")
    for (i, pname) in chosen:
        base = ops[i]["args"][pname]
        k = rng.randint(20, 40)
        quad = rng.choice([A("mul", x, x), A("pow", x, C(2)), A("mul", x, y), A("mul", y, y),
                           A("add", A("mul", x, x), A("mul", x, y)), A("mul", A("add", x, y), A("add", x, y))])
        if pname == "g":
            k += 8
        t = A("add", base, A("mul", C(Fraction(1, 2 ** k)), quad))
        if rng.random() < 0.25:     # plus a first-order term of ordinary size
            t = A("add", t, A("mul", C(Fraction(1, 2 ** rng.randint(10, 14))), rng.choice([x, y])))
        ops[i]["args"][pname] = t
    return {"ops": ops, "vals": vals, "slots": [[i, pn] for i, pn in chosen]}


def scale_check(case, sq):
    """-> (why | None, list of (coq term, exact value) for the parameter derivatives used, leading-term flag).
    Oracle: the same sequence with every expression parameter replaced by a fresh plain variable q_i gives
    dS/dq_i and d2S/dq_i dq_j (no parameter-level second derivative is involved there; that path is checked
    against central differences at ordinary scales); chain rule with the exact derivatives of the parameter
    expressions (dyadic: binary64 exact, confirmed inside Coq against the model's derive)."""
    import copy
    vals = case["vals"]
    sA = build_shared(case, sq)
    cB = copy.deepcopy(case)
    qs, exprs, trees = [], [], []
    for n_, (i, pn) in enumerate(case["slots"]):
        t = case["ops"][i]["args"][pn]
        cB["ops"][i]["args"][pn] = V("q%d" % n_)
        qs.append("q%d" % n_)
        trees.append(t)
        exprs.append(to_py(t, sq))
    valsB = {q: float(e(**vals)) for q, e in zip(qs, exprs)}
    sB = build_shared(cB, sq)
    V2 = sorted(set().union(*[tree_vars(t) for t in trees]))      # only variables the sequence has
    sig, jac, hes = sA.hessian(V2)(dict(vals))
    sigB, JB, HB = sB.hessian(qs)(dict(valsB))
    if sig.shape != sigB.shape or np.abs(sig - sigB).max() > 1e-13:
        return "signal differs from the sequence with evaluated parameters", [], False
    dp = np.array([[float(e.derive(v)(**vals)) for v in V2] for e in exprs])                      # (nq, 2)
    d2p = np.array([[[float(e.derive(v).derive(w)(**vals)) for w in V2] for v in V2] for e in exprs])   # (nq, 2, 2)
    coq = []
    E = [to_coq(t) for t in trees]
    qv = {k: Fraction(v) for k, v in vals.items()}
    for n_, e in enumerate(E):
        for a, v in enumerate(V2):
            coq.append(("okq (evalQ (qenv %s) (derive \"%s\" %s)) (Some %s) (0 # 1)" % (env_coq(qv), v, e, qlit(Fraction(dp[n_, a]))), "d p%d / d%s" % (n_, v)))
            for b, w in enumerate(V2):
                coq.append(("okq (evalQ (qenv %s) (derive \"%s\" (derive \"%s\" %s))) (Some %s) (0 # 1)" % (
                    env_coq(qv), w, v, e, qlit(Fraction(d2p[n_, a, b]))), "d2 p%d / d%s d%s" % (n_, v, w)))
    t1 = np.einsum("...ij,ia,jb->...ab", HB, dp, dp)
    t2 = np.einsum("...i,iab->...ab", JB, d2p)
    m1 = np.einsum("...ij,ia,jb->...ab", np.abs(HB), np.abs(dp), np.abs(dp))
    m2 = np.einsum("...i,iab->...ab", np.abs(JB), np.abs(d2p))
    exp = t1 + t2
    leading = bool(np.any(m2 > 1e-3 * m1))
    ej = np.einsum("...i,ia->...a", JB, dp)
    mj = np.einsum("...i,ia->...a", np.abs(JB), np.abs(dp))
    if np.any(np.abs(jac - ej) > 1e-9 * mj + 1e-300):
        return "jacobian %s differs from the chain rule %s" % (jac.tolist(), ej.tolist()), coq, leading
    # relative to the size of the terms of each entry; absolute floor 1e-300 (the terms are ~1e-8 .. 1e-16)
    bad = np.abs(hes - exp) > 1e-7 * (m1 + m2) + 1e-300
    if np.any(bad):
        idx = tuple(int(i) for i in np.argwhere(bad)[0])
        a, b = idx[-2], idx[-1]
        return ("d2 signal / d%s d%s [ADC %d] = %r, chain rule with the exact parameter derivatives gives %r "
                "(= sum_ij d2S/dq_i dq_j dp_i dp_j [%r] + sum_i dS/dq_i d2p_i [%r]; d2p = %s)" % (
                    V2[a], V2[b], idx[-3], complex(hes[idx]), complex(exp[idx]), complex(t1[idx]), complex(t2[idx]),
                    [float(d2p[n_, a, b]) for n_ in range(len(qs))])), coq, leading
    return None, coq, leading


def run_scale(ctx, sq, n):
    rng = ctx.rng
    terms, labels, reported = [], [], False
    for k in range(n):
        case = gen_scale_case(rng)
        desc = shared_desc(case)
        try:
            why, coq, leading = scale_check(case, sq)
        except Exception as e:
            why, coq, leading = "raised %s: %s" % (type(e).__name__, str(e)[:200]), [], False
        ctx.count(("hess-scale", desc, tuple(sorted(case["vals"].items()))), nontrivial=leading)
        ctx.cov["hessian_scale_cases"] = ctx.cov.get("hessian_scale_cases", 0) + 1
        ctx.cov["hessian_scale_leading"] = ctx.cov.get("hessian_scale_leading", 0) + int(leading)
        terms += [t for t, _ in coq]
        labels += [(desc, l) for _, l in coq]
        if why and not reported:
            reported = True
            ctx.report("Sequence %s, hessian of its variables at %s: %s" % (desc, case["vals"], why),
                       {"kind": "hessian-scale", "case": case, "sequence": desc, "why": why}, found_input=True,
                       signature={"site": "Sequence.hessian", "why": "small-second-derivative"})
    if terms:
        verdicts, errors = ctx.run_bool_cases("scale", HEADER_Q, terms, chunk=200)
        for e in errors:
            ctx.report("scale stream: parameter derivatives could not be evaluated in Coq",
                       {"theorem_or_correspondence": "C11 scale stream (Cases)", "coq_output": e}, found_input=False)
        for (desc, l), v in zip(labels, verdicts):
            if v is False:
                ctx.report("scale stream: %s of %s differs from the model's derive (exact dyadic comparison)" % (l, desc),
                           {"theorem_or_correspondence": "C11 expression correspondence Model/Expr.v vs epgpy.sequence", "sequence": desc},
                           found_input=False)
                break
        ctx.cov["hessian_scale_exact_param_derivatives"] = len(terms)


# ------------------------------------------------------------------ (j) hessian on arrays whose parameter second derivatives vanish for some entries
def gen_zero_entry_case(rng):
    """x, y: differentiated array variables (x contains an exact 0), w: an array 'constant' with a zero entry;
    parameter expressions that are non-linear so that d2param/dv dw is zero for some batch entries only"""
    n = rng.choice([3, 4])
    xs = [-1.0, 0.0, 1.0, 1.5, 0.5][:n]
    rng.shuffle(xs)
    ws = [0.0, 60.0, 120.0, 90.0][:n]
    rng.shuffle(ws)
    vals = {"x": np.array(xs), "y": np.array([0.9, 1.0, 1.1, 0.8][:n]), "w": np.array(ws)}
    x, y, w = V("x"), V("y"), V("w")
    forms = {
        "alpha": [A("mul", A("pow", y, C(2)), w), A("add", C(60), A("mul", C(20), A("pow", x, C(3)))),
                  A("add", C(50), A("mul", A("mul", x, x), A("mul", C(10), y)))],
        "phi": [A("mul", C(10), A("mul", A("mul", x, x), y)), A("mul", A("mul", y, y), A("div", w, C(4)))],
        "T2": [A("add", C(40), A("mul", C(5), A("pow", x, C(3)))), A("add", C(50), A("mul", C(4), A("mul", A("mul", x, x), y)))],
        "tau": [A("add", C(5), A("mul", A("mul", x, x), y)), A("add", C(5), A("mul", C(Fraction(1, 2)), A("pow", x, C(3))))],
        "T1": [A("add", C(1000), A("mul", C(50), A("mul", A("mul", x, x), y)))],
    }
    ops = [{"op": "T", "args": {"alpha": C(40), "phi": C(0)}, "kw": []}]
    used = 0
    for b in range(rng.randint(2, 3)):
        ops.append({"op": "S", "args": {"k": C(1)}, "kw": []})
        e = {"tau": C(5), "T1": C(1000), "T2": C(50)}
        t = {"alpha": C(rng.choice([60, 120])), "phi": C(30)}
        for d, names in ((e, ["tau", "T1", "T2"]), (t, ["alpha", "phi"])):
            for pn in names:
                if rng.random() < 0.45 or (used == 0 and pn == "phi"):
                    d[pn] = rng.choice(forms[pn])
                    used += 1
        ops.append({"op": "E", "args": e, "kw": []})
        ops.append({"op": "T", "args": t, "kw": []})
        ops.append({"op": "ADC"})
    return {"ops": ops, "vals": vals}, (n,)


def run_zero_entries(ctx, sq, n):
    reported = False
    for k in range(n):
        case, shape = gen_zero_entry_case(ctx.rng)
        s, desc = build_shared(case, sq), shared_desc(case)
        wrt = sorted({str(v) for v in s.variables} & {"x", "y"})
        if not wrt:
            continue
        vals = {k_: v for k_, v in case["vals"].items() if k_ in {str(v_) for v_ in s.variables}}
        ctx.count(("zero-entries", desc, tuple(wrt)), nontrivial=True)
        ctx.cov["hessian_zero_entry_cases"] = ctx.cov.get("hessian_zero_entry_cases", 0) + 1
        why = batch_check(s, vals, shape, wrt)
        if why and not reported:
            reported = True
            ctx.report("Sequence %s with array values %s (second derivatives of the parameters vanish for some entries only), variables %s: %s" % (
                desc, {k_: np.asarray(v).tolist() for k_, v in vals.items()}, wrt, why[1]),
                {"kind": "batch", "sequence": desc, "case": case_json(case), "batch_shape": list(shape), "wrt": wrt,
                 "values": {k_: np.asarray(v).tolist() for k_, v in vals.items()}, "why": why[1]},
                found_input=True, signature={"site": why[0], "why": "batch-zero-second-derivative-entries"})


def case_json(case):
    return {"ops": case["ops"], "vals": {k: np.asarray(v).tolist() for k, v in case["vals"].items()}}


# ------------------------------------------------------------------ (k) non-differentiable operators (D, kvalue) between differentiable ones
def gen_diffusion_case(rng, sq):
    ops = sq.operators
    alpha, T2, b1, tau = (sq.Variable(nm) for nm in ["alpha", "T2", "b1", "tau"])
    values = {"alpha": rng.choice([120.0, 140.0, 160.0]), "T2": rng.choice([40.0, 60.0]), "b1": rng.choice([0.85, 0.9, 1.05]),
              "tau": rng.choice([4.0, 5.0])}
    kv = rng.choice([1e5, 2e5, 3e5])
    dc = rng.choice([2e-3, 3e-3])
    necho = rng.randint(3, 4)
    exc, rfc = ops.T(90 * b1, 90), ops.T(alpha * b1, rng.choice([0, 10]))
    # D is not differentiable: its arguments hold no differentiated variable
    rlx, grd, dif = ops.E(tau, 1000, T2), ops.S(1), ops.D(rng.choice([4.0, 5.0]), dc, 1)
    block = rng.choice([[grd, dif, rlx, rfc, grd, dif, rlx, "ADC"], [grd, dif, rlx, rfc, grd, rlx, dif, "ADC"]])
    how = rng.choice(["options", "System"])
    if how == "options":
        s = sq.Sequence([exc] + block * necho, options={"kvalue": kv})
    else:
        s = sq.Sequence([ops.System(kvalue=kv), exc] + block * necho)
    return s, values, "CPMG with D(<4|5>, %g, 1) x%d, kvalue=%g via %s, D %s relaxation" % (dc, necho, kv, how, "before" if block[5] is rlx else "after")


def diffusion_check(s, values, names):
    sig, jac, hes = s.hessian(names)(dict(values))
    s0 = s.signal()(dict(values))
    if not np.array_equal(sig, s0):
        return "Sequence.hessian", "signal of hessian() differs from signal()"
    step = {v: 1e-4 * abs(values[v]) for v in names}

    def sh(**d):
        return s.signal()({k: values[k] + d.get(k, 0.0) for k in values})
    for i, u in enumerate(names):
        fd = (sh(**{u: step[u]}) - sh(**{u: -step[u]})) / (2 * step[u])
        if np.abs(jac[..., i] - fd).max() > 1e-5 * (np.abs(fd).max() + np.abs(s0).max() / abs(values[u])):
            return "Sequence.hessian", "d signal / d %s = %s, central difference of signal() = %s" % (u, np.round(jac[..., i], 8).tolist(), np.round(fd, 8).tolist())
    for i, u in enumerate(names):
        for j, v in enumerate(names):
            hu, hv = step[u], step[v]
            if i == j:
                fd = (sh(**{u: hu}) - 2 * s0 + sh(**{u: -hu})) / hu ** 2
            else:
                fd = (sh(**{u: hu, v: hv}) - sh(**{u: hu, v: -hv}) - sh(**{u: -hu, v: hv}) + sh(**{u: -hu, v: -hv})) / (4 * hu * hv)
            scale = np.abs(fd).max() + np.abs(s0).max() / abs(values[u] * values[v])
            if np.abs(hes[..., i, j] - fd).max() > 2e-3 * scale:
                return "Sequence.hessian", "d2 signal / d%s d%s = %s, finite differences of signal() = %s" % (
                    u, v, np.round(hes[..., i, j], 8).tolist(), np.round(fd, 8).tolist())
    return None


def run_diffusion(ctx, sq, n):
    rng = ctx.rng
    seen = set()
    for k in range(n):
        s, values, desc = gen_diffusion_case(rng, sq)
        names = rng.sample(sorted(values), rng.randint(2, 4))
        ctx.count(("diffusion", desc, tuple(names), tuple(sorted(values.items()))), nontrivial=True)
        ctx.cov["hessian_diffusion_cases"] = ctx.cov.get("hessian_diffusion_cases", 0) + 1
        checks = [lambda: diffusion_check(s, values, names)]
        variables = ["T2", "alpha"]
        gradient = rng.sample(sorted(values), rng.randint(2, 3))

        def crlb_():
            w = crlb_check(s, values, variables, gradient, {})
            return ("Sequence.crlb", "crlb(%s, gradient=%s): %s" % (variables, gradient, w)) if w else None
        checks.append(crlb_)
        for fn in checks:
            try:
                why = fn()
            except Exception as e:
                why = ("Sequence.hessian", "raised %s: %s" % (type(e).__name__, str(e)[:200]))
            if why and why[0] not in seen:
                seen.add(why[0])
                ctx.report("Sequence %s at %s, variables %s: %s" % (desc, values, names, why[1]),
                           {"kind": "diffusion", "sequence": desc, "values": values, "variables": names, "why": why[1]},
                           found_input=True, signature={"site": why[0], "why": "plain-operator-between-differentiable-ones"})


# ------------------------------------------------------------------ verdicts computed inside Coq
def coq_vop_verdicts(ctx, vops):
    terms = ["vop_binding_ok (nth %d vop_table (Build_vop_entry \"\" \"\" [] [] []))" % i for i in range(len(vops))]
    terms += ["vop_opt_ok (nth %d vop_table (Build_vop_entry \"\" \"\" [] [] []))" % i for i in range(len(vops))]
    terms += ["(List.length vop_table =? %d)%%nat" % len(vops)]
    verdicts, errors = ctx.run_bool_cases("vop", HEADER_Q, terms, chunk=len(terms))
    if errors or None in verdicts or verdicts[-1] is not True:
        ctx.report("virtual-operator verdicts could not be computed", {"theorem_or_correspondence": "vop_binding_ok (Cases)", "coq_output": errors[:1]}, found_input=False)
        return None, None
    n = len(vops)
    return [v[0] for v, ok in zip(vops, verdicts[:n]) if not ok], [v[0] for v, ok in zip(vops, verdicts[n:2 * n]) if not ok]


def run(ctx):
    quick = ctx.tier == "quick"
    proved = ctx.prove(gen=True)
    from epgpy import sequence as sq
    import ast
    from translator import seq_tables
    bad_binding, bad_options, vops = [], [], []
    try:
        vops, _ = seq_tables.extract_vops(ast.parse(open(os.path.join(REPO, "epgpy", "sequence.py")).read()))
    except Exception as e:
        ctx.notes["vop_table_extraction"] = str(e)
    if proved:
        run_expressions(ctx, sq, 120 if quick else 1500, 24 if quick else 300)
        bb, bo = coq_vop_verdicts(ctx, vops)
        bad_binding, bad_options = bb or [], bo or []
        ctx.cov["vop_bad_binding"] = bad_binding
        ctx.cov["vop_bad_options"] = bad_options
    shown = run_vops(ctx, bad_binding, 64 if quick else 400, list(range(4)) if quick else list(range(32))) or set()
    for name in bad_binding:
        if name not in shown:
            ctx.report("virtual operator %s: class / POSITIONALS / KEYWORDS do not match the constructor of the class it is named after (no failing call in this run)" % name,
                       {"theorem_or_correspondence": "vop_binding_ok", "op": name}, found_input=False,
                       signature={"table": "virtual-operators", "entry": name})
    option_findings(ctx, bad_options, vops)
    run_jacobians(ctx, sq, 12 if quick else 150, bad_binding)
    run_hessians(ctx, sq, 18 if quick else 200)
    run_batches(ctx, sq, 12 if quick else 120)
    run_twins(ctx, sq, 21 if quick else 210)
    run_crlb_gradients(ctx, sq, 3 if quick else 30)
    if proved:
        run_scale(ctx, sq, 10 if quick else 100)
    run_zero_entries(ctx, sq, 6 if quick else 60)
    run_diffusion(ctx, sq, 3 if quick else 30)
    ctx.cov["trusted_base"] += [
        "translator /verif/translator/seq_tables.py (Python ast -> Gen/SeqTables.v: math table, virtual-operator table, __init__ signatures)",
        "hand-written model Model/Expr.v (ten python/numpy primitives, Expression.derive/map transcription), tied to epgpy.sequence by exact rational and Interval correspondence",
        "evalQ (executed) and eval (theorems) are the same generic geval at two instances; their agreement on primitives is by inspection + the Interval cases",
        "class resolution of __init__ by first-base chain; documented alias Null -> EmptyOperator",
        "Coquelicot + Interval libraries; axioms as printed by Print Assumptions (classical reals, functional extensionality, classic)"]
    if not proved:
        if not search_derive_failure(ctx, sq):
            ctx.report("proof obligations of C11 no longer check: %s" % ctx.failed_obligations,
                       {"theorem_or_correspondence": ctx.failed_obligations, "notes": ctx.notes.get("make_log_tail", "")[-1500:]}, found_input=False)


def replay(ctx, rp):
    from epgpy import sequence as sq
    kind = rp.get("kind")
    if "case" in rp and "tree" in rp["case"]:
        def tup(t):
            return (t[0], Fraction(t[1])) if t[0] == "c" else (t[0], t[1]) if t[0] == "v" else (t[0], t[1], [tup(a) for a in t[2]])
        t = tup(rp["case"]["tree"])
        fvals = {k: float(Fraction(v)) for k, v in rp["case"]["vals"].items()}
        ex = rebuild(dict(rp["case"], tree=t), sq)
        if rp.get("check") == "map":
            sigma = {k: ((s_[0], tup(s_[1])) if s_[0] == "e" else (s_[0], s_[1])) for k, s_ in rp["case"]["sigma"].items()}
            pysig = {k: (to_py(s_[1], sq) if s_[0] == "e" else s_[1] if s_[0] == "s" else fnum(s_[1])) for k, s_ in sigma.items()}
            sub = dict(fvals)
            for k, s_ in sigma.items():
                sub[k] = spec_val(s_[1], fvals) if s_[0] == "e" else fvals[s_[1]] if s_[0] == "s" else float(Fraction(s_[1]))
            got, want = float(ex.map(pysig)(**fvals)), spec_val(t, sub)
            bad = abs(got - want) > 1e-9 * (1 + abs(want))
            print("replay: %s .map(...) = %.12g, simultaneous substitution in the formula = %.12g -> %s" % (repr(ex), got, want, "VIOLATION reproduced" if bad else "agree"))
            return 1 if bad else 0
        got, want = float(ex(**fvals)), spec_val(t, fvals)
        if abs(got - want) > 1e-9 * (1 + abs(want)):
            print("replay: %s built from %s evaluates to %.12g, the formula is %.12g -> VIOLATION reproduced" % (repr(ex), tree_str(t), got, want))
            return 1
        v = rp.get("variable") or sorted(tree_vars(t))[0]
        d, fd, sd = float(ex.derive(v)(**fvals)), central_diff(ex, fvals, v), spec_diff(t, fvals, v)
        bad = abs(d - fd) > 1e-4 * (1 + abs(fd)) or abs(d - sd) > 1e-4 * (1 + abs(sd))
        print("replay: %s derive(%s)=%.9g central difference=%.9g (of the formula: %.9g) -> %s" % (repr(ex), v, d, fd, sd, "VIOLATION reproduced" if bad else "agree"))
        return 1 if bad else 0
    if kind == "vop":
        c = rp["case"]
        outs = set()
        for hs in range(8):
            env = dict(os.environ, PYTHONHASHSEED=str(hs), PYTHONPATH=REPO + ":" + core.VERIF)
            p = subprocess.run([sys.executable, "-m", "props.c11", "--vop-one", json.dumps(c)], stdout=subprocess.PIPE, text=True, env=env, cwd=core.VERIF)
            outs.add(p.stdout.strip().split("\n")[-1])
        print("replay: %s -> %s" % (rp["call"], sorted(outs)))
        return 0 if outs == {"same"} else 1
    if kind == "hessian-scale":
        def tup(t):
            return (t[0], Fraction(t[1])) if t[0] == "c" else (t[0], t[1]) if t[0] == "v" else (t[0], t[1], [tup(a) for a in t[2]])
        case = rp["case"]
        for o in case["ops"]:
            if "args" in o:
                o["args"] = {p: tup(t) for p, t in o["args"].items()}
        why = scale_check(case, sq)[0]
        print("replay: %s" % ("VIOLATION reproduced: " + why if why else "hessian agrees with the chain rule"))
        return 1 if why else 0
    if kind == "hessian-magnitude":
        def tup(t):
            return (t[0], Fraction(t[1])) if t[0] == "c" else (t[0], t[1]) if t[0] == "v" else (t[0], t[1], [tup(a) for a in t[2]])
        case = rp["case"]
        for o in case["ops"]:
            if "args" in o:
                o["args"] = {p: tup(t) for p, t in o["args"].items()}
        why = magnitude_check(case, sq, rp["v1"], rp["v2"])
        print("replay: %s" % ("VIOLATION reproduced: " + why if why else "hessian with 'magnitude' as expected"))
        return 1 if why else 0
    if kind == "hessian":
        def tup(t):
            return (t[0], Fraction(t[1])) if t[0] == "c" else (t[0], t[1]) if t[0] == "v" else (t[0], t[1], [tup(a) for a in t[2]])
        case = rp["case"]
        for o in case["ops"]:
            if "args" in o:
                o["args"] = {p: tup(t) for p, t in o["args"].items()}
        why = hessian_check_safe(case, sq, rp["v1"]) if rp["v2"] is None else None
        if rp["v2"] is not None:
            try:
                why = hessian_check(case, sq, rp["v1"], rp["v2"])
            except Exception as e:
                why = str(e)
        print("replay: %s" % ("VIOLATION reproduced: " + why if why else "hessian agrees with central differences"))
        return 1 if why else 0
    if kind == "batch":
        if rp.get("case"):
            def tup(t):
                return (t[0], Fraction(t[1])) if t[0] == "c" else (t[0], t[1]) if t[0] == "v" else (t[0], t[1], [tup(a) for a in t[2]])
            case = rp["case"]
            for o in case["ops"]:
                if "args" in o:
                    o["args"] = {p: tup(t) for p, t in o["args"].items()}
            s_ = build_shared(case, sq)
        else:
            print("replay: sequence %s (rebuild by hand), values %s" % (rp["sequence"], rp["values"]))
            return 1
        vals = {k: (np.asarray(v) if isinstance(v, list) else v) for k, v in rp["values"].items()}
        why = batch_check(s_, vals, tuple(rp["batch_shape"]), rp["wrt"])
        print("replay: %s" % ("VIOLATION reproduced: " + why[1] if why else "batched call agrees with the scalar calls"))
        return 1 if why else 0
    if kind == "twins":
        import epgpy as epg
        items, values, k_, desc = gen_twins(rp["gen_seed"], sq, epg)
        why = twins_check(items, values, sq, epg)
        print("replay: %s: %s" % (desc, "VIOLATION reproduced: " + why if why else "built operators equal the hand-built ones"))
        return 1 if why else 0
    if kind == "crlb-gradient":
        print("replay: rebuild %s by hand; crlb(%s, gradient=%s, **%s) at %s: %s" % (rp["sequence"], rp["variables"], rp["gradient"], rp["options"], rp["values"], rp["why"]))
        return 1
    if kind == "diffusion":
        print("replay: rebuild by hand: %s at %s, variables %s: %s" % (rp["sequence"], rp["values"], rp["variables"], rp["why"]))
        return 1
    if kind == "vop-option":
        try:
            getattr(sq.operators, rp["op"])(**rp["kwargs"]).build({})
            print("replay: accepted")
            return 0
        except Exception as e:
            print("replay: VIOLATION reproduced: %s: %s" % (type(e).__name__, e))
            return 1
    print("replay: not an input replay (%s)" % rp.get("what"))
    return 1


if __name__ == "__main__":
    if len(sys.argv) >= 4 and sys.argv[1] == "--vop-worker":
        print(json.dumps(vop_worker(int(sys.argv[2]), int(sys.argv[3]))))
    elif len(sys.argv) >= 3 and sys.argv[1] == "--vop-one":
        c = json.loads(sys.argv[2])
        import props.c11 as me
        orig = me.vop_gen_cases
        me.vop_gen_cases = lambda seed, n: [c]
        print(me.vop_worker(0, 1)[0]["outcome"])
