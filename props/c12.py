"""C12 — probes, timing and modify() report the right quantity at the right time.

Streams (all derived from ctx.rng):
  sim      exact dyadic correspondence of epg.simulate(..., adc_time=True, probe=...) and epg.get_adc_times
           with Model/Run.v evaluated inside Coq (values, times, MultiOperator durations)
  snap     snapshot semantics on the implementation: what a probe returned is not altered by later operators
  modify   epg.modify(): structure of the returned sequence against modify_model (inside Coq), timing,
           and simulate(modify(seq)) against a hand-inserted sequence (tolerance 1e-12), expand on/off
  phasor   Adc.phasor = exp(i*phase*pi/180) (Interval tactic inside Coq)
"""
import math
import numpy as np
from fractions import Fraction
from vlib import core, prog

# ------------------------------------------------------------------ Coq header
HEADER = prog.HEADER + """From EPG Require Import Run.
Definition noT := fun (_ _ : unit) => OWait.
Definition noE := fun (_ : Qc) (_ _ _ : unit) => OWait.
Definition noP := fun (_ : Qc) (_ : unit) => OWait.
Notation IOp := (@IOp QIops unit). Notation IProbe := (@IProbe QIops unit).
Notation Leaf := (@Leaf QIops unit). Notation Node := (@Node QIops unit). Notation DOp := (@DOp QIops unit).
Notation mkProbe := (@mkProbe QIops). Notation QF0 := (@QF0 QIops). Notation QZ0 := (@QZ0 QIops).
Notation QFun := (@QFun QIops).
Notation Single := (@Single QIops). Notation Multi := (@Multi QIops).
Definition F0 (s : sm QIops) : QI := fp (centre (st s)).
Definition Z0 (s : sm QIops) : QI := fz (centre (st s)).
Definition Fk (k : Z) (s : sm QIops) : QI := fp (getZ t0 (st s) k).
Definition Zk (k : Z) (s : sm QIops) : QI := fz (getZ t0 (st s) k).
Definition lin (a b : QI) (s : sm QIops) : QI := qi_add (qi_mul a (F0 s)) (qi_mul b (Z0 s)).
Notation QTuple := (@QTuple QIops).
Definition one (f : sm QIops -> QI) (s : sm QIops) : list QI := [f s].
Definition Farr (s : sm QIops) : list QI := map fp (st s).
Definition Zarr (s : sm QIops) : list QI := map fz (st s).
Definition qabs (x : Qc) : Qc := if Qle_bool 0 x then x else (- x)%Qc.
Definition qi_close (tol : Qc) (x y : QI) : bool :=
  let m := (1 + qabs (fst y) + qabs (snd y))%Qc in
  Qle_bool (qabs (fst x - fst y)%Qc) (tol * m)%Qc && Qle_bool (qabs (snd x - snd y)%Qc) (tol * m)%Qc.
Definition ok_exact := sim_ok QIops unit noT noE noP.
Definition ok_close := sim_ok_by QIops unit noT noE noP (qi_close (Q2Qc (1 # 10000000000000))).
"""

DURS = [0.0, 0.0, 0.5, 1.0, 1.5, 2.25, 3.0, 0.125]
WEIGHTS = [0.5, 1.0, 1.5, 2.0, -1.0, 0.25, complex(0.5, 1), complex(0, -1)]
PHASES = [0, 90, 180, 270, -90, 360, 450, -180, 30, 45.5, -120.25, 33, 200.125]
LIMIT = 36          # bits: keeps weights / expression / batch sums exact in binary64


def qc(x):
    return "(Q2Qc %s)" % core.qlit(x)


def phasor_exact(ph):
    """exp(i*ph*pi/180): exact for a multiple of 90 degrees; otherwise cos/sin of libm (1 ulp), which the
    tolerance of the comparison absorbs (the attribute Adc.phasor itself is checked by the phasor stream)"""
    if float(ph) == int(ph) and int(ph) % 90 == 0:
        return [1, 1j, -1, -1j][(int(ph) // 90) % 4]
    return complex(math.cos(math.radians(ph)), math.sin(math.radians(ph)))


# ------------------------------------------------------------------ generator (sim stream)
def gen_probe(rng, B, allow_phase=True, in_seq=True, allow_tuple=True):
    r = rng.random()
    if in_seq and r < 0.2:
        return {"type": "ADC", "q": "F0", "phase": None, "weights": None, "reduce": None}
    qk = rng.choice(["F0", "F0", "Z0", "lin", "Fk", "Zk", "tuple", "tuple"]) if allow_tuple else \
        rng.choice(["F0", "F0", "Z0", "lin", "Fk", "Zk"])
    if qk == "tuple":
        # tuple / list of state attributes (views of the state array): Probe("(F0, Z0)"), Probe(lambda sm: (sm.F, sm.Z))
        if rng.random() < 0.3:
            comps = [rng.choice(["F", "Z"]) for _ in range(rng.choice([1, 2, 2, 3]))]
        else:
            comps = []
            for _ in range(rng.choice([1, 2, 2, 3])):
                c = rng.choice(["F0", "Z0", "F0", "Z0", "lin", "Fk", "Zk"])
                comps.append(("lin", prog.cdy(rng, nz=True), prog.cdy(rng)) if c == "lin" else
                             (c, rng.choice([1, -1, 0])) if c in ("Fk", "Zk") else c)
        q = ("tuple", comps, rng.choice(["tuple", "list"]))
        expressible = all(isinstance(c, str) or c[0] == "lin" for c in comps)
        return {"type": rng.choice(["expr", "call"]) if expressible else "call", "q": q, "phase": None, "weights": None, "reduce": None}
    if qk == "lin":
        q = ("lin", prog.cdy(rng, nz=True), prog.cdy(rng))
    elif qk in ("Fk", "Zk"):
        q = (qk, rng.choice([1, -1, 2, 0]))
    else:
        q = qk
    if r < 0.6 and isinstance(q, str):
        # Adc(attr, phase, reduce, weights)
        p = {"type": "Adc", "q": q, "phase": None, "weights": None, "reduce": None}
        if allow_phase and rng.random() < 0.6:
            if B > 1 and rng.random() < 0.3:
                p["phase"] = [rng.choice(PHASES) for _ in range(B)]
            else:
                p["phase"] = rng.choice(PHASES)
        if rng.random() < 0.5:
            k = rng.random()
            if k < 0.25:
                p["weights"] = rng.choice(WEIGHTS)                      # 0-d
            elif k < 0.4:
                p["weights"] = [rng.choice(WEIGHTS)]
            elif B > 1:
                p["weights"] = [rng.choice(WEIGHTS) for _ in range(B)]
            else:
                p["weights"] = [rng.choice(WEIGHTS) for _ in range(rng.choice([2, 3]))]
        wsize = 1 if not isinstance(p["weights"], list) else len(p["weights"])
        choices = [None, None, True, 0, (0,)]
        if B > 1 or wsize == 1:
            choices.append(False)      # un-reduced value keeps the batch size
        p["reduce"] = rng.choice(choices)
        return p
    if isinstance(q, str) or q[0] == "lin":
        return {"type": rng.choice(["expr", "call"]), "q": q, "phase": None, "weights": None, "reduce": None}
    return {"type": "call", "q": q, "phase": None, "weights": None, "reduce": None}


def gen_override(rng, B, allow_tuple=True):
    r = rng.random()
    if r < 0.35:
        return None

    def one():
        k = rng.random()
        if k < 0.2:
            return None
        if k < 0.45:
            return rng.choice(["F0", "Z0"])                  # plain string -> Probe(string)
        p = gen_probe(rng, B, in_seq=False, allow_tuple=allow_tuple)
        if p["type"] == "expr" and rng.random() < 0.5:
            p = dict(p, type="str")                         # expression string, wrapped by simulate()
        if p["type"] == "call" and rng.random() < 0.5:
            p = dict(p, type="rawcall")                     # bare callable, wrapped by simulate()
        return p
    if r < 0.6:
        o = one()
        return {"single": o}
    return {"list": [one() for _ in range(rng.choice([1, 2, 2, 3]))]}


def gen_sim_case(rng, quick=True):
    B = rng.choice([1, 1, 1, 2, 3])
    pd = float(rng.choice([0.25, 0.5, 1, 1, 1.5, 2]))
    n0 = rng.choice([0, 0, 1, 2])
    case = {"B": B, "pd": pd, "init": [prog.gen_init(rng, n0) for _ in range(B)], "items": [], "tree": None,
            "override": None, "asarray": False}
    bud = prog.Budget(1, 1)
    n = rng.randint(2, 9 if quick else 14)
    nid = 0
    items = []
    for _ in range(n):
        k = rng.choice(["scalar", "matrix", "shift", "shift", "spoil", "reset", "pd", "wait", "offset",
                        "probe", "probe", "probe", "repeat"])
        if k == "repeat" and items:
            items.append(dict(rng.choice(items)))            # the same object again
            it = items[-1]
            if it["k"] == "op" and it["op"]["op"] in ("scalar", "matrix"):
                kind, has0 = it["op"]["op"], (it["op"].get("arr0") is not None or it["op"].get("mat0") is not None)
                if sum(bud.after(kind, has0)) + 1 > LIMIT:
                    items.pop()
                else:
                    bud.do(kind, has0)
            continue
        if k == "repeat":
            continue
        d = float(rng.choice(DURS))
        if k == "probe":
            p = gen_probe(rng, B)
            it = {"k": "probe", "id": nid, "probe": p, "dur": 0.0}
            if p["type"] != "ADC" and rng.random() < 0.15:
                it["dur"] = float(rng.choice([0.5, 1.0, 0.25]))   # duration attribute set on the probe object
            items.append(it)
            nid += 1
            continue
        if k == "scalar":
            o = prog.gen_scalar(rng)
            if sum(bud.after("scalar", o["arr0"] is not None)) + 1 > LIMIT:
                continue
            bud.do("scalar", o["arr0"] is not None)
        elif k == "matrix":
            o = prog.gen_matrix(rng)
            if sum(bud.after("matrix", o["mat0"] is not None)) + 1 > LIMIT:
                continue
            bud.do("matrix", o["mat0"] is not None)
        elif k == "shift":
            o = prog.gen_shift(rng, 0.15)
        elif k == "pd":
            o = {"op": "pd", "p": float(rng.choice([0.25, 0.5, 1, 2, 3])), "reset": rng.random() < 0.5}
            bud.ue, bud.me = 2, 2
            if o["reset"]:
                bud.u, bud.m = max(bud.u, 2), max(bud.m, 2)
        elif k == "reset":
            o = {"op": "reset"}
            bud.u, bud.m = max(bud.u, bud.ue), max(bud.m, bud.me)
        elif k == "offset":
            o = {"op": "wait", "offset": True}
            d = -float(rng.choice([0.5, 1.0, 0.25]))
        else:
            o = {"op": k}
        if k == "wait" and d == 0:
            d = 1.0
        items.append({"k": "op", "id": nid, "op": o, "dur": d})
        nid += 1
    if not any(it["k"] == "probe" for it in items):
        items.append({"k": "probe", "id": nid, "probe": gen_probe(rng, B), "dur": 0.0})
    case["items"] = items
    case["tree"] = gen_tree(rng, list(range(len(items))))     # groups may have a negative total (Offset members)
    # an array-valued phase compensation cannot be applied to a stacked tuple of arrays
    list_phase = any(it["k"] == "probe" and isinstance(it["probe"]["phase"], list) for it in items)
    case["override"] = gen_override(rng, B, allow_tuple=not list_phase)
    case["asarray"] = rng.random() < 0.4
    return case


def gen_tree(rng, idx, depth=0, in_multi=False):
    """random nesting of the flat index list: ints, ("list", [...]), ("multi", [...])"""
    out = []
    i = 0
    while i < len(idx):
        r = rng.random()
        if depth < 3 and r < 0.3 and len(idx) - i >= 1:
            ln = rng.randint(1, min(4, len(idx) - i))
            kind = rng.choice(["list", "multi", "multi"]) if not in_multi else "multi"
            sub = gen_tree(rng, idx[i:i + ln], depth + 1, in_multi or kind == "multi")
            out.append((kind, sub, rng.choice(["ctor", "mul"])))
            i += ln
        else:
            out.append(idx[i])
            i += 1
    return out


# ------------------------------------------------------------------ implementation driver
def quantity_fn(q):
    if q == "F":
        return lambda sm: sm.F
    if q == "Z":
        return lambda sm: sm.Z
    if q[0] == "tuple":
        fs = [quantity_fn(c) for c in q[1]]
        ctor = tuple if q[2] == "tuple" else list
        return lambda sm: ctor(f(sm) for f in fs)
    if q == "F0":
        return lambda sm: sm.F0
    if q == "Z0":
        return lambda sm: sm.Z0
    if q[0] == "lin":
        a, b = q[1], q[2]
        return lambda sm: a * sm.F0 + b * sm.Z0
    kind, k = q
    col = 0 if kind == "Fk" else 2

    def f(sm):
        if abs(k) > sm.nstate:
            return 0 * sm.F0
        return sm.states[..., sm.nstate + k, col]
    return f


def expr_of(q):
    if isinstance(q, str):
        return q
    if q[0] == "tuple":
        inner = ", ".join(expr_of(c) for c in q[1])
        return "[%s]" % inner if q[2] == "list" else "(%s,)" % inner
    return "(%r)*F0 + (%r)*Z0" % (q[1], q[2])


def build_probe(p, raw=False):
    import epgpy as epg
    t = p["type"]
    if t == "ADC":
        return epg.ADC
    if t == "Adc":
        kw = {}
        if p["phase"] is not None:
            kw["phase"] = p["phase"]
        if p["weights"] is not None:
            kw["weights"] = p["weights"]
        if p["reduce"] is not None:
            kw["reduce"] = tuple(p["reduce"]) if isinstance(p["reduce"], (list, tuple)) else p["reduce"]
        return epg.Adc(p["q"], **kw)
    if t == "expr":
        return epg.Probe(expr_of(p["q"]))
    if t == "str":
        return expr_of(p["q"])
    if t == "call":
        return epg.Probe(quantity_fn(p["q"]))
    if t == "rawcall":
        return quantity_fn(p["q"])
    raise ValueError(t)


def build_item(it):
    import epgpy as epg
    from epgpy import opscalar, opmatrix, operator
    if it["k"] == "probe":
        pb = build_probe(it["probe"])
        if it["dur"]:
            pb.duration = it["dur"]
        return pb
    o, d = it["op"], it["dur"]
    k = o["op"]
    dk = {"duration": d} if d else ({"duration": 0.0} if it["id"] % 2 else {})
    if k == "scalar":
        return opscalar.ScalarOp(np.array(o["arr"], dtype=complex),
                                 None if o["arr0"] is None else np.array(o["arr0"], dtype=complex), **dk)
    if k == "matrix":
        return opmatrix.MatrixOp(np.array(o["mat"], dtype=complex),
                                 None if o["mat0"] is None else np.array(o["mat0"], dtype=complex), **dk)
    if k == "shift":
        return epg.S(int(o["d"]), nmax=o["nmax"], **dk)
    if k == "spoil":
        return operator.Spoiler(**dk) if d else epg.SPOILER
    if k == "reset":
        return operator.Reset(**dk) if d else epg.RESET
    if k == "pd":
        return epg.PD(o["p"], reset=o["reset"], **dk)
    if k == "wait":
        return epg.Offset(d) if o.get("offset") else epg.Wait(d)
    raise ValueError(k)


def build_objects(case):
    objs = {}
    for it in case["items"]:
        if it["id"] not in objs:
            objs[it["id"]] = build_item(it)
    return objs


def build_tree(case, objs, tree=None, multis=None):
    """python nested sequence; multis collects the MultiOperator objects in pre-order"""
    from epgpy import operator
    tree = case["tree"] if tree is None else tree
    out = []
    for nd in tree:
        if isinstance(nd, int):
            out.append(objs[case["items"][nd]["id"]])
        else:
            kind, sub, how = nd
            if kind == "list":
                out.append(build_tree(case, objs, sub, multis))
            else:
                slot = len(multis)
                multis.append(None)
                members = build_tree(case, objs, sub, multis)
                if how == "mul" and len(members) >= 2:
                    m = members[0] * members[1]
                    for x in members[2:]:
                        m = m * x
                else:
                    m = operator.MultiOperator(members)
                multis[slot] = m
                out.append(m)
    return out


def build_override(ov):
    if ov is None:
        return None
    if "single" in ov:
        return None if ov["single"] is None else (ov["single"] if isinstance(ov["single"], str) else build_probe(ov["single"]))
    return [None if o is None else (o if isinstance(o, str) else build_probe(o)) for o in ov["list"]]


def override_list(ov):
    """override as the list of probe descriptions / None the model sees"""
    if ov is None:
        return []
    if "single" in ov:
        return [] if ov["single"] is None else [ov["single"]]
    return list(ov["list"])


def run_sim_impl(case):
    import epgpy as epg
    objs = build_objects(case)
    multis = []
    seq = build_tree(case, objs, None, multis)
    init = np.array(case["init"], dtype=complex)
    sm = epg.StateMatrix(init if case["B"] > 1 else init[0], density=case["pd"])
    ov = build_override(case["override"])
    nov = max(1, len(override_list(case["override"])))
    times, values = epg.simulate(seq, init=sm, adc_time=True, probe=ov, asarray=False)
    if nov == 1 and ov is not None and not isinstance(values, tuple):
        raise AssertionError("single-probe result is not flattened to one series")
    if case["asarray"]:
        # asarray=True on the same objects: the stacked arrays must hold the same numbers
        series = [values] if nov == 1 else list(values)
        if all(len({np.shape(v) for v in s}) == 1 and not any(isinstance(v, (tuple, list)) for v in s) for s in series):
            t2, v2 = epg.simulate(seq, init=sm, adc_time=True, probe=ov, asarray=True)
            s2 = [v2] if nov == 1 else list(v2)
            same = np.array_equal(np.asarray(t2), np.asarray(times)) and len(s2) == len(series) and all(
                isinstance(b, np.ndarray) and np.array_equal(np.asarray(a), b) for a, b in zip(series, s2))
            if not same:
                raise AssertionError("simulate(asarray=True) differs from simulate(asarray=False)")
    adc = epg.get_adc_times(seq)
    mdur = [m.duration for m in multis]
    times = [float(t) for t in np.asarray(times).tolist()]
    if nov == 1:
        vals = ("single", [flatval(v) for v in values])
    else:
        if len(values) != nov:
            raise AssertionError("simulate returned %d series for %d probes" % (len(values), nov))
        vals = ("multi", [[flatval(v) for v in series] for series in values])
    return {"times": times, "adc": [float(t) for t in adc], "mdur": [float(x) for x in mdur], "vals": vals}


def flatval(v):
    """recorded entry as a flat list of numbers: a tuple / list of arrays component after component"""
    if isinstance(v, (tuple, list)):
        return [z for c in v for z in np.ravel(np.asarray(c)).tolist()]
    return np.ravel(np.asarray(v)).tolist()


# ------------------------------------------------------------------ Gallina printers
def c_value(v):
    return core.clist([core.qi(z) for z in v])


def c_quantity(q):
    if q == "F0":
        return "QF0"
    if q == "Z0":
        return "QZ0"
    if q[0] == "tuple":
        def comp(c):
            if c in ("F", "Z"):
                return c + "arr"
            if c in ("F0", "Z0"):
                return "(one %s)" % c
            if c[0] == "lin":
                return "(one (lin %s %s))" % (core.qi(c[1]), core.qi(c[2]))
            return "(one (%s %s))" % (c[0], core.zlit(c[1]))
        return "(QTuple %s)" % core.clist([comp(c) for c in q[1]])
    if q[0] == "lin":
        return "(QFun (lin %s %s))" % (core.qi(q[1]), core.qi(q[2]))
    return "(QFun (%s %s))" % (q[0], core.zlit(q[1]))


def c_probe(p, exact_phasor=True):
    if isinstance(p, str):
        return "(mkProbe %s None RNone None)" % c_quantity(p)
    w = p["weights"]
    if w is None:
        cw = "None"
    else:
        cw = "(Some %s)" % c_value(w if isinstance(w, list) else [w])
    r = p["reduce"]
    cr = "RNone" if r is None else "RTrue" if r is True else "RFalse" if r is False else "RAxes"
    ph = p["phase"]
    if ph is None:
        cp = "None"
    else:
        phs = ph if isinstance(ph, list) else [ph]
        cp = "(Some %s)" % c_value([phasor_exact(x) for x in phs])
    return "(mkProbe %s %s %s %s)" % (c_quantity(p["q"]), cw, cr, cp)


def c_item(it):
    if it["k"] == "probe":
        return "(IProbe %d%%nat %s %s)" % (it["id"], c_probe(it["probe"]), qc(it["dur"]))
    return "(IOp %d%%nat (DOp %s) %s)" % (it["id"], prog.c_op(it["op"]), qc(it["dur"]))


def c_tree(case, tree=None):
    tree = case["tree"] if tree is None else tree
    out = []
    for nd in tree:
        if isinstance(nd, int):
            out.append("(Leaf %s)" % c_item(case["items"][nd]))
        else:
            out.append("(Node %s %s)" % ("true" if nd[0] == "multi" else "false", c_tree(case, nd[1])))
    return core.clist(out)


def c_bstate(case):
    eq_c = lambda n: [[0j, 0j, 0j]] * n + [[0j, 0j, complex(case["pd"])]] + [[0j, 0j, 0j]] * n
    out = []
    for rows in case["init"]:
        n = (len(rows) - 1) // 2
        out.append(prog.c_sm((rows, eq_c(n))))
    return core.clist(out)


def c_simout(vals):
    kind, v = vals
    if kind == "single":
        return "(Single %s)" % core.clist([c_value(x) for x in v])
    return "(Multi %s)" % core.clist([core.clist([c_value(x) for x in series]) for series in v])


def needs_tolerance(case):
    for it in case["items"]:
        if it["k"] == "probe":
            ph = it["probe"]["phase"]
            if ph is not None and any(x != 0 for x in (ph if isinstance(ph, list) else [ph])):
                return True
    return False


def sim_term(case, obs):
    ov = core.clist(["None" if o is None else "(Some %s)" % c_probe(o) for o in override_list(case["override"])])
    f = "ok_close" if needs_tolerance(case) else "ok_exact"
    return "(%s %s %s %s %s %s %s %s)" % (
        f, c_tree(case), ov, c_bstate(case), c_simout(obs["vals"]),
        core.clist([qc(t) for t in obs["times"]]), core.clist([qc(t) for t in obs["adc"]]),
        core.clist([qc(t) for t in obs["mdur"]]))


# ------------------------------------------------------------------ python mirror of the spec (search oracle / diagnosis)
def spec_oracle(case):
    """independent statement-level oracle: prefix runs + cumulative sums (floats, exact on dyadic inputs)"""
    import epgpy as epg
    flat = []

    def walk(tree):
        for nd in tree:
            if isinstance(nd, int):
                flat.append(case["items"][nd])
            else:
                walk(nd[1])
    walk(case["tree"])
    init = np.array(case["init"], dtype=complex)
    ovl = override_list(case["override"])
    rows, times = [], []
    tic = Fraction(0)
    for j, it in enumerate(flat):
        tic += Fraction(it["dur"])
        if it["k"] != "probe":
            continue
        # fresh state: re-run the prefix of operators from scratch, out of place
        sm = epg.StateMatrix(init if case["B"] > 1 else init[0], density=case["pd"])
        for it2 in flat[:j]:
            if it2["k"] == "op":
                sm = build_item(it2)(sm, inplace=False)
        row = []
        for o in (ovl or [None]):
            p = it["probe"] if o is None else ({"type": "expr", "q": o, "phase": None, "weights": None, "reduce": None} if isinstance(o, str) else o)
            arr = quantity_fn(p["q"])(sm)
            arr = np.asarray([np.asarray(c) for c in arr]) if isinstance(arr, (tuple, list)) else np.asarray(arr)
            if p["weights"] is not None:
                arr = arr * np.asarray(p["weights"])
            red = p["reduce"]
            if (red is None and p["weights"] is not None) or (red is not None and red is not False):
                arr = arr.sum()
            ph = it["probe"]["phase"]
            if ph is not None:
                arr = arr * np.array([phasor_exact(x) for x in (ph if isinstance(ph, list) else [ph])])
            row.append(np.ravel(arr))
        rows.append(row)
        times.append(float(tic))
    return rows, times


def oracle_disagrees(case, obs):
    rows, times = spec_oracle(case)
    if times != obs["times"]:
        return "acquisition times %s differ from the cumulative sums of durations %s" % (obs["times"], times)
    if times != obs["adc"]:
        return "get_adc_times %s differs from the cumulative sums of durations %s" % (obs["adc"], times)
    kind, v = obs["vals"]
    series = [v] if kind == "single" else v
    if len(series) != len(rows[0]) or any(len(s) != len(rows) for s in series):
        return "number of recorded entries differs from probes x occurrences"
    for j, row in enumerate(rows):
        for k, ref in enumerate(row):
            got = np.asarray(series[k][j])
            if got.shape != ref.shape or np.abs(got - ref).max() > 1e-12 * (1 + np.abs(ref).max()):
                return "entry of probe %d at occurrence %d is %s, the requested quantity of the state at that point is %s" % (
                    k, j, got.tolist(), ref.tolist())
    return None


def sim_signature(case, why):
    kinds = sorted({it["probe"]["type"] for it in case["items"] if it["k"] == "probe"})
    return {"stream": "sim", "override": None if case["override"] is None else list(case["override"])[0],
            "why": (why or "model")[:40], "probes": kinds}


# ------------------------------------------------------------------ sim stream
def run_sim_stream(ctx, n):
    terms, kept = [], []
    stats = {"override": {}, "probe_types": {}, "batch": {}, "tolerance_cases": 0, "nested": 0, "probe_occurrences": 0}
    for i in range(n):
        case = gen_sim_case(ctx.rng, ctx.tier == "quick")
        try:
            obs = run_sim_impl(case)
        except Exception as e:
            ctx.report("simulate()/get_adc_times raised %s on a valid sequence: %s" % (type(e).__name__, str(e)[:200]),
                       {"sim_case": case}, found_input=True, signature={"stream": "sim", "raises": type(e).__name__})
            continue
        terms.append(sim_term(case, obs))
        kept.append((case, obs))
        nocc = sum(1 for it in case["items"] if it["k"] == "probe")
        ctx.count(("sim", repr(case)), nontrivial=len(case["items"]) >= 3)
        if i < 2:
            ctx.sample({"sim_case": {"B": case["B"], "items": [(it["k"], it.get("op", {}).get("op") or it["probe"]["type"], it["dur"]) for it in case["items"]],
                                     "tree": repr(case["tree"]), "override": repr(case["override"])}, "observed_times": obs["times"]})
        ok = "none" if case["override"] is None else list(case["override"])[0]
        stats["override"][ok] = stats["override"].get(ok, 0) + 1
        stats["batch"][case["B"]] = stats["batch"].get(case["B"], 0) + 1
        stats["tolerance_cases"] += needs_tolerance(case)
        stats["nested"] += any(not isinstance(nd, int) for nd in case["tree"])
        stats["probe_occurrences"] += nocc
        for k, it in enumerate(case["items"]):
            if it["k"] == "probe":
                t = it["probe"]["type"]
                stats["probe_types"][t] = stats["probe_types"].get(t, 0) + 1
                if isinstance(it["probe"]["q"], tuple) and it["probe"]["q"][0] == "tuple":
                    stats["tuple_probes"] = stats.get("tuple_probes", 0) + 1
                    if any(x["k"] == "op" and x["op"]["op"] not in ("wait",) for x in case["items"][k + 1:]):
                        stats["tuple_probes_before_further_operators"] = stats.get("tuple_probes_before_further_operators", 0) + 1
        stats["tuple_overrides"] = stats.get("tuple_overrides", 0) + sum(
            1 for o in override_list(case["override"]) if isinstance(o, dict) and isinstance(o["q"], tuple) and o["q"][0] == "tuple")
    verdicts, errors = ctx.run_bool_cases("sim", HEADER, terms, chunk=12)
    for e in errors:
        ctx.report("correspondence shard failed to evaluate", {"theorem_or_correspondence": "C12 sim correspondence (Cases)", "coq_output": e}, found_input=False)
    nbad = 0
    for (case, obs), v in zip(kept, verdicts):
        if v is False:
            nbad += 1
            if nbad > 8:
                continue
            case, obs = shrink_sim(ctx, case, obs)
            why = oracle_disagrees(case, obs)
            ctx.report(why or "model Run.v and epgpy.simulate disagree (spec oracle agrees with the implementation)",
                       {"sim_case": case, "observed": obs, "theorem_or_correspondence": "C12 correspondence Model/Run.v vs epgpy.simulate"},
                       found_input=bool(why), signature=sim_signature(case, why))
    ctx.cov["sim_stream"] = stats


def sim_disagrees(ctx, case):
    try:
        obs = run_sim_impl(case)
    except Exception:
        return None
    v, errs = ctx.run_bool_cases("shrink", HEADER, [sim_term(case, obs)], chunk=1)
    return obs if v and v[0] is False else None


def shrink_sim(ctx, case, obs, budget=12):
    """greedy: drop the override, the nesting, then single items, while the case still disagrees"""
    def attempt(c):
        nonlocal budget
        if budget <= 0:
            return None
        budget -= 1
        if not any(it["k"] == "probe" for it in c["items"]):
            return None
        return sim_disagrees(ctx, c)
    cand = dict(case, tree=list(range(len(case["items"]))))
    o = attempt(cand)
    if o:
        case, obs = cand, o
    if case["override"] is not None:
        cand = dict(case, override=None)
        o = attempt(cand)
        if o:
            case, obs = cand, o
    if all(isinstance(nd, int) for nd in case["tree"]):
        i = 0
        while i < len(case["items"]) and budget > 0:
            items = case["items"][:i] + case["items"][i + 1:]
            cand = dict(case, items=items, tree=list(range(len(items))))
            o = attempt(cand)
            if o:
                case, obs = cand, o
            else:
                i += 1
    return case, obs


# ------------------------------------------------------------------ snapshot stream (implementation only)
def snap_case_bad(case, counters):
    import epgpy as epg
    objs = build_objects(case)
    rec = {}

    def wrap(pid, q):
        f = quantity_fn(q)

        def g(sm):
            v = f(sm)
            rec.setdefault(pid, []).append(np.array(flatval(v)))
            return v
        return g
    for it in case["items"]:
        if it["k"] == "probe" and it["probe"]["type"] in ("call", "expr"):
            objs[it["id"]] = epg.Probe(wrap(it["id"], it["probe"]["q"]))
    seq = [objs[it["id"]] for it in case["items"]]
    init = np.array(case["init"], dtype=complex)
    sm = epg.StateMatrix(init if case["B"] > 1 else init[0], density=case["pd"])
    vals = epg.simulate(seq, init=sm, asarray=False)
    pos = [k for k, it in enumerate(case["items"]) if it["k"] == "probe"]
    seen = {}
    for j, k in enumerate(pos):
        it = case["items"][k]
        if it["id"] in rec:
            c = seen.get(it["id"], 0)
            seen[it["id"]] = c + 1
            counters["views"] += 1
            if not np.array_equal(np.array(flatval(vals[j])), rec[it["id"]][c]):
                return "value of probe occurrence %d changed after acquisition: returned %s, at acquisition %s" % (
                    j, flatval(vals[j]), rec[it["id"]][c].tolist())
        trunc = epg.simulate(seq[:k + 1], init=sm, asarray=False)
        counters["trunc"] += 1
        if flatval(trunc[j]) != flatval(vals[j]):
            return "entry %d of the full run %s differs from the run stopped after that probe %s" % (
                j, flatval(vals[j]), flatval(trunc[j]))
    return None


def run_snap_stream(ctx, n):
    """(a) the value a probe returned equals a copy taken at acquisition time, although the probe's callable
    hands out a view of the state array and later operators work in place;
    (b) entry j of the full run equals entry j of the run truncated right after the j-th probe"""
    counters = {"views": 0, "trunc": 0}
    for i in range(n):
        case = gen_sim_case(ctx.rng, True)
        case["tree"] = list(range(len(case["items"])))
        try:
            bad = snap_case_bad(case, counters)
        except Exception as e:
            ctx.report("simulate() raised %s on a valid sequence: %s" % (type(e).__name__, str(e)[:200]),
                       {"snap_case": case}, found_input=True, signature={"stream": "snap", "raises": type(e).__name__})
            continue
        pos = [k for k, it in enumerate(case["items"]) if it["k"] == "probe"]
        ctx.count(("snap", repr(case)), nontrivial=len(pos) >= 1 and pos[0] < len(case["items"]) - 1)
        if bad:
            ctx.report(bad, {"snap_case": case}, found_input=True, signature={"stream": "snap", "why": bad[:30]})
    ctx.cov["snap_stream"] = {"cases": n, "view_probes_checked": counters["views"], "truncated_runs": counters["trunc"]}


# ------------------------------------------------------------------ modify stream
MHEADER = """From Coq Require Import List ZArith QArith Qcanon Bool.
From EPG Require Import Scalar QI State Ops Run.
Import ListNotations.
Notation IOp := (@IOp QIops Qc). Notation IProbe := (@IProbe QIops Qc).
Notation Leaf := (@Leaf QIops Qc). Notation Node := (@Node QIops Qc).
Notation DT := (@DT QIops Qc). Notation DE := (@DE QIops Qc). Notation DP := (@DP QIops Qc).
Definition X := @DOp QIops Qc (@OWait QIops).
Definition PB := @mkProbe QIops (@QF0 QIops) None RNone None.
Definition q (a : Z) (b : positive) : Qc := Q2Qc (a # b).
Definition mod_ok := modify_ok QIops Qc Qcmult (Qc_eq_bool (Q2Qc 1)) (Q2Qc 10000000000) (Q2Qc 0) Qc_eq_bool.
Definition mod_ok_multi := modify_ok_multi QIops Qc Qcmult (Qc_eq_bool (Q2Qc 1)) (Q2Qc 10000000000) (Q2Qc 0) Qc_eq_bool.
"""

MDUR = [0.0, 0.0, 0.5, 1.0, 2.5, 4.0, 0.125]


def qq(x):
    f = core.frac(x)
    return "(q %s %d)" % (core.zlit(f.numerator), f.denominator)


def gen_mod_case(rng):
    n = rng.randint(2, 9)
    items, nid = [], 0
    for _ in range(n):
        k = rng.choice(["T", "T", "T", "S", "S", "E", "E", "P", "wait", "offset", "spoil", "reset", "ADC", "Adc", "Probe", "repeat"])
        if k == "repeat":
            if items:
                items.append(dict(rng.choice(items)))
            continue
        d = float(rng.choice(MDUR))
        it = {"cls": k, "id": 3 * nid, "dur_arg": d if d else None}
        if k == "T":
            it.update(alpha=float(rng.choice([30, 45, 90, 180, 22.5, 120])), phi=float(rng.choice([0, 90, 45, 180])))
        elif k == "S":
            it.update(k=rng.choice([1, 1, 2, -1]))
        elif k in ("E", "P"):
            it.update(tau=float(rng.choice([1.0, 2.5, 5.0, 0.5])), T1=float(rng.choice([800, 1400])), T2=float(rng.choice([40, 75.5])),
                      g=float(rng.choice([0, 0.125, 0.01])))
            it["dur_arg"] = rng.choice([True, True, None, d or None])
        elif k == "wait":
            it["dur_arg"] = d or 1.5
        elif k == "offset":
            it["dur_arg"] = -float(rng.choice([0.5, 1.0]))
        elif k in ("spoil", "reset", "ADC"):
            it["dur_arg"] = None
            it["id"] = {"spoil": 3000, "reset": 3003, "ADC": 3006}[k]     # module-level singletons
        elif k in ("Adc", "Probe"):
            it["dur_arg"] = None
            it.update(attr=rng.choice(["F0", "Z0"]), phase=rng.choice([None, 30.0, 90]))
        items.append(it)
        nid += 1
    if not any(it["cls"] in ("ADC", "Adc", "Probe") for it in items):
        items.append({"cls": "ADC", "id": 3006, "dur_arg": None})
    case = {"items": items}
    case["tree"] = gen_tree(rng, list(range(len(items))))
    case["top_multi"] = rng.random() < 0.12
    if case["top_multi"]:
        case["tree"] = list(range(len(items)))
    r = rng.random()
    params = {}
    if r > 0.08:
        for name, vals in (("T1", [800.0, 1000.5, 1e10]), ("T2", [50.0, 80.25]), ("g", [0.0, 0.01, 0.125]),
                           ("att", [1, 1.0, 0.5, 0.75, 1.25])):
            x = rng.random()
            if x < 0.5:
                params[name] = rng.choice(vals)
            elif x < 0.6:
                params[name] = None           # keyword passed with value None
    case["params"] = params
    return case


def mdur(it):
    """duration the documentation promises for the constructor arguments (duration=True -> tau)"""
    d = it["dur_arg"]
    if d is True:
        return it["tau"]
    return 0.0 if d is None else d


def build_mod_item(it):
    import epgpy as epg
    k, d = it["cls"], it["dur_arg"]
    kw = {} if d is None else {"duration": d}
    if k == "T":
        return epg.T(it["alpha"], it["phi"], **kw)
    if k == "S":
        return epg.S(it["k"], **kw)
    if k == "E":
        return epg.E(it["tau"], it["T1"], it["T2"], it["g"], **kw)
    if k == "P":
        return epg.P(it["tau"], it["g"], **kw)
    if k == "wait":
        return epg.Wait(d)
    if k == "offset":
        return epg.Offset(d)
    if k == "spoil":
        return epg.SPOILER
    if k == "reset":
        return epg.RESET
    if k == "ADC":
        return epg.ADC
    if k == "Adc":
        return epg.Adc(it["attr"], phase=it["phase"])
    if k == "Probe":
        return epg.Probe(it["attr"])
    raise ValueError(k)


def c_mod_item(it):
    d = qq(mdur(it))
    if it["cls"] in ("ADC", "Adc", "Probe"):
        return "(IProbe %d%%nat PB %s)" % (it["id"], d)
    if it["cls"] == "T":
        return "(IOp %d%%nat (DT %s %s) %s)" % (it["id"], qq(it["alpha"]), qq(it["phi"]), d)
    return "(IOp %d%%nat X %s)" % (it["id"], d)


def c_mod_tree(case, tree=None):
    """a MultiOperator object holds the flat list of its members (append() extends with the members of a
    nested MultiOperator), so a multi node is printed with its leaves"""
    tree = case["tree"] if tree is None else tree

    def leaves(nd):
        return [nd] if isinstance(nd, int) else [x for y in nd[1] for x in leaves(y)]
    out = []
    for nd in tree:
        if isinstance(nd, int):
            out.append("(Leaf %s)" % c_mod_item(case["items"][nd]))
        elif nd[0] == "multi":
            out.append("(Node true %s)" % core.clist(["(Leaf %s)" % c_mod_item(case["items"][k]) for k in leaves(nd)]))
        else:
            out.append("(Node false %s)" % c_mod_tree(case, nd[1]))
    return core.clist(out)


class Unexpected(Exception):
    pass


def describe_leaf(obj, orig, fresh):
    """Gallina item for an operator object of the list modify() returned"""
    import epgpy as epg
    if id(obj) in orig:
        return c_mod_item(orig[id(obj)])
    if id(obj) not in fresh:
        fresh[id(obj)] = 3 * len(fresh) + 1
    nid = fresh[id(obj)]

    def sc(x):
        if np.ndim(x) != 0:
            raise Unexpected("array-valued parameter %r in a scalar case" % (x,))
        return qq(float(x))
    d = sc(obj.duration)
    if type(obj) is epg.T:
        return "(IOp %d%%nat (DT %s %s) %s)" % (nid, sc(obj.alpha), sc(obj.phi), d)
    if type(obj) is epg.E:
        return "(IOp %d%%nat (DE %s %s %s %s) %s)" % (nid, sc(obj.tau), sc(obj.T1), sc(obj.T2), sc(obj.g), d)
    if type(obj) is epg.P:
        return "(IOp %d%%nat (DP %s %s) %s)" % (nid, sc(obj.tau), sc(obj.g), d)
    raise Unexpected("modify() created an operator of type %s" % type(obj).__name__)


def run_mod_impl(case):
    import epgpy as epg
    from epgpy import operator
    objs, orig = {}, {}
    for it in case["items"]:
        if it["id"] not in objs:
            objs[it["id"]] = build_mod_item(it)
            orig[id(objs[it["id"]])] = it
    fake = {"items": [{"id": it["id"]} for it in case["items"]], "tree": case["tree"]}
    seq = build_tree(fake, objs, None, [])
    if case["top_multi"]:
        seq = operator.MultiOperator(seq)
    times = [float(t) for t in epg.get_adc_times(seq)]
    res = epg.modify(seq, **case["params"])
    times_mod = [float(t) for t in epg.get_adc_times(res)]
    fresh = {}
    if case["top_multi"]:
        if not isinstance(res, operator.MultiOperator):
            raise Unexpected("modify(MultiOperator) did not return a MultiOperator")
        obs = core.clist([describe_leaf(o, orig, fresh) for o in res.operators])
    else:
        def walk(x):
            if isinstance(x, list):
                return "(Node false %s)" % core.clist([walk(y) for y in x])
            if isinstance(x, operator.MultiOperator):
                return "(Node true %s)" % core.clist(["(Leaf %s)" % describe_leaf(o, orig, fresh) for o in x.operators])
            return "(Leaf %s)" % describe_leaf(x, orig, fresh)
        if not isinstance(res, list):
            raise Unexpected("modify(list) returned a %s" % type(res).__name__)
        obs = core.clist([walk(x) for x in res])
    # durations of the returned elements = durations of the operators they replace (when flattened by modify)
    return {"obs": obs, "times": times, "times_mod": times_mod, "seq": seq, "res": res, "objs": objs}


def hand_inserted(case, objs):
    """specification: flat sequence with explicit evolutions after every operator of positive duration"""
    import epgpy as epg
    flat = []

    def walk(tree):
        for nd in tree:
            if isinstance(nd, int):
                flat.append(case["items"][nd])
            else:
                walk(nd[1])
    walk(case["tree"])
    P = case["params"]
    T1, T2, g, att = P.get("T1"), P.get("T2"), P.get("g"), P.get("att")
    out = []
    for it in flat:
        o = objs[it["id"]]
        d = mdur(it)
        if it["cls"] == "T" and att is not None and not np.allclose(att, 1):
            o = epg.T(it["alpha"] * np.asarray(att), it["phi"], **({"duration": d} if d else {}))
        out.append(o)
        if np.any(np.asarray(d) > 0):
            if T1 is None and T2 is None and g is None:
                continue
            if T1 is None and T2 is None:
                out.append(epg.P(d, g))
            else:
                out.append(epg.E(d, 1e10 if T1 is None else T1, 1e10 if T2 is None else T2, 0 if g is None else g))
    return out


def c_params(params):
    def o(name):
        v = params.get(name)
        return "None" if v is None else "(Some %s)" % qq(float(v))
    return "(mkMP %s %s %s %s)" % (o("T1"), o("T2"), o("g"), o("att"))


def mod_term(case, r):
    times = core.clist([qq(t) for t in r["times"]])
    times_mod = core.clist([qq(t) for t in r["times_mod"]])
    if case["top_multi"]:
        return "(mod_ok_multi %s %s %s %s %s)" % (c_mod_tree(case), c_params(case["params"]), r["obs"], times, times_mod)
    return "(mod_ok %s %s %s %s %s %s)" % (c_mod_tree(case), c_params(case["params"]), core.coq_bool(bool(case["params"])),
                                           r["obs"], times, times_mod)


def compare_runs(a, b, tol=1e-12):
    ta, va = a
    tb, vb = b
    ta, tb = np.asarray(ta, dtype=float), np.asarray(tb, dtype=float)
    if ta.shape != tb.shape or not np.array_equal(ta, tb):
        return "acquisition times differ: %s vs %s" % (ta.tolist(), tb.tolist())
    va, vb = np.asarray(va), np.asarray(vb)
    if va.shape != vb.shape:
        return "shapes of the simulated values differ: %s vs %s" % (va.shape, vb.shape)
    err = np.abs(va - vb).max() if va.size else 0.0
    if not err <= tol * (1 + np.abs(vb).max()):
        return "simulate(modify(seq)) differs from the sequence with explicitly inserted evolutions by %.3g" % err
    return None


def run_mod_stream(ctx, n):
    import epgpy as epg
    terms, kept = [], []
    stats = {"params": {}, "top_multi": 0, "no_keyword": 0, "repeated_objects": 0, "numeric_comparisons": 0}
    for i in range(n):
        case = gen_mod_case(ctx.rng)
        try:
            r = run_mod_impl(case)
            hand = hand_inserted(case, r["objs"])
            why = compare_runs(epg.simulate(r["res"], adc_time=True), epg.simulate(hand, adc_time=True))
            stats["numeric_comparisons"] += 1
            if not why and r["times_mod"] != r["times"]:
                why = "modify() changed the acquisition times: %s -> %s" % (r["times"], r["times_mod"])
        except Unexpected as e:
            ctx.report(str(e), {"mod_case": case}, found_input=True, signature={"stream": "modify", "why": str(e)[:30]})
            continue
        except Exception as e:
            ctx.report("modify()/simulate raised %s on a valid sequence: %s" % (type(e).__name__, str(e)[:200]),
                       {"mod_case": case}, found_input=True, signature={"stream": "modify", "raises": type(e).__name__})
            continue
        ctx.count(("mod", repr(case)), nontrivial=bool(case["params"]))
        if i < 2:
            ctx.sample({"mod_case": {"items": [(it["cls"], it["dur_arg"]) for it in case["items"]], "params": case["params"],
                                     "tree": repr(case["tree"])}, "modify_returned": repr(r["res"])[:300]})
        key = ",".join(sorted(k for k, v in case["params"].items() if v is not None)) or "-"
        stats["params"][key] = stats["params"].get(key, 0) + 1
        stats["top_multi"] += case["top_multi"]
        stats["no_keyword"] += not case["params"]
        ids = [it["id"] for it in case["items"]]
        stats["repeated_objects"] += len(ids) != len(set(ids))
        if why:
            ctx.report(why, {"mod_case": case}, found_input=True, signature={"stream": "modify", "why": why[:30], "params": key})
            continue
        terms.append(mod_term(case, r))
        kept.append(case)
    verdicts, errors = ctx.run_bool_cases("mod", MHEADER, terms, chunk=20)
    for e in errors:
        ctx.report("correspondence shard failed to evaluate", {"theorem_or_correspondence": "C12 modify correspondence (Cases)", "coq_output": e}, found_input=False)
    nbad = 0
    for case, v in zip(kept, verdicts):
        if v is False:
            nbad += 1
            if nbad <= 6:
                # numerics agreed with the hand-inserted sequence (checked above): the structure / sharing / durations differ
                ctx.report("modify() returned a sequence whose structure (operators, parameters, durations, grouping, object sharing) "
                           "differs from modify_model", {"mod_case": case, "theorem_or_correspondence": "C12 modify_model vs epgpy.modify"},
                           found_input=False, signature={"stream": "modify", "why": "structure"})
    ctx.cov["modify_stream"] = stats
    run_expand_stream(ctx, max(6, n // 6), stats)


def run_expand_stream(ctx, n, stats):
    """array-valued T1/T2/g/att, expand on/off, array durations: simulate(modify(seq)) against explicit insertion"""
    import epgpy as epg
    rng = ctx.rng
    done = 0
    reported = set()
    for i in range(n):
        ns = rng.choice([1, 2, 3])                      # sequence batch size
        alpha = [float(rng.choice([20, 45, 90, 150])) for _ in range(ns)]
        expand = rng.random() < 0.6
        np_ = ns if not expand else rng.choice([1, 2, 3, 4])
        adur = rng.random() < 0.3
        d1 = [float(rng.choice([1.0, 2.0, 0.5, 0.0])) for _ in range(ns)] if adur else float(rng.choice([1.0, 2.5]))
        d2 = float(rng.choice([0.5, 3.0]))
        case = {"alpha": alpha, "expand": expand, "d1": d1, "d2": d2, "params": {}}
        for name, vals in (("T1", [600.0, 900.0, 1400.0, 2000.0]), ("T2", [30.0, 50.0, 80.0, 120.0]), ("g", [0.0, 0.01, 0.05, -0.02]),
                           ("att", [0.5, 0.8, 1.0, 1.2])):
            x = rng.random()
            if x < 0.35:
                case["params"][name] = [rng.choice(vals) for _ in range(np_)]
            elif x < 0.7:
                case["params"][name] = rng.choice(vals)
        if not case["params"]:
            case["params"]["T2"] = [50.0] * np_
        try:
            why = expand_case_disagrees(case)
        except Exception as e:
            why = "modify()/simulate raised %s with array parameters: %s" % (type(e).__name__, str(e)[:200])
        done += 1
        ctx.count(("expand", repr(case)), nontrivial=True)
        if why:
            sig = {"stream": "expand", "why": why[:30], "expand": expand}
            if repr(sig) in reported:
                continue                         # one replay per input class and run
            reported.add(repr(sig))
            ctx.report(why, {"expand_case": case}, found_input=True, signature=sig)
    stats["expand_cases"] = done


def expand_case_disagrees(case):
    import epgpy as epg
    a = np.array(case["alpha"]) if len(case["alpha"]) > 1 else case["alpha"][0]
    d1 = np.array(case["d1"]) if isinstance(case["d1"], list) else case["d1"]
    d2 = case["d2"]
    seq = [epg.T(a, 90, duration=0.25), epg.S(1, duration=d1), epg.T(150, 0), epg.S(1, duration=d2), epg.ADC,
           epg.Wait(1.0), epg.Adc("Z0")]
    P = {k: (np.array(v) if isinstance(v, list) else v) for k, v in case["params"].items()}
    res = epg.modify(seq, expand=case["expand"], **P)
    nd = 1                                                   # the sequence has one batch axis (possibly of size 1)
    batched = len(case["alpha"]) > 1

    def prep(v):
        if v is None or np.ndim(v) == 0:
            return v
        return v[(None,) * nd] if (case["expand"] and batched) else v
    T1, T2, g, att = (prep(P.get(k)) for k in ("T1", "T2", "g", "att"))

    def evo(d):
        if not np.any(np.asarray(d) > 0) or (T1 is None and T2 is None and g is None):
            return []
        if T1 is None and T2 is None:
            return [epg.P(d, g)]
        return [epg.E(d, 1e10 if T1 is None else T1, 1e10 if T2 is None else T2, 0 if g is None else g)]

    def rf(al, ph):
        if att is None or np.allclose(att, 1):
            return epg.T(al, ph)
        al = np.asarray(al, dtype=float)
        k = np.asarray(att, dtype=float)
        if al.ndim and k.ndim > al.ndim:                 # epgpy aligns batch axes on the left: new axes are appended
            al = al.reshape(al.shape + (1,) * (k.ndim - al.ndim))
        return epg.T(al * k, ph)
    hand = [rf(a, 90)] + evo(0.25) + [epg.S(1)] + evo(d1) + [rf(150, 0), epg.S(1)] + evo(d2) + [epg.ADC] + evo(1.0) + [epg.Adc("Z0")]
    t_ref = epg.get_adc_times(seq)
    t_mod, v_mod = epg.simulate(res, adc_time=True)
    v_hand = epg.simulate(hand)
    t_ref = np.asarray(np.broadcast_arrays(*[np.asarray(t, dtype=float) for t in t_ref]))
    if not np.array_equal(np.asarray(t_mod, dtype=float).reshape(t_ref.shape) if np.size(t_mod) == t_ref.size else t_mod, t_ref):
        return "modify() changed the acquisition times: %s -> %s" % (t_ref.tolist(), np.asarray(t_mod).tolist())
    v_mod, v_hand = np.asarray(v_mod), np.asarray(v_hand)
    try:
        v_mod, v_hand = np.broadcast_arrays(v_mod, v_hand)
    except ValueError:
        return "shape of simulate(modify(seq)) %s is not that of the explicitly expanded sequence %s" % (v_mod.shape, v_hand.shape)
    err = np.abs(v_mod - v_hand).max()
    if not err <= 1e-12 * (1 + np.abs(v_hand).max()):
        return "simulate(modify(seq, expand=%s)) differs from explicit insertion by %.3g" % (case["expand"], err)
    return None


# ------------------------------------------------------------------ array-valued durations through modify()
ADUR = [0.5, 1.0, 2.5, 4.0, 9.0]


def gen_adur_case(rng, k=0):
    n = rng.choice([2, 3, 3, 4])
    cls = ["mixed", "mixed", "mixed", "positive", "zero"][k % 5]     # every class in every run
    if cls == "mixed":
        nz = rng.randint(1, n - 1)
        D = [0.0] * nz + [float(rng.choice(ADUR)) for _ in range(n - nz)]
        rng.shuffle(D)
    elif cls == "positive":
        D = [float(rng.choice(ADUR)) for _ in range(n)]
    else:
        D = [0.0] * n
    case = {"D": D, "class": cls, "carrier": ["wait", "shift", "E", "P", "T"][(k // 5 + k) % 5],
            "pulses": [[float(rng.choice([30, 60, 70, 90])), float(rng.choice([0, 90, 30]))],
                       [float(rng.choice([40, 50, 120, 180])), float(rng.choice([0, 45]))]],
            "tail": float(rng.choice([0.0, 2.0, 3.5])), "own": [float(rng.choice([500, 1200])), float(rng.choice([35, 90])), float(rng.choice([0, 0.015]))],
            "params": {}}
    for name, vals in (("T1", [600.0, 800.0, 1400.0]), ("T2", [30.0, 40.0, 80.0]), ("g", [0.01, 0.02, -0.03])):
        if rng.random() < 0.55:
            case["params"][name] = rng.choice(vals)
    if not case["params"]:
        case["params"][rng.choice(["T2", "g"])] = 0.02
    if rng.random() < 0.3:
        case["params"]["att"] = rng.choice([0.5, 0.8, 1.2])
    return case


def adur_sequence(case, d, insert):
    """the sequence for duration(s) d of the carrier; insert=True: evolutions written out by hand (scalar d only)"""
    import epgpy as epg
    P = case["params"]
    T1, T2, g, att = P.get("T1"), P.get("T2"), P.get("g"), P.get("att")
    (a1, p1), (a2, p2) = case["pulses"]
    oT1, oT2, og = case["own"]
    k = att if (insert and att is not None) else 1.0

    def evo(dd):
        if not insert or not dd > 0 or (T1 is None and T2 is None and g is None):
            return []
        if T1 is None and T2 is None:
            return [epg.P(dd, g)]
        return [epg.E(dd, 1e10 if T1 is None else T1, 1e10 if T2 is None else T2, 0 if g is None else g)]
    c = case["carrier"]
    if c == "wait":
        car = [epg.Wait(d)]
    elif c == "shift":
        car = [epg.S(1, duration=d)]
    elif c == "E":
        car = [epg.E(d, oT1, oT2, og, duration=True)]
    elif c == "P":
        car = [epg.P(d, og, duration=True)]
    else:
        car = [epg.T(20.0 * k, 10.0, duration=d)]
    seq = [epg.T(a1 * k, p1)] + car + (evo(d) if insert else []) + [epg.T(a2 * k, p2)]
    if c == "shift":
        seq += [epg.S(-1)]
    seq += [epg.Wait(case["tail"])] + evo(case["tail"]) + [epg.ADC]
    return seq


def adur_case_disagrees(case):
    import epgpy as epg
    D = np.array(case["D"])
    n = len(D)
    seq = adur_sequence(case, D, False)
    res = epg.modify(seq, **case["params"])
    t_mod, (f_mod, z_mod) = epg.simulate(res, probe=["F0", "Z0"], adc_time=True)
    t_adc = epg.get_adc_times(res)
    for i, d in enumerate(case["D"]):
        hand = adur_sequence(case, d, True)
        t_ref, (f_ref, z_ref) = epg.simulate(hand, probe=["F0", "Z0"], adc_time=True)
        t_ref = float(np.ravel(t_ref)[0])
        for name, got in (("simulate(modify(seq), adc_time=True)", np.broadcast_to(np.asarray(t_mod, dtype=float).reshape(-1), (n,))[i] if np.size(t_mod) == n
                           else float(np.ravel(t_mod)[0])),
                          ("get_adc_times(modify(seq))", np.broadcast_to(np.asarray(t_adc[0], dtype=float), (n,))[i])):
            if float(got) != t_ref:
                return "%s for batch entry %d (duration %s) is %s, the scalar sequence gives %s" % (name, i, d, got, t_ref)
        for name, got, ref in (("F0", f_mod, f_ref), ("Z0", z_mod, z_ref)):
            g_i = complex(np.broadcast_to(np.asarray(got).reshape(-1), (n,))[i]) if np.size(got) in (1, n) else None
            ref = complex(np.ravel(ref)[0])
            if g_i is None:
                return "simulate(modify(seq)) has %d values for %d durations" % (np.size(got), n)
            if not abs(g_i - ref) <= 1e-12 * (1 + abs(ref)):
                return ("%s of batch entry %d (duration %s of %s) of simulate(modify(seq)) is %s; the scalar sequence with the evolution "
                        "inserted by hand gives %s" % (name, i, d, case["D"], g_i, ref))
    return None


def run_adur_stream(ctx, n):
    """modify() on a timed operator whose duration is an array (zeros and positive entries): every batch entry against
    its own scalar run with explicitly inserted evolutions"""
    stats = {"cases": 0, "classes": {}, "carriers": {}}
    reported = set()
    for i in range(n):
        case = gen_adur_case(ctx.rng, i)
        try:
            why = adur_case_disagrees(case)
        except Exception as e:
            why = "modify()/simulate raised %s with an array-valued duration: %s" % (type(e).__name__, str(e)[:200])
        stats["cases"] += 1
        stats["classes"][case["class"]] = stats["classes"].get(case["class"], 0) + 1
        stats["carriers"][case["carrier"]] = stats["carriers"].get(case["carrier"], 0) + 1
        ctx.count(("adur", repr(case)), nontrivial=case["class"] != "zero")
        if why:
            sig = {"stream": "array_duration", "class": case["class"], "carrier": case["carrier"], "why": why[:20]}
            if len(reported) >= 4 or repr(sig) in reported:
                continue
            reported.add(repr(sig))
            ctx.report(why, {"adur_case": case}, found_input=True, signature=sig)
    ctx.cov["array_duration_stream"] = stats


# ------------------------------------------------------------------ acquisition times with array-valued durations
ATIME = [0.0, 0.5, 1.0, 1.5, 2.25, 4.0]


def gen_atime_case(rng, k=0):
    """timed operators with array-valued (one value per batch entry) and scalar durations before and between
    several probes; nested lists / MultiOperators"""
    n = rng.choice([2, 3, 3, 4])

    def dur(p_array=0.55):
        if rng.random() < p_array:
            return [float(rng.choice(ATIME)) for _ in range(n)]
        return float(rng.choice(ATIME))

    def timed(force_array=False):
        kind = rng.choice(["wait", "E", "P", "T", "S"])
        d = dur(1.0 if force_array else 0.55)
        it = {"kind": kind, "dur": d}
        if kind == "wait" and not isinstance(d, list) and d == 0:
            it["dur"] = 1.0
        if kind == "S":
            it["k"] = rng.choice([1, 2, -1])
        if kind == "T":
            it["alpha"], it["phi"] = float(rng.choice([30, 90, 150])), float(rng.choice([0, 90]))
        return it
    items = [timed(force_array=rng.random() < 0.6)]
    nprobe = 0
    for _ in range(rng.randint(3, 9)):
        r = rng.random()
        if r < 0.35:
            items.append({"kind": "probe", "probe": rng.choice(["ADC", "Adc", "Probe"]), "dur": 0.0})
            nprobe += 1
        elif r < 0.42:
            items.append({"kind": "offset", "dur": -float(rng.choice([0.5, 1.0]))})
        elif r < 0.5 and len(items) > 1:
            items.append(dict(rng.choice(items)))           # same description again (a new object)
            nprobe += items[-1]["kind"] == "probe"
        else:
            items.append(timed())
    while nprobe < 3:
        items += [timed(force_array=nprobe == 1), {"kind": "probe", "probe": rng.choice(["ADC", "Adc", "Probe"]), "dur": 0.0}]
        nprobe += 1
    case = {"n": n, "items": items, "tree": gen_tree(rng, list(range(len(items))))}
    return case


def build_atime_item(it, entry=None):
    """entry=None: the batched operator; entry=i: the scalar operator of batch entry i"""
    import epgpy as epg
    d = it["dur"]
    if isinstance(d, list):
        d = np.array(d) if entry is None else d[entry]
    k = it["kind"]
    if k == "probe":
        return {"ADC": epg.ADC, "Adc": epg.Adc("Z0"), "Probe": epg.Probe("F0")}[it["probe"]]
    if k == "offset":
        return epg.Offset(d)
    if k == "wait":
        return epg.Wait(d)
    if k == "E":
        return epg.E(d, 900.0, 60.0, 0.01, duration=True)
    if k == "P":
        return epg.P(d, 0.02, duration=True)
    if k == "T":
        return epg.T(it["alpha"], it["phi"], duration=d)
    if k == "S":
        return epg.S(it["k"], duration=d)
    raise ValueError(k)


def atime_sequence(case, entry=None):
    fake = {"items": [{"id": j} for j in range(len(case["items"]))], "tree": case["tree"]}
    objs = {j: build_atime_item(it, entry) for j, it in enumerate(case["items"])}
    return build_tree(fake, objs, None, [])


def atime_flat(case):
    out = []

    def walk(tree):
        for nd in tree:
            if isinstance(nd, int):
                out.append(case["items"][nd])
            else:
                walk(nd[1])
    walk(case["tree"])
    return out


def atime_reference(case):
    """cumulative sums of the durations up to every probe, per batch entry (exact rationals)"""
    n = case["n"]
    ref = []
    tic = [Fraction(0)] * n
    for it in atime_flat(case):
        d = it["dur"]
        tic = [t + Fraction(d[i] if isinstance(d, list) else d) for i, t in enumerate(tic)]
        if it["kind"] == "probe":
            ref.append([float(t) for t in tic])
    return ref


def per_entry(times, n):
    """list of reported times (scalars or arrays over the batch) -> list over probes of n floats"""
    out = []
    for t in times:
        a = np.asarray(t, dtype=float)
        if a.size not in (1, n):
            raise AssertionError("reported time has %d values for a batch of %d" % (a.size, n))
        out.append([float(x) for x in np.broadcast_to(a.reshape(-1), (n,))])
    return out


def atime_observe(case):
    import epgpy as epg
    n = case["n"]
    seq = atime_sequence(case)
    t1, _ = epg.simulate(seq, adc_time=True, asarray=False)
    a1 = epg.get_adc_times(seq)
    keep1, keepa = [np.array(t, dtype=float, copy=True) for t in t1], [np.array(t, dtype=float, copy=True) for t in a1]
    why = None
    arrs = [("simulate time %d" % j, t) for j, t in enumerate(t1) if isinstance(t, np.ndarray)] + \
           [("get_adc_times entry %d" % j, t) for j, t in enumerate(a1) if isinstance(t, np.ndarray)]
    for x in range(len(arrs)):
        for y in range(x + 1, len(arrs)):
            if np.shares_memory(arrs[x][1], arrs[y][1]):
                why = why or "%s and %s share memory" % (arrs[x][0], arrs[y][0])
    # later calls must not change what was returned before
    t2, _ = epg.simulate(seq, adc_time=True, asarray=False)
    a2 = epg.get_adc_times(seq)
    for name, now, kept in (("simulate(adc_time=True)", t1, keep1), ("get_adc_times", a1, keepa)):
        for j, (x, y) in enumerate(zip(now, kept)):
            if not np.array_equal(np.asarray(x, dtype=float), y):
                why = why or "time %d returned by %s changed after a later call: %s -> %s" % (j, name, y.tolist(), np.asarray(x).tolist())
    if not why and (per_entry(t2, n) != per_entry(t1, n) or per_entry(a2, n) != per_entry(a1, n)):
        why = "a second call reports different times"
    shapes = {np.shape(t) for t in t1}
    if not why and len(shapes) == 1:
        t3 = np.asarray(epg.simulate(seq, adc_time=True)[0], dtype=float)      # asarray=True (default)
        if t3.shape != np.asarray(keep1).shape or not np.array_equal(t3, np.asarray(keep1)):
            why = "simulate(adc_time=True) as one array %s differs from the list of times %s" % (t3.tolist(), [k.tolist() for k in keep1])
    return {"sim": per_entry(keep1, n), "adc": per_entry(keepa, n), "why": why}


def c_atime_tree(case, entry, tree=None):
    tree = case["tree"] if tree is None else tree
    out = []
    for nd in tree:
        if isinstance(nd, int):
            it = case["items"][nd]
            d = it["dur"][entry] if isinstance(it["dur"], list) else it["dur"]
            out.append("(Leaf (%s %d%%nat %s %s))" % ("IProbe" if it["kind"] == "probe" else "IOp", 3 * nd,
                                                    "PB" if it["kind"] == "probe" else "X", qq(d)))
        else:
            out.append("(Node %s %s)" % ("true" if nd[0] == "multi" else "false", c_atime_tree(case, entry, nd[1])))
    return core.clist(out)


def atime_case_disagrees(case, obs=None):
    obs = obs or atime_observe(case)
    if obs["why"]:
        return obs["why"]
    ref = atime_reference(case)
    for name in ("sim", "adc"):
        got = obs[name]
        label = "simulate(adc_time=True)" if name == "sim" else "get_adc_times"
        if len(got) != len(ref):
            return "%s reports %d times for %d probes" % (label, len(got), len(ref))
        for j, (g, r) in enumerate(zip(got, ref)):
            for i in range(case["n"]):
                if g[i] != r[i]:
                    return "%s: time of probe %d for batch entry %d is %s, the cumulative sum of the durations is %s (all entries: reported %s, sums %s)" % (
                        label, j, i, g[i], r[i], got, ref)
    return None


def run_atime_stream(ctx, n):
    """every reported acquisition time, per batch entry, against the model's get_adc_times of the scalar sequence of that
    entry (inside Coq) and against exact cumulative sums; returned time arrays independent of each other and of later calls"""
    terms, meta = [], []
    stats = {"cases": 0, "probes": 0, "array_durations": 0, "entries_checked_in_coq": 0}
    reported = 0
    for i in range(n):
        case = gen_atime_case(ctx.rng, i)
        try:
            obs = atime_observe(case)
            why = atime_case_disagrees(case, obs)
        except Exception as e:
            why, obs = "simulate()/get_adc_times raised %s with array-valued durations: %s" % (type(e).__name__, str(e)[:200]), None
        stats["cases"] += 1
        stats["probes"] += sum(1 for it in case["items"] if it["kind"] == "probe")
        stats["array_durations"] += sum(1 for it in case["items"] if isinstance(it["dur"], list))
        ctx.count(("atime", repr(case)), nontrivial=True)
        if i < 1:
            ctx.sample({"atime_case": {"items": [(it["kind"], it["dur"]) for it in case["items"]], "tree": repr(case["tree"])},
                        "reported": None if obs is None else obs["sim"]})
        if why:
            reported += 1
            if reported <= 4:
                ctx.report(why, {"atime_case": case}, found_input=True, signature={"stream": "array_times", "why": why[:24]})
            continue
        for e in range(case["n"]):
            tree = c_atime_tree(case, e)
            terms.append("(qceqb (@get_adc_times QIops Qc %s) %s && qceqb (@get_adc_times QIops Qc %s) %s)" % (
                tree, core.clist([qq(t[e]) for t in obs["sim"]]), tree, core.clist([qq(t[e]) for t in obs["adc"]])))
            meta.append((case, e))
    verdicts, errors = ctx.run_bool_cases("atime", MHEADER, terms, chunk=40)
    for e in errors:
        ctx.report("correspondence shard failed to evaluate", {"theorem_or_correspondence": "C12 array-time correspondence (Cases)", "coq_output": e}, found_input=False)
    bad = 0
    for (case, e), v in zip(meta, verdicts):
        stats["entries_checked_in_coq"] += v is True
        if v is False:
            bad += 1
            if bad <= 3:
                ctx.report("times of batch entry %d differ from Run.get_adc_times of its scalar sequence (python sums agree with the implementation)" % e,
                           {"atime_case": case, "theorem_or_correspondence": "C12 get_adc_times model vs epgpy"}, found_input=False,
                           signature={"stream": "array_times", "why": "model"})
    ctx.cov["array_time_stream"] = stats


# ------------------------------------------------------------------ array-valued ADC phase on batches with several axes
NDSHAPES = [(2, 2), (2, 3), (3, 2), (2, 2, 2), (3, 3), (2, 1, 3), (2, 3, 2)]


def gen_ndphase_case(rng, k=0):
    shape = NDSHAPES[k % len(NDSHAPES)]
    nd = len(shape)
    # the phase array has fewer (or as many) dimensions than the batch: epgpy appends the missing axes
    pkind = ["lead1", "lead1", "full", "lead2" if nd == 3 else "col", "scalar"][(k // len(NDSHAPES) + k) % 5]
    pshape = {"lead1": shape[:1], "lead2": shape[:2], "full": shape, "col": shape[:1] + (1,) * (nd - 1), "scalar": ()}[pkind]
    def ph():
        return float(rng.choice([20.0, 115.0, 90.0, -45.0, 200.5, 33.0, 270.0]))
    phase = np.array([ph() for _ in range(int(np.prod(pshape)))]).reshape(pshape).tolist() if pshape else ph()
    case = {"shape": list(shape), "phase_kind": pkind, "phase": phase,
            "alpha": [float(rng.choice([25, 35, 70, 90, 120])) for _ in range(shape[0])],
            "T2": [float(rng.choice([30, 40, 90, 150])) for _ in range(shape[1])],
            "g": [float(rng.choice([0.0, 0.013, -0.02])) for _ in range(shape[2])] if nd == 3 else float(rng.choice([0.0, 0.013])),
            "tau": float(rng.choice([3.5, 7.0])), "attr": rng.choice(["F0", "F0", "Z0"]),
            "shift": rng.random() < 0.4, "second_phase": rng.random() < 0.5,
            "override": rng.choice([None, None, "Z0", "F0", ["Z0", None], ["probe:F0+2*Z0", "F0"], "probe:Z0"])}
    return case


def ndphase_sequence(case, idx=None):
    """idx=None: the batched sequence with Adc(phase=array); idx=(i,j[,k]): scalar sequence of that entry, plain Adc"""
    import epgpy as epg
    nd = len(case["shape"])
    if idx is None:
        a = np.array(case["alpha"])
        t2 = np.array(case["T2"]).reshape((1, -1))
        g = np.array(case["g"]).reshape((1, 1, -1)) if nd == 3 else case["g"]
        adc1 = epg.Adc(case["attr"], phase=case["phase"])
        adc2 = adc1 if not case["second_phase"] else epg.Adc(case["attr"], phase=np.asarray(case["phase"]) + 30.0)
    else:
        a, t2 = case["alpha"][idx[0]], case["T2"][idx[1]]
        g = case["g"][idx[2]] if nd == 3 else case["g"]
        adc1 = adc2 = epg.Adc(case["attr"])
    rlx = epg.E(case["tau"], 800.0, t2, g, duration=True)
    sh = [epg.S(1)] if case["shift"] else []
    return [epg.T(a, 90)] + sh + [rlx, adc1, epg.T(150, 0)] + sh + [rlx, adc2, epg.T(40, 30), rlx, adc1]


def ndphase_override(ov):
    import epgpy as epg
    def one(o):
        return epg.Probe(o[6:]) if isinstance(o, str) and o.startswith("probe:") else o
    if ov is None:
        return None
    return [one(o) for o in ov] if isinstance(ov, list) else one(ov)


def ndphase_case_disagrees(case):
    import epgpy as epg
    shape = tuple(case["shape"])
    nd = len(shape)
    seq = ndphase_sequence(case)
    if tuple(epg.functions.getshape(seq)) != shape:
        raise AssertionError("generator: batch shape %s instead of %s" % (epg.functions.getshape(seq), shape))
    ov = case["override"]
    got = epg.simulate(seq, probe=ndphase_override(ov), asarray=False)
    series = list(got) if isinstance(ov, list) else [got]
    ph = np.asarray(case["phase"], dtype=float)
    ph = np.broadcast_to(ph.reshape(ph.shape + (1,) * (nd - ph.ndim)), shape)          # missing axes are appended
    offs = [0.0, 30.0 if case["second_phase"] else 0.0, 0.0]
    for idx in np.ndindex(*shape):
        ref = epg.simulate(ndphase_sequence(case, idx), probe=ndphase_override(ov), asarray=False)
        ref = list(ref) if isinstance(ov, list) else [ref]
        for s, (g_s, r_s) in enumerate(zip(series, ref)):
            for j in range(3):
                g_arr = np.asarray(g_s[j])
                if g_arr.shape != shape:
                    return "entry %d of probe %d has shape %s, the batch has shape %s" % (j, s, g_arr.shape, shape)
                a = math.radians(ph[idx] + offs[j])
                want = complex(np.ravel(r_s[j])[0]) * complex(math.cos(a), math.sin(a))
                if not abs(complex(g_arr[idx]) - want) <= 1e-10 * (1 + abs(want)):
                    return ("ADC occurrence %d, probe %d, batch entry %s: recorded %s; scalar re-run times exp(i*%s deg) = %s "
                            "(phase array of shape %s on a batch of shape %s)" % (j, s, idx, complex(g_arr[idx]), ph[idx] + offs[j], want,
                                                                               np.shape(case["phase"]), shape))
    return None


def run_ndphase_stream(ctx, n):
    """Adc(phase=array) in sequence (also under a probe= override) on batches with 2 or 3 axes: every batch entry equals its
    scalar re-run (plain Adc) times the scalar phasor of the LEADING-axes-aligned phase array"""
    stats = {"cases": 0, "shapes": {}, "phase_kinds": {}, "overrides": 0}
    reported = 0
    for i in range(n):
        case = gen_ndphase_case(ctx.rng, i)
        try:
            why = ndphase_case_disagrees(case)
        except Exception as e:
            why = "simulate raised %s with Adc(phase=array of shape %s) on a batch of shape %s: %s" % (
                type(e).__name__, np.shape(case["phase"]), tuple(case["shape"]), str(e)[:160])
        stats["cases"] += 1
        stats["shapes"][str(tuple(case["shape"]))] = stats["shapes"].get(str(tuple(case["shape"])), 0) + 1
        stats["phase_kinds"][case["phase_kind"]] = stats["phase_kinds"].get(case["phase_kind"], 0) + 1
        stats["overrides"] += case["override"] is not None
        ctx.count(("ndphase", repr(case)), nontrivial=case["phase_kind"] != "scalar")
        if why:
            reported += 1
            if reported <= 4:
                ctx.report(why, {"ndphase_case": case}, found_input=True,
                           signature={"stream": "nd_phase", "phase": case["phase_kind"], "batch_axes": len(case["shape"]), "why": why[:16]})
    ctx.cov["nd_phase_stream"] = stats


# ------------------------------------------------------------------ Jacobian / Hessian probes: columns follow the requested list
def gen_jac_case(rng, k=0):
    base = [["T2"], ["alpha", "T2"], ["T2", "alpha"], ["alpha", "T2", "T1"], ["T1", "alpha"], ["alpha"]][k % 6]
    pos = (k // 6 + k) % (len(base) + 1)                      # 'magnitude' at every position of the list over a run
    variables = base[:pos] + ["magnitude"] + base[pos:]
    if rng.random() < 0.2:
        variables.insert(rng.randint(0, len(variables)), "unused")          # a variable no operator depends on: zero column
    case = {"variables": variables, "attr": rng.choice(["F0", "F0", "Z0"]),
            "where": ["override", "in_sequence", "override_list", "override"][k % 4],
            "alpha": float(rng.choice([120.0, 150.0, 165.0])), "T1": float(rng.choice([700.0, 900.0])),
            "T2": float(rng.choice([35.0, 45.0, 80.0])), "tau": float(rng.choice([4.0, 6.0])), "necho": rng.choice([2, 3, 4]),
            "hessian2": rng.choice([None, None, ["T2"], ["alpha", "magnitude"], ["magnitude", "T2", "alpha"]])}
    return case


def jac_sequence(case, diff, adc, alpha=None, T1=None, T2=None):
    import epgpy as epg
    a = case["alpha"] if alpha is None else alpha
    t1 = case["T1"] if T1 is None else T1
    t2 = case["T2"] if T2 is None else T2
    rfc = epg.T(a, 0, **({"order1": "alpha", "order2": "alpha"} if diff else {}))
    rlx = epg.E(case["tau"], t1, t2, duration=True, **({"order1": ["T1", "T2"], "order2": "T2"} if diff else {}))
    return [epg.T(90, 90)] + [epg.S(1), rlx, rfc, epg.S(1), rlx, adc] * case["necho"]


def jac_case_disagrees(case):
    import epgpy as epg
    attr, variables = case["attr"], case["variables"]
    n = case["necho"]

    def plain(**kw):
        return np.asarray(epg.simulate(jac_sequence(case, False, epg.Adc(attr), **kw))).reshape(n)

    def run(probe):
        """values recorded by `probe` (a Jacobian / Hessian object) at every echo, with the case's placement"""
        if case["where"] == "in_sequence":
            t, v = epg.simulate(jac_sequence(case, True, probe), adc_time=True)
        elif case["where"] == "override":
            t, v = epg.simulate(jac_sequence(case, True, epg.Adc(attr)), probe=probe, adc_time=True)
        else:
            t, (v, f0) = epg.simulate(jac_sequence(case, True, epg.Adc(attr)), probe=[probe, attr], adc_time=True)
            if not np.allclose(np.asarray(f0).reshape(n), ref["magnitude"], rtol=1e-12, atol=1e-14):
                return None, "the plain probe next to the Jacobian in the probe= list differs from a plain simulation"
        if not np.array_equal(np.asarray(t, dtype=float).reshape(-1), 2 * case["tau"] * np.arange(1, n + 1)):
            return None, "acquisition times %s are not the cumulative echo times" % np.asarray(t).tolist()
        return np.asarray(v), None
    ref = {"magnitude": plain(), "unused": np.zeros(n)}
    for var in ("alpha", "T1", "T2"):
        if var in variables:
            h = 1e-4 * case[var]
            ref[var] = (plain(**{var: case[var] + h}) - plain(**{var: case[var] - h})) / (2 * h)
    jac, why = run(epg.Jacobian(variables, probe=attr))
    if why:
        return why
    if jac.shape != (n, 1, len(variables)):
        return "Jacobian(%s) has shape %s for %d echoes" % (variables, jac.shape, n)
    for i, var in enumerate(variables):
        col = jac[:, 0, i]
        if not np.allclose(col, ref[var], rtol=2e-5, atol=1e-7):
            return "Jacobian(%s, probe=%r) %s: column %d is not %r: got %s, expected (signal / central finite differences) %s" % (
                variables, attr, case["where"], i, var, col.tolist(), ref[var].tolist())
    # the same list reordered: the same columns, reordered (exact)
    perm = list(reversed(range(len(variables))))
    jac2, why = run(epg.Jacobian([variables[i] for i in perm], probe=attr))
    if why:
        return why
    if not np.array_equal(jac2, jac[..., perm]):
        return "Jacobian with the reversed variable list is not the Jacobian with its columns reversed (%s)" % variables
    # Hessian: rows follow variables1, columns variables2; a 'magnitude' row / column holds first derivatives
    v2 = case["hessian2"] or variables
    hes, why = run(epg.Hessian(variables, case["hessian2"], probe=attr))
    if why:
        return why
    if hes.shape != (n, 1, len(variables), len(v2)):
        return "Hessian(%s, %s) has shape %s" % (variables, v2, hes.shape)
    for i, a in enumerate(variables):
        for j, b in enumerate(v2):
            if a == "magnitude" and b == "magnitude":
                continue
            if a == "magnitude" or b == "magnitude":
                other = b if a == "magnitude" else a
                want = ref[other] if other in ref else None
                ok = want is None or np.allclose(hes[:, 0, i, j], want, rtol=2e-5, atol=1e-7)
                label = "d/d%s" % other
            else:
                one, why = run(epg.Hessian([a], [b], probe=attr))
                if why:
                    return why
                want = one[:, 0, 0, 0]
                ok = np.array_equal(hes[:, 0, i, j], want)
                label = "Hessian([%r], [%r])" % (a, b)
            if not ok:
                return "Hessian(%s, %s, probe=%r) %s: entry (%d, %d) is not %s: got %s, expected %s" % (
                    variables, v2, attr, case["where"], i, j, label, hes[:, 0, i, j].tolist(), np.asarray(want).tolist())
    return None


def run_jac_stream(ctx, n):
    """Jacobian / Hessian probes in the sequence and as probe= override, 'magnitude' at every position of the list"""
    stats = {"cases": 0, "where": {}, "magnitude_positions": {}}
    reported = 0
    try:
        in_seq_ok = grouping_probe("jacobian_in_sequence") is None      # reported by run_grouping_probes when not
    except Exception:
        in_seq_ok = False
    stats["in_sequence_placement_available"] = in_seq_ok
    for i in range(n):
        case = gen_jac_case(ctx.rng, i)
        if case["where"] == "in_sequence" and not in_seq_ok:
            case["where"] = "override"
        try:
            why = jac_case_disagrees(case)
        except Exception as e:
            why = "simulate raised %s with Jacobian/Hessian(%s): %s" % (type(e).__name__, case["variables"], str(e)[:160])
        stats["cases"] += 1
        stats["where"][case["where"]] = stats["where"].get(case["where"], 0) + 1
        key = "%d/%d" % (case["variables"].index("magnitude"), len(case["variables"]))
        stats["magnitude_positions"][key] = stats["magnitude_positions"].get(key, 0) + 1
        ctx.count(("jac", repr(case)), nontrivial=True)
        if why:
            reported += 1
            if reported <= 4:
                ctx.report(why, {"jac_case": case}, found_input=True,
                           signature={"stream": "jacobian", "where": case["where"], "why": why[:12]})
    ctx.cov["jacobian_stream"] = stats


# ------------------------------------------------------------------ phasor stream (Interval inside Coq)
PHEADER = """From Coq Require Import Reals.
From Interval Require Import Tactic.
Local Open Scope R_scope.
Ltac tie n := tryif assert_succeeds (solve [repeat split; interval with (i_prec 90)]) then idtac "TIE-OK" n else idtac "TIE-FAIL" n.
"""


def run_phasor_stream(ctx, n):
    """Adc(phase=p).phasor = exp(i*p*pi/180), p in degrees, as documented"""
    import os, re
    import epgpy as epg
    from vlib import tie
    goals, meta = [], []
    for i in range(n):
        ph = Fraction(ctx.rng.randint(-2880, 2880), ctx.rng.choice([1, 2, 4, 8])) if i >= 4 else Fraction([90, 180, 270, -90][i])
        try:
            z = complex(np.asarray(epg.Adc("F0", phase=float(ph)).phasor))
        except Exception as e:
            ctx.report("Adc(phase=%s) raised %s" % (float(ph), e), {"phase": float(ph)}, found_input=True, signature={"stream": "phasor", "raises": type(e).__name__})
            continue
        arg = "(%s * PI / 180)" % tie.rlit(ph)
        tol = tie.rlit(Fraction(1, 10 ** 13))
        goals.append("Goal Rabs (cos %s - %s) <= %s /\\ Rabs (sin %s - %s) <= %s.\nProof. tie %d%%nat. Abort." % (
            arg, tie.rlit(Fraction(z.real)), tol, arg, tie.rlit(Fraction(z.imag)), tol, len(goals)))
        meta.append((float(ph), z))
        ctx.count(("phasor", str(ph)), nontrivial=True)
    path = os.path.join(core.CASES, "%s_p%d_phasor.v" % (ctx.pid, os.getpid()))
    with open(path, "w") as f:
        f.write(PHEADER + "\n".join(goals) + "\n")
    res = core.coqc_many([path])
    ctx._case_files.append(path)
    rc, out = res[path]
    if rc != 0:
        ctx.report("phasor shard failed to compile", {"theorem_or_correspondence": "C12 Interval check of Adc.phasor", "coq_output": out[-1500:]}, found_input=False)
        return
    ok = {int(m) for m in re.findall(r"TIE-OK (\d+)", out)}
    for i, (ph, z) in enumerate(meta):
        if i not in ok:
            ctx.report("Adc(phase=%s).phasor = %s is not exp(i*phase*pi/180)" % (ph, z), {"phase": ph, "phasor": [z.real, z.imag]},
                       found_input=True, signature={"stream": "phasor", "why": "value"})
    ctx.cov["phasor_interval_points"] = len(ok)


# ------------------------------------------------------------------ deterministic probes of duration bookkeeping
def grouping_probe(name):
    """returns a description of the discrepancy, or None"""
    import epgpy as epg
    from epgpy import operator
    if name == "mul_offset":
        # the same four operators as a list, as MultiOperator([...]) and as a `*` chain: same timing expected
        mk = lambda: [epg.Offset(-3.0), epg.Wait(1.0), epg.Wait(5.0), epg.ADC]
        ref = [float(t) for t in epg.get_adc_times([epg.Wait(4.0), mk()])]
        for label, build in (("MultiOperator([...])", lambda: operator.MultiOperator(mk())),
                             ("a * b * c * d", lambda: mk()[0] * mk()[1] * mk()[2] * mk()[3])):
            try:
                got = [float(t) for t in epg.get_adc_times([epg.Wait(4.0), build()])]
            except Exception as e:
                return "grouping Offset(-3), Wait(1), Wait(5), ADC as %s raised %s: %s (as a list the acquisition time is %s)" % (
                    label, type(e).__name__, e, ref)
            if got != ref:
                return "acquisition time of the group built as %s is %s, as a list %s" % (label, got, ref)
        return None
    if name == "att_grid":
        # regression (fixed e0354df): array att on a batched T adds a new axis: value[i, j] = Z0 for alpha_i * att_j
        al, k = np.array([45.0, 150.0]), np.array([0.8, 0.5])
        v = np.asarray(epg.simulate(epg.modify([epg.T(al, 90, duration=0.25), epg.Adc("Z0")], T2=50.0, att=k)))
        ref = np.cos(np.deg2rad(al[:, None] * k[None, :]))
        if v.shape != (1, 2, 2) or np.abs(v[0].real - ref).max() > 1e-9:
            return "modify(att=[0.8,0.5]) on T([45,150]): Z0 has shape %s, values %s; expected the grid cos(alpha_i*att_j) = %s" % (
                v.shape, v.real.tolist(), ref.tolist())
        try:
            epg.simulate(epg.modify([epg.T(al, 90, duration=0.25), epg.Adc("Z0")], T2=50.0, att=[0.8, 0.8, 0.8]))
        except Exception as e:
            return "modify(att of size 3) on a T of batch size 2 raised %s: %s" % (type(e).__name__, e)
        return None
    if name == "times_scalar_then_array":
        # a probe before the first array-valued duration, another one after it: the times are a scalar and an array
        seq = [epg.T(90, 90), epg.Wait(1.5), epg.ADC, epg.Wait(np.array([1.0, 2.0, 0.0])), epg.ADC]
        ref = np.array([[1.5, 1.5, 1.5], [2.5, 3.5, 1.5]])
        lst = epg.simulate(seq, adc_time=True, asarray=False)[0]
        if not np.array_equal(np.asarray(np.broadcast_arrays(*[np.asarray(t, dtype=float) for t in lst])), ref):
            return "simulate(adc_time=True, asarray=False) reports %s, cumulative sums are %s" % (lst, ref.tolist())
        try:
            t = np.asarray(epg.simulate(seq, adc_time=True)[0], dtype=float)
        except Exception as e:
            return ("simulate([T, Wait(1.5), ADC, Wait(array([1,2,0])), ADC], adc_time=True) with the default asarray=True raised %s: %s "
                    "(asarray=False reports %s)" % (type(e).__name__, str(e)[:120], lst))
        if t.shape != ref.shape or not np.array_equal(t, ref):
            return "simulate(adc_time=True) reports %s, cumulative sums are %s" % (t.tolist(), ref.tolist())
        return None
    if name == "jacobian_in_sequence":
        # Jacobian / Hessian are Probe operators: placed in the sequence they must record like ADC does
        from epgpy import diff
        def seq(adc):
            return [epg.T(90, 90), epg.S(1), epg.E(5.0, 900.0, 45.0, order1="T2", order2="T2", duration=True), epg.T(150, 0), epg.S(1),
                    epg.E(5.0, 900.0, 45.0, order1="T2", order2="T2", duration=True), adc]
        for label, pb in (("Jacobian", diff.Jacobian(["T2", "magnitude"])), ("Hessian", diff.Hessian(["magnitude", "T2"]))):
            ref = np.asarray(epg.simulate(seq(epg.ADC), probe=pb))
            try:
                got = np.asarray(epg.simulate(seq(pb)))
            except Exception as e:
                return "simulate([..., %s([...])]) with the probe placed in the sequence raised %s: %s (as probe= override it works)" % (
                    label, type(e).__name__, e)
            if got.shape != ref.shape or not np.array_equal(got, ref):
                return "%s placed in the sequence records %s, as probe= override %s" % (label, got.tolist(), ref.tolist())
        return None
    if name == "multi_explicit_duration":
        m = operator.MultiOperator([epg.T(90, 90), epg.S(1)], duration=5.0)
        t1 = [float(t) for t in epg.get_adc_times([m, epg.ADC])]
        t2 = [float(t) for t in np.asarray(epg.simulate([m, epg.ADC], adc_time=True)[0]).tolist()]
        if t1 != [float(m.duration)] or t2 != [float(m.duration)]:
            return "MultiOperator(..., duration=5.0).duration is %s but get_adc_times reports %s and simulate %s" % (m.duration, t1, t2)
        return None
    raise ValueError(name)


GROUPING_SIGNATURES = {
    "mul_offset": {"call": "Operator.__mul__", "first_members": "Offset", "partial_total": "negative"},
    "att_grid": {"call": "modify", "att": "array", "T": "batched", "expand": True},
    "multi_explicit_duration": {"call": "MultiOperator", "duration": "explicit", "timing": "ignored"},
    "times_scalar_then_array": {"call": "simulate", "adc_time": True, "asarray": True, "times": "scalar then array"},
    "jacobian_in_sequence": {"call": "simulate", "probe": "Jacobian/Hessian in sequence", "raises": "AttributeError"},
}


def run_grouping_probes(ctx):
    for name, sig in GROUPING_SIGNATURES.items():
        try:
            why = grouping_probe(name)
        except Exception as e:
            why = "probe raised %s: %s" % (type(e).__name__, e)
        ctx.count(("grouping", name), nontrivial=True)
        if why:
            ctx.report(why, {"grouping_probe": name}, found_input=True, signature=sig)


def run(ctx):
    proved = ctx.prove(gen=False)
    quick = ctx.tier == "quick"
    run_sim_stream(ctx, 150 if quick else 2500)
    run_snap_stream(ctx, 40 if quick else 600)
    run_mod_stream(ctx, 100 if quick else 1500)
    run_adur_stream(ctx, 25 if quick else 400)
    run_atime_stream(ctx, 40 if quick else 600)
    run_ndphase_stream(ctx, 21 if quick else 210)
    run_jac_stream(ctx, 24 if quick else 240)
    run_phasor_stream(ctx, 12 if quick else 120)
    run_grouping_probes(ctx)
    ctx.cov["trusted_base"] += [
        "hand-written model Model/Run.v (on Model/State.v, Model/Ops.v) tied to epgpy.simulate / get_adc_times / modify by correspondence",
    ]
    if not proved:
        ctx.report("proof obligations of C12 no longer check: %s" % ctx.failed_obligations,
                   {"theorem_or_correspondence": ctx.failed_obligations}, found_input=False)


def fix_case(case):
    """JSON round trip: tuples became lists, complex numbers strings"""
    def cx(x):
        if isinstance(x, str):
            try:
                return complex(x)
            except ValueError:
                return x
        if isinstance(x, list):
            return [cx(y) for y in x]
        if isinstance(x, dict):
            return {k: cx(v) for k, v in x.items()}
        return x
    case = cx(case)
    if "tree" in case:
        case["tree"] = untuple(case["tree"])

    def fixp(p):
        if isinstance(p, dict) and "q" in p:
            if isinstance(p["q"], list):
                p["q"] = tuple(p["q"])
                if p["q"][0] == "tuple":
                    p["q"] = ("tuple", [tuple(c) if isinstance(c, list) else c for c in p["q"][1]], p["q"][2])
            if isinstance(p.get("reduce"), list):
                p["reduce"] = tuple(p["reduce"])
    for it in case.get("items", []):
        if it.get("k") == "probe":
            fixp(it["probe"])
    ov = case.get("override")
    if isinstance(ov, dict):
        for o in ([ov["single"]] if "single" in ov else ov["list"]):
            fixp(o)
    return case


def replay(ctx, rp):
    import epgpy as epg
    why = None
    if "sim_case" in rp:
        case = fix_case(rp["sim_case"])
        obs = run_sim_impl(case)
        why = oracle_disagrees(case, obs)
    elif "snap_case" in rp:
        why = snap_case_bad(fix_case(rp["snap_case"]), {"views": 0, "trunc": 0})
    elif "atime_case" in rp:
        case = rp["atime_case"]
        case["tree"] = untuple(case["tree"])
        try:
            why = atime_case_disagrees(case)
        except Exception as e:
            why = "simulate()/get_adc_times raised %s: %s" % (type(e).__name__, e)
    elif "jac_case" in rp:
        try:
            why = jac_case_disagrees(rp["jac_case"])
        except Exception as e:
            why = "simulate raised %s: %s" % (type(e).__name__, e)
    elif "ndphase_case" in rp:
        try:
            why = ndphase_case_disagrees(rp["ndphase_case"])
        except Exception as e:
            why = "simulate raised %s: %s" % (type(e).__name__, e)
    elif "adur_case" in rp:
        try:
            why = adur_case_disagrees(rp["adur_case"])
        except Exception as e:
            why = "modify()/simulate raised %s: %s" % (type(e).__name__, e)
    elif "expand_case" in rp:
        try:
            why = expand_case_disagrees(rp["expand_case"])
        except Exception as e:
            why = "modify()/simulate raised %s: %s" % (type(e).__name__, e)
    elif "mod_case" in rp:
        case = fix_case(rp["mod_case"])
        try:
            r = run_mod_impl(case)
            why = compare_runs(epg.simulate(r["res"], adc_time=True), epg.simulate(hand_inserted(case, r["objs"]), adc_time=True))
            if not why and r["times_mod"] != r["times"]:
                why = "modify() changed the acquisition times"
            if not why:
                v, errs = ctx.run_bool_cases("replay", MHEADER, [mod_term(case, r)], chunk=1)
                ctx.cleanup_cases()
                if not (v and v[0] is True):
                    why = "structure of the sequence returned by modify() differs from modify_model"
        except Exception as e:
            why = "modify()/simulate raised %s: %s" % (type(e).__name__, e)
    elif "grouping_probe" in rp:
        why = grouping_probe(rp["grouping_probe"])
    elif "phase" in rp:
        z = complex(np.asarray(epg.Adc("F0", phase=rp["phase"]).phasor))
        ref = complex(math.cos(math.radians(rp["phase"])), math.sin(math.radians(rp["phase"])))
        why = None if abs(z - ref) < 1e-12 else "Adc.phasor = %s, exp(i*phase) = %s" % (z, ref)
    else:
        print("replay: not an input replay (%s)" % rp.get("what"))
        return 1
    print("replay:", ("VIOLATION reproduced: " + why) if why else "no discrepancy")
    return 1 if why else 0


def untuple(tree):
    return [nd if isinstance(nd, int) else (nd[0], untuple(nd[1]), nd[2]) for nd in tree]
