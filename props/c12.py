"""C12 — probes, timing and modify() report the right quantity at the right time.

Streams (all derived from ctx.rng):
  sim      exact dyadic correspondence of epg.simulate(..., adc_time=True, probe=...) and epg.get_adc_times
           with Model/Run.v evaluated inside Coq (values, times, MultiOperator durations)
  snap     snapshot semantics on the implementation: what a probe returned is not altered by later operators
  modify   epg.modify(): structure of the returned sequence against modify_model (inside Coq), timing,
           and simulate(modify(seq)) against a hand-inserted sequence (tolerance 1e-12), expand on/off
  phasor   Adc.phasor = exp(i*phase*pi/180) (Interval tactic inside Coq)
"""
import math
import numpy as np
from fractions import Fraction
from vlib import core, prog

# ------------------------------------------------------------------ Coq header
HEADER = prog.HEADER + """From EPG Require Import Run.
Definition noT := fun (_ _ : unit) => OWait.
Definition noE := fun (_ : Qc) (_ _ _ : unit) => OWait.
Definition noP := fun (_ : Qc) (_ : unit) => OWait.
Notation IOp := (@IOp QIops unit). Notation IProbe := (@IProbe QIops unit).
Notation Leaf := (@Leaf QIops unit). Notation Node := (@Node QIops unit). Notation DOp := (@DOp QIops unit).
Notation mkProbe := (@mkProbe QIops). Notation QF0 := (@QF0 QIops). Notation QZ0 := (@QZ0 QIops).
Notation QFun := (@QFun QIops).
Notation Single := (@Single QIops). Notation Multi := (@Multi QIops).
Definition F0 (s : sm QIops) : QI := fp (centre (st s)).
Definition Z0 (s : sm QIops) : QI := fz (centre (st s)).
Definition Fk (k : Z) (s : sm QIops) : QI := fp (getZ t0 (st s) k).
Definition Zk (k : Z) (s : sm QIops) : QI := fz (getZ t0 (st s) k).
Definition lin (a b : QI) (s : sm QIops) : QI := qi_add (qi_mul a (F0 s)) (qi_mul b (Z0 s)).
Definition qabs (x : Qc) : Qc := if Qle_bool 0 x then x else (- x)%Qc.
Definition qi_close (tol : Qc) (x y : QI) : bool :=
  let m := (1 + qabs (fst y) + qabs (snd y))%Qc in
  Qle_bool (qabs (fst x - fst y)%Qc) (tol * m)%Qc && Qle_bool (qabs (snd x - snd y)%Qc) (tol * m)%Qc.
Definition ok_exact := sim_ok QIops unit noT noE noP.
Definition ok_close := sim_ok_by QIops unit noT noE noP (qi_close (Q2Qc (1 # 10000000000000))).
"""

DURS = [0.0, 0.0, 0.5, 1.0, 1.5, 2.25, 3.0, 0.125]
WEIGHTS = [0.5, 1.0, 1.5, 2.0, -1.0, 0.25, complex(0.5, 1), complex(0, -1)]
PHASES = [0, 90, 180, 270, -90, 360, 450, -180]
LIMIT = 36          # bits: keeps weights / expression / batch sums exact in binary64


def qc(x):
    return "(Q2Qc %s)" % core.qlit(x)


def phasor_exact(ph):
    """exp(i*ph*pi/180) for a multiple of 90 degrees, as an exact complex number"""
    return [1, 1j, -1, -1j][(int(ph) // 90) % 4]


# ------------------------------------------------------------------ generator (sim stream)
def gen_probe(rng, B, allow_phase=True, in_seq=True):
    r = rng.random()
    if in_seq and r < 0.2:
        return {"type": "ADC", "q": "F0", "phase": None, "weights": None, "reduce": None}
    qk = rng.choice(["F0", "F0", "Z0", "lin", "Fk", "Zk"])
    if qk == "lin":
        q = ("lin", prog.cdy(rng, nz=True), prog.cdy(rng))
    elif qk in ("Fk", "Zk"):
        q = (qk, rng.choice([1, -1, 2, 0]))
    else:
        q = qk
    if r < 0.6 and isinstance(q, str):
        # Adc(attr, phase, reduce, weights)
        p = {"type": "Adc", "q": q, "phase": None, "weights": None, "reduce": None}
        if allow_phase and rng.random() < 0.6:
            if B > 1 and rng.random() < 0.3:
                p["phase"] = [rng.choice(PHASES) for _ in range(B)]
            else:
                p["phase"] = rng.choice(PHASES)
        if rng.random() < 0.5:
            k = rng.random()
            if k < 0.25:
                p["weights"] = rng.choice(WEIGHTS)                      # 0-d
            elif k < 0.4:
                p["weights"] = [rng.choice(WEIGHTS)]
            elif B > 1:
                p["weights"] = [rng.choice(WEIGHTS) for _ in range(B)]
            else:
                p["weights"] = [rng.choice(WEIGHTS) for _ in range(rng.choice([2, 3]))]
        wsize = 1 if not isinstance(p["weights"], list) else len(p["weights"])
        choices = [None, None, True, 0, (0,)]
        if B > 1 or wsize == 1:
            choices.append(False)      # un-reduced value keeps the batch size
        p["reduce"] = rng.choice(choices)
        return p
    if isinstance(q, str) or q[0] == "lin":
        return {"type": rng.choice(["expr", "call"]), "q": q, "phase": None, "weights": None, "reduce": None}
    return {"type": "call", "q": q, "phase": None, "weights": None, "reduce": None}


def gen_override(rng, B):
    r = rng.random()
    if r < 0.35:
        return None

    def one():
        k = rng.random()
        if k < 0.2:
            return None
        if k < 0.45:
            return rng.choice(["F0", "Z0"])                  # plain string -> Probe(string)
        p = gen_probe(rng, B, in_seq=False)
        if p["type"] == "expr" and rng.random() < 0.5:
            p = dict(p, type="str")                         # expression string, wrapped by simulate()
        if p["type"] == "call" and rng.random() < 0.5:
            p = dict(p, type="rawcall")                     # bare callable, wrapped by simulate()
        return p
    if r < 0.6:
        o = one()
        return {"single": o}
    return {"list": [one() for _ in range(rng.choice([1, 2, 2, 3]))]}


def gen_sim_case(rng, quick=True):
    B = rng.choice([1, 1, 1, 2, 3])
    pd = float(rng.choice([0.25, 0.5, 1, 1, 1.5, 2]))
    n0 = rng.choice([0, 0, 1, 2])
    case = {"B": B, "pd": pd, "init": [prog.gen_init(rng, n0) for _ in range(B)], "items": [], "tree": None,
            "override": None, "asarray": False}
    bud = prog.Budget(1, 1)
    n = rng.randint(2, 9 if quick else 14)
    nid = 0
    items = []
    for _ in range(n):
        k = rng.choice(["scalar", "matrix", "shift", "shift", "spoil", "reset", "pd", "wait", "offset",
                        "probe", "probe", "probe", "repeat"])
        if k == "repeat" and items:
            items.append(dict(rng.choice(items)))            # the same object again
            it = items[-1]
            if it["k"] == "op" and it["op"]["op"] in ("scalar", "matrix"):
                kind, has0 = it["op"]["op"], (it["op"].get("arr0") is not None or it["op"].get("mat0") is not None)
                if sum(bud.after(kind, has0)) + 1 > LIMIT:
                    items.pop()
                else:
                    bud.do(kind, has0)
            continue
        if k == "repeat":
            continue
        d = float(rng.choice(DURS))
        if k == "probe":
            p = gen_probe(rng, B)
            it = {"k": "probe", "id": nid, "probe": p, "dur": 0.0}
            if p["type"] != "ADC" and rng.random() < 0.15:
                it["dur"] = float(rng.choice([0.5, 1.0, 0.25]))   # duration attribute set on the probe object
            items.append(it)
            nid += 1
            continue
        if k == "scalar":
            o = prog.gen_scalar(rng)
            if sum(bud.after("scalar", o["arr0"] is not None)) + 1 > LIMIT:
                continue
            bud.do("scalar", o["arr0"] is not None)
        elif k == "matrix":
            o = prog.gen_matrix(rng)
            if sum(bud.after("matrix", o["mat0"] is not None)) + 1 > LIMIT:
                continue
            bud.do("matrix", o["mat0"] is not None)
        elif k == "shift":
            o = prog.gen_shift(rng, 0.15)
        elif k == "pd":
            o = {"op": "pd", "p": float(rng.choice([0.25, 0.5, 1, 2, 3])), "reset": rng.random() < 0.5}
            bud.ue, bud.me = 2, 2
            if o["reset"]:
                bud.u, bud.m = max(bud.u, 2), max(bud.m, 2)
        elif k == "reset":
            o = {"op": "reset"}
            bud.u, bud.m = max(bud.u, bud.ue), max(bud.m, bud.me)
        elif k == "offset":
            o = {"op": "wait", "offset": True}
            d = -float(rng.choice([0.5, 1.0, 0.25]))
        else:
            o = {"op": k}
        if k == "wait" and d == 0:
            d = 1.0
        items.append({"k": "op", "id": nid, "op": o, "dur": d})
        nid += 1
    if not any(it["k"] == "probe" for it in items):
        items.append({"k": "probe", "id": nid, "probe": gen_probe(rng, B), "dur": 0.0})
    case["items"] = items
    for _ in range(10):
        case["tree"] = gen_tree(rng, list(range(len(items))))
        if multi_ok(case, case["tree"]):
            break
    else:
        case["tree"] = list(range(len(items)))
    case["override"] = gen_override(rng, B)
    case["asarray"] = rng.random() < 0.4
    return case


def gen_tree(rng, idx, depth=0, in_multi=False):
    """random nesting of the flat index list: ints, ("list", [...]), ("multi", [...])"""
    out = []
    i = 0
    while i < len(idx):
        r = rng.random()
        if depth < 3 and r < 0.3 and len(idx) - i >= 1:
            ln = rng.randint(1, min(4, len(idx) - i))
            kind = rng.choice(["list", "multi", "multi"]) if not in_multi else "multi"
            sub = gen_tree(rng, idx[i:i + ln], depth + 1, in_multi or kind == "multi")
            out.append((kind, sub, rng.choice(["ctor", "mul"])))
            i += ln
        else:
            out.append(idx[i])
            i += 1
    return out


def multi_ok(case, tree):
    """MultiOperator refuses a negative total duration (Offset members): keep every group total >= 0,
    also the partial total of the first two members when the group is built with `*`"""
    def total(nd):
        if isinstance(nd, int):
            return Fraction(case["items"][nd]["dur"])
        return sum((total(x) for x in nd[1]), Fraction(0))

    def ok(nd):
        if isinstance(nd, int):
            return True
        if not all(ok(x) for x in nd[1]):
            return False
        if nd[0] == "multi":
            if total(nd) < 0:
                return False
            if len(nd[1]) >= 2 and total(nd[1][0]) + total(nd[1][1]) < 0:
                return False
        return True
    return all(ok(nd) for nd in tree)


# ------------------------------------------------------------------ implementation driver
def quantity_fn(q):
    if q == "F0":
        return lambda sm: sm.F0
    if q == "Z0":
        return lambda sm: sm.Z0
    if q[0] == "lin":
        a, b = q[1], q[2]
        return lambda sm: a * sm.F0 + b * sm.Z0
    kind, k = q
    col = 0 if kind == "Fk" else 2

    def f(sm):
        if abs(k) > sm.nstate:
            return 0 * sm.F0
        return sm.states[..., sm.nstate + k, col]
    return f


def expr_of(q):
    if isinstance(q, str):
        return q
    return "(%r)*F0 + (%r)*Z0" % (q[1], q[2])


def build_probe(p, raw=False):
    import epgpy as epg
    t = p["type"]
    if t == "ADC":
        return epg.ADC
    if t == "Adc":
        kw = {}
        if p["phase"] is not None:
            kw["phase"] = p["phase"]
        if p["weights"] is not None:
            kw["weights"] = p["weights"]
        if p["reduce"] is not None:
            kw["reduce"] = tuple(p["reduce"]) if isinstance(p["reduce"], (list, tuple)) else p["reduce"]
        return epg.Adc(p["q"], **kw)
    if t == "expr":
        return epg.Probe(expr_of(p["q"]))
    if t == "str":
        return expr_of(p["q"])
    if t == "call":
        return epg.Probe(quantity_fn(p["q"]))
    if t == "rawcall":
        return quantity_fn(p["q"])
    raise ValueError(t)


def build_item(it):
    import epgpy as epg
    from epgpy import opscalar, opmatrix, operator
    if it["k"] == "probe":
        pb = build_probe(it["probe"])
        if it["dur"]:
            pb.duration = it["dur"]
        return pb
    o, d = it["op"], it["dur"]
    k = o["op"]
    dk = {"duration": d} if d else ({"duration": 0.0} if it["id"] % 2 else {})
    if k == "scalar":
        return opscalar.ScalarOp(np.array(o["arr"], dtype=complex),
                                 None if o["arr0"] is None else np.array(o["arr0"], dtype=complex), **dk)
    if k == "matrix":
        return opmatrix.MatrixOp(np.array(o["mat"], dtype=complex),
                                 None if o["mat0"] is None else np.array(o["mat0"], dtype=complex), **dk)
    if k == "shift":
        return epg.S(int(o["d"]), nmax=o["nmax"], **dk)
    if k == "spoil":
        return operator.Spoiler(**dk) if d else epg.SPOILER
    if k == "reset":
        return operator.Reset(**dk) if d else epg.RESET
    if k == "pd":
        return epg.PD(o["p"], reset=o["reset"], **dk)
    if k == "wait":
        return epg.Offset(d) if o.get("offset") else epg.Wait(d)
    raise ValueError(k)


def build_objects(case):
    objs = {}
    for it in case["items"]:
        if it["id"] not in objs:
            objs[it["id"]] = build_item(it)
    return objs


def build_tree(case, objs, tree=None, multis=None):
    """python nested sequence; multis collects the MultiOperator objects in pre-order"""
    from epgpy import operator
    tree = case["tree"] if tree is None else tree
    out = []
    for nd in tree:
        if isinstance(nd, int):
            out.append(objs[case["items"][nd]["id"]])
        else:
            kind, sub, how = nd
            if kind == "list":
                out.append(build_tree(case, objs, sub, multis))
            else:
                slot = len(multis)
                multis.append(None)
                members = build_tree(case, objs, sub, multis)
                if how == "mul" and len(members) >= 2 and not isinstance(members[0], operator.MultiOperator):
                    m = members[0] * members[1]
                    for x in members[2:]:
                        m = m * x
                else:
                    m = operator.MultiOperator(members)
                multis[slot] = m
                out.append(m)
    return out


def build_override(ov):
    if ov is None:
        return None
    if "single" in ov:
        return None if ov["single"] is None else (ov["single"] if isinstance(ov["single"], str) else build_probe(ov["single"]))
    return [None if o is None else (o if isinstance(o, str) else build_probe(o)) for o in ov["list"]]


def override_list(ov):
    """override as the list of probe descriptions / None the model sees"""
    if ov is None:
        return []
    if "single" in ov:
        return [] if ov["single"] is None else [ov["single"]]
    return list(ov["list"])


def run_sim_impl(case):
    import epgpy as epg
    objs = build_objects(case)
    multis = []
    seq = build_tree(case, objs, None, multis)
    init = np.array(case["init"], dtype=complex)
    sm = epg.StateMatrix(init if case["B"] > 1 else init[0], density=case["pd"])
    ov = build_override(case["override"])
    nov = max(1, len(override_list(case["override"])))
    times, values = epg.simulate(seq, init=sm, adc_time=True, probe=ov, asarray=False)
    if nov == 1 and ov is not None and not isinstance(values, tuple):
        raise AssertionError("single-probe result is not flattened to one series")
    if case["asarray"]:
        # asarray=True on the same objects: the stacked arrays must hold the same numbers
        series = [values] if nov == 1 else list(values)
        if all(len({np.shape(v) for v in s}) == 1 for s in series):
            t2, v2 = epg.simulate(seq, init=sm, adc_time=True, probe=ov, asarray=True)
            s2 = [v2] if nov == 1 else list(v2)
            same = np.array_equal(np.asarray(t2), np.asarray(times)) and len(s2) == len(series) and all(
                isinstance(b, np.ndarray) and np.array_equal(np.asarray(a), b) for a, b in zip(series, s2))
            if not same:
                raise AssertionError("simulate(asarray=True) differs from simulate(asarray=False)")
    adc = epg.get_adc_times(seq)
    mdur = [m.duration for m in multis]
    times = [float(t) for t in np.asarray(times).tolist()]
    if nov == 1:
        vals = ("single", [np.ravel(np.asarray(v)).tolist() for v in values])
    else:
        if len(values) != nov:
            raise AssertionError("simulate returned %d series for %d probes" % (len(values), nov))
        vals = ("multi", [[np.ravel(np.asarray(v)).tolist() for v in series] for series in values])
    return {"times": times, "adc": [float(t) for t in adc], "mdur": [float(x) for x in mdur], "vals": vals}


# ------------------------------------------------------------------ Gallina printers
def c_value(v):
    return core.clist([core.qi(z) for z in v])


def c_quantity(q):
    if q == "F0":
        return "QF0"
    if q == "Z0":
        return "QZ0"
    if q[0] == "lin":
        return "(QFun (lin %s %s))" % (core.qi(q[1]), core.qi(q[2]))
    return "(QFun (%s %s))" % (q[0], core.zlit(q[1]))


def c_probe(p, exact_phasor=True):
    if isinstance(p, str):
        return "(mkProbe %s None RNone None)" % c_quantity(p)
    w = p["weights"]
    if w is None:
        cw = "None"
    else:
        cw = "(Some %s)" % c_value(w if isinstance(w, list) else [w])
    r = p["reduce"]
    cr = "RNone" if r is None else "RTrue" if r is True else "RFalse" if r is False else "RAxes"
    ph = p["phase"]
    if ph is None:
        cp = "None"
    else:
        phs = ph if isinstance(ph, list) else [ph]
        cp = "(Some %s)" % c_value([phasor_exact(x) for x in phs])
    return "(mkProbe %s %s %s %s)" % (c_quantity(p["q"]), cw, cr, cp)


def c_item(it):
    if it["k"] == "probe":
        return "(IProbe %d%%nat %s %s)" % (it["id"], c_probe(it["probe"]), qc(it["dur"]))
    return "(IOp %d%%nat (DOp %s) %s)" % (it["id"], prog.c_op(it["op"]), qc(it["dur"]))


def c_tree(case, tree=None):
    tree = case["tree"] if tree is None else tree
    out = []
    for nd in tree:
        if isinstance(nd, int):
            out.append("(Leaf %s)" % c_item(case["items"][nd]))
        else:
            out.append("(Node %s %s)" % ("true" if nd[0] == "multi" else "false", c_tree(case, nd[1])))
    return core.clist(out)


def c_bstate(case):
    eq_c = lambda n: [[0j, 0j, 0j]] * n + [[0j, 0j, complex(case["pd"])]] + [[0j, 0j, 0j]] * n
    out = []
    for rows in case["init"]:
        n = (len(rows) - 1) // 2
        out.append(prog.c_sm((rows, eq_c(n))))
    return core.clist(out)


def c_simout(vals):
    kind, v = vals
    if kind == "single":
        return "(Single %s)" % core.clist([c_value(x) for x in v])
    return "(Multi %s)" % core.clist([core.clist([c_value(x) for x in series]) for series in v])


def needs_tolerance(case):
    for it in case["items"]:
        if it["k"] == "probe":
            ph = it["probe"]["phase"]
            if ph is not None and any(x != 0 for x in (ph if isinstance(ph, list) else [ph])):
                return True
    return False


def sim_term(case, obs):
    ov = core.clist(["None" if o is None else "(Some %s)" % c_probe(o) for o in override_list(case["override"])])
    f = "ok_close" if needs_tolerance(case) else "ok_exact"
    return "(%s %s %s %s %s %s %s %s)" % (
        f, c_tree(case), ov, c_bstate(case), c_simout(obs["vals"]),
        core.clist([qc(t) for t in obs["times"]]), core.clist([qc(t) for t in obs["adc"]]),
        core.clist([qc(t) for t in obs["mdur"]]))


# ------------------------------------------------------------------ python mirror of the spec (search oracle / diagnosis)
def spec_oracle(case):
    """independent statement-level oracle: prefix runs + cumulative sums (floats, exact on dyadic inputs)"""
    import epgpy as epg
    flat = []

    def walk(tree):
        for nd in tree:
            if isinstance(nd, int):
                flat.append(case["items"][nd])
            else:
                walk(nd[1])
    walk(case["tree"])
    init = np.array(case["init"], dtype=complex)
    ovl = override_list(case["override"])
    rows, times = [], []
    tic = Fraction(0)
    for j, it in enumerate(flat):
        tic += Fraction(it["dur"])
        if it["k"] != "probe":
            continue
        # fresh state: re-run the prefix of operators from scratch, out of place
        sm = epg.StateMatrix(init if case["B"] > 1 else init[0], density=case["pd"])
        for it2 in flat[:j]:
            if it2["k"] == "op":
                sm = build_item(it2)(sm, inplace=False)
        row = []
        for o in (ovl or [None]):
            p = it["probe"] if o is None else ({"type": "expr", "q": o, "phase": None, "weights": None, "reduce": None} if isinstance(o, str) else o)
            arr = np.asarray(quantity_fn(p["q"])(sm))
            if p["weights"] is not None:
                arr = arr * np.asarray(p["weights"])
            red = p["reduce"]
            if (red is None and p["weights"] is not None) or (red is not None and red is not False):
                arr = arr.sum()
            ph = it["probe"]["phase"]
            if ph is not None:
                arr = arr * np.array([phasor_exact(x) for x in (ph if isinstance(ph, list) else [ph])])
            row.append(np.ravel(arr))
        rows.append(row)
        times.append(float(tic))
    return rows, times


def oracle_disagrees(case, obs):
    rows, times = spec_oracle(case)
    if times != obs["times"]:
        return "acquisition times %s differ from the cumulative sums of durations %s" % (obs["times"], times)
    if times != obs["adc"]:
        return "get_adc_times %s differs from the cumulative sums of durations %s" % (obs["adc"], times)
    kind, v = obs["vals"]
    series = [v] if kind == "single" else v
    if len(series) != len(rows[0]) or any(len(s) != len(rows) for s in series):
        return "number of recorded entries differs from probes x occurrences"
    for j, row in enumerate(rows):
        for k, ref in enumerate(row):
            got = np.asarray(series[k][j])
            if got.shape != ref.shape or np.abs(got - ref).max() > 1e-12 * (1 + np.abs(ref).max()):
                return "entry of probe %d at occurrence %d is %s, the requested quantity of the state at that point is %s" % (
                    k, j, got.tolist(), ref.tolist())
    return None


def sim_signature(case, why):
    kinds = sorted({it["probe"]["type"] for it in case["items"] if it["k"] == "probe"})
    return {"stream": "sim", "override": None if case["override"] is None else list(case["override"])[0],
            "why": (why or "model")[:40], "probes": kinds}


# ------------------------------------------------------------------ sim stream
def run_sim_stream(ctx, n):
    terms, kept = [], []
    stats = {"override": {}, "probe_types": {}, "batch": {}, "tolerance_cases": 0, "nested": 0, "probe_occurrences": 0}
    for i in range(n):
        case = gen_sim_case(ctx.rng, ctx.tier == "quick")
        try:
            obs = run_sim_impl(case)
        except Exception as e:
            ctx.report("simulate()/get_adc_times raised %s on a valid sequence: %s" % (type(e).__name__, str(e)[:200]),
                       {"sim_case": case}, found_input=True, signature={"stream": "sim", "raises": type(e).__name__})
            continue
        terms.append(sim_term(case, obs))
        kept.append((case, obs))
        nocc = sum(1 for it in case["items"] if it["k"] == "probe")
        ctx.count(("sim", repr(case)), nontrivial=len(case["items"]) >= 3)
        if i < 2:
            ctx.sample({"sim_case": {"B": case["B"], "items": [(it["k"], it.get("op", {}).get("op") or it["probe"]["type"], it["dur"]) for it in case["items"]],
                                     "tree": repr(case["tree"]), "override": repr(case["override"])}, "observed_times": obs["times"]})
        ok = "none" if case["override"] is None else list(case["override"])[0]
        stats["override"][ok] = stats["override"].get(ok, 0) + 1
        stats["batch"][case["B"]] = stats["batch"].get(case["B"], 0) + 1
        stats["tolerance_cases"] += needs_tolerance(case)
        stats["nested"] += any(not isinstance(nd, int) for nd in case["tree"])
        stats["probe_occurrences"] += nocc
        for it in case["items"]:
            if it["k"] == "probe":
                t = it["probe"]["type"]
                stats["probe_types"][t] = stats["probe_types"].get(t, 0) + 1
    verdicts, errors = ctx.run_bool_cases("sim", HEADER, terms, chunk=12)
    for e in errors:
        ctx.report("correspondence shard failed to evaluate", {"theorem_or_correspondence": "C12 sim correspondence (Cases)", "coq_output": e}, found_input=False)
    nbad = 0
    for (case, obs), v in zip(kept, verdicts):
        if v is False:
            nbad += 1
            if nbad > 8:
                continue
            case, obs = shrink_sim(ctx, case, obs)
            why = oracle_disagrees(case, obs)
            ctx.report(why or "model Run.v and epgpy.simulate disagree (spec oracle agrees with the implementation)",
                       {"sim_case": case, "observed": obs, "theorem_or_correspondence": "C12 correspondence Model/Run.v vs epgpy.simulate"},
                       found_input=bool(why), signature=sim_signature(case, why))
    ctx.cov["sim_stream"] = stats


def sim_disagrees(ctx, case):
    try:
        obs = run_sim_impl(case)
    except Exception:
        return None
    v, errs = ctx.run_bool_cases("shrink", HEADER, [sim_term(case, obs)], chunk=1)
    return obs if v and v[0] is False else None


def shrink_sim(ctx, case, obs, budget=12):
    """greedy: drop the override, the nesting, then single items, while the case still disagrees"""
    def attempt(c):
        nonlocal budget
        if budget <= 0:
            return None
        budget -= 1
        if not any(it["k"] == "probe" for it in c["items"]):
            return None
        return sim_disagrees(ctx, c)
    cand = dict(case, tree=list(range(len(case["items"]))))
    o = attempt(cand)
    if o:
        case, obs = cand, o
    if case["override"] is not None:
        cand = dict(case, override=None)
        o = attempt(cand)
        if o:
            case, obs = cand, o
    if all(isinstance(nd, int) for nd in case["tree"]):
        i = 0
        while i < len(case["items"]) and budget > 0:
            items = case["items"][:i] + case["items"][i + 1:]
            cand = dict(case, items=items, tree=list(range(len(items))))
            o = attempt(cand)
            if o:
                case, obs = cand, o
            else:
                i += 1
    return case, obs


def run(ctx):
    proved = ctx.prove(gen=False)
    quick = ctx.tier == "quick"
    run_sim_stream(ctx, 150 if quick else 2500)
    ctx.cov["trusted_base"] += [
        "hand-written model Model/Run.v (on Model/State.v, Model/Ops.v) tied to epgpy.simulate / get_adc_times / modify by correspondence",
    ]
    if not proved:
        ctx.report("proof obligations of C12 no longer check: %s" % ctx.failed_obligations,
                   {"theorem_or_correspondence": ctx.failed_obligations}, found_input=False)


def replay(ctx, rp):
    if "sim_case" in rp:
        case = rp["sim_case"]
        case["tree"] = untuple(case["tree"])
        obs = run_sim_impl(case)
        why = oracle_disagrees(case, obs)
        print("replay:", ("VIOLATION reproduced: " + why) if why else "no discrepancy with the specification oracle")
        return 1 if why else 0
    print("replay: not an input replay (%s)" % rp.get("what"))
    return 1


def untuple(tree):
    return [nd if isinstance(nd, int) else (nd[0], untuple(nd[1]), nd[2]) for nd in tree]
