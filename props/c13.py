"""C13 — truncation, pruning and gridding are sound, with known exactness horizons."""
import numpy as np
from vlib import core, prog


def seq1d(rng, n):
    """random 1-D sequence of real operators with shifts of any size and sign; returns constructor strings + |shift| list"""
    ops = []
    for _ in range(n):
        ops.append(("T", "epg.T(%s, %s)" % (rng.choice([20, 45, 90, 130]), rng.choice([0, 30, 90, 200])), 0))
        d = rng.choice([1, 1, 2, 3, -1, -2])
        ops.append(("S", d, abs(d)))
        ops.append(("E", "epg.E(%s, %s, %s, %s)" % (rng.choice([2, 5, 10]), rng.choice([400, 1000]), rng.choice([30, 80]), rng.choice([0, 0.01])), 0))
        ops.append(("A", "epg.ADC", 0))
    return ops


def run_trunc_oracle(ctx, ncases):
    import epgpy as epg
    env = {"epg": epg, "np": np}
    for i in range(ncases):
        nd = ctx.rng.random() < 0.4
        dim = ctx.rng.choice([2, 3]) if nd else 1
        cap = ctx.rng.choice([1, 2, 3, 4])
        spec = seq1d(ctx.rng, ctx.rng.randint(3, 7))
        late = ctx.rng.random() < 0.4          # cap given as nmax= on the later shifts only (cap lowered below the extent reached)
        nshift = sum(1 for k_, _, _ in spec if k_ == "S")
        seq, seq_t, acc, A, ish = [], [], [], np.zeros(dim, int), 0
        for kind, val, a in spec:
            if kind == "S":
                ish += 1
                kw = {"nmax": cap} if (late and ish > nshift // 2) else {}
                if nd:
                    v = [val] + [ctx.rng.choice([0, 1, -1]) for _ in range(dim - 1)]
                    seq.append(epg.S(np.array(v)))
                    seq_t.append(epg.S(np.array(v), **kw))
                    A = A + np.abs(v)
                else:
                    seq.append(epg.S(int(val)))
                    seq_t.append(epg.S(int(val), **kw))
                    A = A + abs(val)
            else:
                seq.append(eval(val, env))
                seq_t.append(seq[-1])
                if kind == "A":
                    acc.append(A.copy())
        try:
            full = np.asarray(epg.simulate(seq, probe=["F0", "Z0"]))
            if late:
                trunc = np.asarray(epg.simulate(seq_t, probe=["F0", "Z0"]))
                nst = np.zeros(1)
            else:
                trunc = np.asarray(epg.simulate(seq, probe=["F0", "Z0"], max_nstate=cap))
                nst = np.asarray(epg.simulate(seq, probe="nstate", max_nstate=cap))
        except Exception as e:
            ctx.report("truncated simulation raised %s: %s" % (type(e).__name__, str(e)[:200]), {"spec": spec, "cap": cap, "nd": nd}, found_input=True,
                       signature={"raises": type(e).__name__, "nd": nd})
            continue
        ctx.count(("trunc", repr(spec), cap, nd))
        ctx.cov["oracle_runs"] = ctx.cov.get("oracle_runs", 0) + 1
        if not nd and np.max(nst) > cap:
            ctx.report("state count %s exceeds the cap %d" % (np.max(nst), cap), {"spec": spec, "cap": cap}, found_input=True, signature={"why": "cap-exceeded"})
        # no kept wavenumber index may exceed the cap in any component, after EVERY operator (steps of size 2 and 3 jump over it)
        try:
            sm, worst, ish2 = epg.StateMatrix(**({} if late else {"max_nstate": cap})), None, 0
            for o in seq_t:
                if isinstance(o, epg.probe.Probe):
                    continue
                sm = o(sm, inplace=True)
                ish2 += isinstance(o, epg.S)
                capped_now = (not late) or ish2 > nshift // 2
                big = int(sm.nstate) if sm.coords is None else int(np.abs(np.asarray(sm.coords)).max())
                if capped_now and isinstance(o, epg.S) and big > cap:
                    worst = big
                    break
            if worst is not None:
                ctx.report("after a capped shift a wavenumber index %d > cap %d is kept" % (worst, cap), {"spec": spec, "cap": cap, "nd": nd, "late_cap": late},
                           found_input=True, signature={"why": "cap-exceeded", "nd": nd, "site": "stepwise"})
        except Exception as e:
            ctx.report("stepwise capped run raised %s: %s" % (type(e).__name__, str(e)[:200]), {"spec": spec, "cap": cap, "nd": nd}, found_input=True,
                       signature={"raises": type(e).__name__, "nd": nd, "site": "stepwise"})
        for j, Aj in enumerate(acc):
            if np.all(Aj <= 2 * cap + 1):
                if np.abs(full[:, j] - trunc[:, j]).max() > 1e-12:
                    ctx.report("acquisition %d with accumulated shift %s <= 2*%d+1 differs from the untruncated simulation by %.3g"
                               % (j, Aj.tolist(), cap, np.abs(full[:, j] - trunc[:, j]).max()),
                               {"spec": spec, "cap": cap, "nd": nd, "late_cap": late, "acquisition": j}, found_input=True, signature={"why": "horizon", "nd": nd})
                    break


def run_prune_oracle(ctx, ncases):
    import epgpy as epg
    for i in range(ncases):
        eps = ctx.rng.choice([1e-2, 1e-3, 1e-4])
        dim = ctx.rng.choice([1, 2, 3])
        n = ctx.rng.randint(3, 7)
        dens = ctx.rng.choice([1.0, 1.0, 1000.0, 4095.0, 0.01])     # the tolerance is absolute, whatever the magnetisation scale
        weak = ctx.rng.random() < 0.4
        if weak:
            dens, eps = ctx.rng.choice([1000.0, 4095.0]), ctx.rng.choice([1e-2, 1e-2, 1e-3])
        # batched FLOAT shifts on a grid (the shift-prune back-end): two identical rows, weak pathways whose amplitude
        # lies between eps and sqrt(eps)
        fbatch = ctx.rng.random() < 0.35
        if fbatch:
            weak, dens, eps = ctx.rng.random() < 0.8, 1.0, ctx.rng.choice([1e-6, 1e-8, 1e-6])
        vec = (lambda v: np.array([[float(x) for x in v]] * 2)) if fbatch else (lambda v: np.array(v))
        sopts = {"kgrid": 0.5} if fbatch else {}

        def build(tol):
            rng2 = __import__("random").Random(i * 7919 + ctx.seed)
            seq, counts = [epg.PD(dens)], []
            if weak:
                # a weak pathway isolated in its own phase state (unequal gradient areas), refocused later by a 180 pulse:
                # its amplitude dens*sin^2(a/2) lies decades below the largest state and above the absolute tolerance
                u = [rng2.choice([1, -1])] + [rng2.choice([0, 1, -1]) for _ in range(dim - 1)]
                a1 = rng2.choice([1, 2]); a2 = a1 + rng2.choice([1, 2])
                mul = lambda c: vec([c * x for x in u])
                seq += [epg.T(90, rng2.choice([0, 90])), epg.S(mul(a1), prune=tol), epg.T(rng2.choice([0.5, 1, 2] if fbatch else [3, 5, 10]), 0), epg.S(mul(a2), prune=tol),
                        epg.T(180, 0), epg.S(mul(a2 - a1), prune=tol), epg.ADC, epg.T(180, 0), epg.S(mul(a2 - a1), prune=tol), epg.ADC]
                return seq
            echo = rng2.random() < 0.5      # a constant gradient with refocusing pulses: every state comes back to an echo
            v0 = [rng2.choice([1, -1, 2])] + [rng2.choice([0, 1, -1]) for _ in range(dim - 1)]
            for j in range(n):
                if echo:
                    seq.append(epg.T(90, 90) if j == 0 else epg.T(rng2.choice([3, 5, 10, 20, 150, 180, 180]), rng2.choice([0, 30])))   # weak and strong refocusing: amplitudes over several decades
                    v = v0
                else:
                    seq.append(epg.T(rng2.choice([20, 45, 90, 130]), rng2.choice([0, 30, 90])))
                    v = [rng2.choice([1, -1, 2])] + [rng2.choice([0, 1, -1]) for _ in range(dim - 1)]
                seq.append(epg.S(vec(v), prune=tol))
                seq.append(epg.E(rng2.choice([5, 10, 30]), 800, rng2.choice([20, 60])))
                seq.append(epg.ADC)
            return seq
        try:
            ref = np.asarray(epg.simulate(build(0), **sopts))
            nst = np.asarray(epg.simulate(build(0), probe="nstate", **sopts)).reshape(-1)
            pr = np.asarray(epg.simulate(build(eps), **sopts))
            pr0 = np.asarray(epg.simulate(build(0), **sopts))
            if fbatch:
                ref, pr, pr0 = ref[..., 0], pr[..., 0], pr0[..., 0]
                pass
        except Exception as e:
            ctx.report("pruned simulation raised %s: %s" % (type(e).__name__, str(e)[:200]), {"eps": eps, "dim": dim, "n": n, "i": i}, found_input=True,
                       signature={"raises": type(e).__name__, "site": "prune"})
            continue
        ctx.count(("prune", i, eps, dim, n))
        ctx.cov["oracle_runs"] = ctx.cov.get("oracle_runs", 0) + 1
        if not np.array_equal(ref, pr0):
            ctx.report("prune=0 is not exact/repeatable", {"eps": eps, "dim": dim, "n": n, "i": i}, found_input=True, signature={"why": "prune0"})
        cum = np.cumsum(2 * nst + 1)
        err = np.abs(ref.reshape(-1) - pr.reshape(-1))
        if np.any(err > 2 * eps * cum + 1e-12):
            j = int(np.argmax(err - 2 * eps * cum))
            ctx.report("pruning with eps=%g changed acquisition %d by %.3g > 2*eps*%d" % (eps, j, err[j], cum[j]),
                       {"eps": eps, "dim": dim, "n": n, "i": i, "density": dens, "batched_float": fbatch}, found_input=True, signature={"why": "prune-bound"})


def run_merge_oracle(ctx, ncases):
    """merging wavenumbers that fall in one grid cell adds their amplitudes exactly: value at x = 0 unchanged"""
    import epgpy as epg
    for i in range(ncases):
        dim = ctx.rng.choice([1, 2])
        n = ctx.rng.randint(2, 5)
        shifts = [[ctx.rng.choice([1.0, 1.25, 0.75, -1.0, 2.0]) for _ in range(dim)] for _ in range(n)]
        angles = [(ctx.rng.choice([30, 60, 90]), ctx.rng.choice([0, 90])) for _ in range(n)]

        def run(grid):
            seq = []
            for (a, p), v in zip(angles, shifts):
                seq += [epg.T(a, p), epg.S(np.array(v), prune=0), epg.E(5, 1000, 80)]
            sm = epg.StateMatrix(kgrid=grid)
            for op in seq:
                sm = op(sm, inplace=True)
            return sm
        try:
            fine, coarse = run(1e-3), run(ctx.rng.choice([0.5, 1.0, 4.0]))
        except Exception as e:
            ctx.report("gridded simulation raised %s: %s" % (type(e).__name__, str(e)[:200]), {"shifts": shifts, "angles": angles}, found_input=True,
                       signature={"raises": type(e).__name__, "site": "merge"})
            continue
        ctx.count(("merge", repr(shifts), repr(angles)))
        ctx.cov["oracle_runs"] = ctx.cov.get("oracle_runs", 0) + 1
        s1, s2 = np.sum(fine.F), np.sum(coarse.F)
        z1, z2 = np.sum(fine.Z), np.sum(coarse.Z)
        if abs(s1 - s2) > 1e-10 or abs(z1 - z2) > 1e-10:
            ctx.report("value reconstructed at position 0 changes under merging: %s vs %s" % (s1, s2), {"shifts": shifts, "angles": angles}, found_input=True,
                       signature={"why": "merge-sum"})


def run_kvalue_oracle(ctx, ncases):
    """gridding happens in PHYSICAL units (coords * kvalue, rad/m): when every physical wavenumber is a multiple of the
    cell no two distinct wavenumbers share a cell, the merge bound is 0 and the value reconstructed at any position x
    equals the one of the integer-shift back-end (coordinates = multiples, kvalue = cell), whatever kvalue is"""
    import epgpy as epg
    for i in range(ncases):
        dim = ctx.rng.choice([1, 2, 3])
        cell = float(ctx.rng.choice([0.5, 1.0, 2.0]))
        kv = float(ctx.rng.choice([0.25, 4.0, 10.0, 1.0, 8.0]))
        n = ctx.rng.randint(3, 6)
        mult = [[ctx.rng.choice([1, 2, -1, 0, 3]) for _ in range(dim)] for _ in range(n)]
        for m in mult:
            m[0] = m[0] or 1
        angles = [(float(ctx.rng.choice([30, 45, 70, 110])), float(ctx.rng.choice([0, 90, 180, 40]))) for _ in range(n)]
        pos = [[ctx.rng.choice([0.0, 0.3, -0.7, 1.1]) for _ in range(dim)] for _ in range(4)]
        case = {"dim": dim, "cell": cell, "kvalue": kv, "multiples": mult, "angles": angles, "pos": pos}

        def build(float_mode):
            seq = []
            for (a, p), m in zip(angles, mult):
                sh = epg.S(np.array(m, dtype=float) * cell / kv) if float_mode else epg.S(np.array(m, dtype=int) if dim > 1 else int(m[0]))
                seq += [epg.T(a, p), epg.E(4.0, 900.0, 70.0), sh, epg.ADC]
            return seq
        try:
            P = np.array(pos) if dim > 1 else np.array(pos)[:, 0]
            got = np.asarray(epg.simulate(build(True), kvalue=kv, kgrid=cell, prune=0, probe=epg.DFT(P)))
            ref = np.asarray(epg.simulate(build(False), kvalue=cell, prune=0, probe=epg.DFT(P)))
        except Exception as e:
            ctx.report("gridded simulation with kvalue raised %s: %s" % (type(e).__name__, str(e)[:200]), {"kvalue_case": case}, found_input=True,
                       signature={"raises": type(e).__name__, "site": "kvalue"})
            continue
        ctx.count(("kvalue", repr(case)))
        ctx.cov["oracle_runs"] = ctx.cov.get("oracle_runs", 0) + 1
        err = np.abs(got.reshape(ref.shape) - ref).max() if got.size == ref.size else np.inf
        if not err < 1e-9:
            ctx.report("wavenumbers that are multiples of the cell (%g rad/m, kvalue=%g): DFT(x) differs from the integer-shift back-end by %.3g although no two distinct wavenumbers share a cell"
                       % (cell, kv, err), {"kvalue_case": case}, found_input=True, signature={"why": "merge-units", "site": "kvalue"})


def run_sum_invariant_oracle(ctx, ncases):
    """position-0 value: every shift (any back-end, prune=0, no cap) leaves sum_k F+(k) and sum_k Z(k) unchanged --
    also when states are handed over onto a coarser grid (integer shifts finer than kgrid followed by a float shift,
    or a per-operator kgrid coarsened mid-sequence), which is where cells really merge"""
    import epgpy as epg
    for i in range(ncases):
        dim = ctx.rng.choice([1, 2, 3])
        grid = ctx.rng.choice([2.0, 3.0, 4.0])
        steps = []
        for _ in range(ctx.rng.randint(2, 4)):                       # fine phase: integer n-D shifts (spacing 1 < grid)
            v = [ctx.rng.choice([1, -1, 2, 0]) for _ in range(dim)]
            v[0] = v[0] or 1
            steps.append(("int", v))
        for _ in range(ctx.rng.randint(1, 3)):                       # hand-over: float shifts on the coarse grid
            steps.append(("float", [ctx.rng.choice([1.0, 0.5, -1.5, 2.5]) for _ in range(dim)]))
        sm = epg.StateMatrix(kgrid=grid)
        desc = []
        try:
            for kind, v in steps:
                a, p = ctx.rng.choice([30, 60, 90, 120]), ctx.rng.choice([0, 40, 90])
                sm = epg.T(a, p)(sm, inplace=True)
                sm = epg.E(5, 800, 60, 0.01)(sm, inplace=True)
                f0, z0 = np.sum(sm.F), np.sum(sm.Z)
                op = epg.S(np.array(v if kind == "float" else [int(x) for x in v]), prune=0)
                sm = op(sm, inplace=True)
                desc.append((kind, v, a, p))
                f1, z1 = np.sum(sm.F), np.sum(sm.Z)
                if abs(f1 - f0) > 1e-10 or abs(z1 - z0) > 1e-10:
                    ctx.report("a %s shift %s changed the value reconstructed at position 0: sum F+ %s -> %s, sum Z %s -> %s (kgrid=%s)"
                               % (kind, v, f0, f1, z0, z1, grid), {"steps": desc, "kgrid": grid}, found_input=True,
                               signature={"why": "position-0-not-preserved", "kind": kind})
                    break
        except Exception as e:
            ctx.report("grid hand-over sequence raised %s: %s" % (type(e).__name__, str(e)[:200]), {"steps": desc, "kgrid": grid}, found_input=True,
                       signature={"raises": type(e).__name__, "site": "merge-handover"})
            continue
        ctx.count(("sum", repr(steps), grid))
        ctx.cov["oracle_runs"] = ctx.cov.get("oracle_runs", 0) + 1


def run_ndecho_oracle(ctx, ncases):
    """n-D truncation with OBLIQUE shifts: the shift vector has two or three non-zero components and is applied
    cap times out and cap times back (accumulated shift per component = 2*cap <= 2*cap+1), so the corner
    states (cap, cap[, cap]) are populated, must be kept (every component <= cap) and return to the origin:
    every acquisition must equal the untruncated simulation; no kept index may exceed the cap in any component"""
    import epgpy as epg
    for i in range(ncases):
        dim = ctx.rng.choice([2, 3])
        cap = ctx.rng.choice([1, 2, 3])
        v = [ctx.rng.choice([1, -1]) for _ in range(dim)]
        if dim == 3 and ctx.rng.random() < 0.4:
            v[ctx.rng.randrange(3)] = 0
        m = cap if ctx.rng.random() < 0.7 else max(1, cap - 1)
        angles = [(float(ctx.rng.choice([30, 50, 70, 110, 140])), float(ctx.rng.choice([0, 33, 90, 200]))) for _ in range(2 * m + 1)]
        how = ctx.rng.choice(["max_nstate", "nmax"])

        def build(capped):
            seq = [epg.T(*angles[0])]
            for j in range(m):
                seq += [epg.S(np.array(v), **({"nmax": cap} if capped and how == "nmax" else {})), epg.E(3.0, 900.0, 60.0, 0.01), epg.T(*angles[1 + j]), epg.ADC]
            for j in range(m):
                seq += [epg.S(-np.array(v), **({"nmax": cap} if capped and how == "nmax" else {})), epg.T(*angles[1 + m + j]), epg.ADC]
            return seq
        case = {"dim": dim, "cap": cap, "v": v, "m": m, "angles": angles, "how": how}
        try:
            full = np.asarray(epg.simulate(build(False), probe=["F0", "Z0"]))
            opts = {"max_nstate": cap} if how == "max_nstate" else {}
            trunc = np.asarray(epg.simulate(build(True), probe=["F0", "Z0"], **opts))
            sm = epg.StateMatrix(**opts)
            maxidx = 0
            for o in build(True):
                if isinstance(o, epg.operator.Operator) and not isinstance(o, epg.probe.Probe):
                    sm = o(sm, inplace=True)
                    if sm.coords is not None:
                        maxidx = max(maxidx, int(np.abs(np.asarray(sm.coords)).max()))
        except Exception as e:
            ctx.report("n-D echo with cap raised %s: %s" % (type(e).__name__, str(e)[:200]), {"ndecho": case}, found_input=True,
                       signature={"raises": type(e).__name__, "nd": "echo"})
            continue
        ctx.count(("ndecho", repr(case)))
        ctx.cov["oracle_runs"] = ctx.cov.get("oracle_runs", 0) + 1
        if maxidx > cap:
            ctx.report("a kept wavenumber index %d exceeds the cap %d" % (maxidx, cap), {"ndecho": case}, found_input=True, signature={"why": "cap-exceeded", "nd": "echo"})
        err = np.abs(full - trunc).max()
        if err > 1e-12:
            ctx.report("oblique n-D shifts %s x%d out and back under cap %d (%s): acquisitions differ from the untruncated simulation by %.3g although the accumulated shift per component is %d <= 2*cap+1"
                       % (v, m, cap, how, err, 2 * m), {"ndecho": case}, found_input=True, signature={"why": "horizon", "nd": "echo"})


def run_pruner_oracle(ctx, ncases):
    """partials pruner (simulate(callback=PartialsPruner(threshold))): every Jacobian entry stays within
    2 * threshold * (removals so far) of the unpruned one (operators are contractions; the norm weighs F by 1/2);
    batches: a partial may only be removed when it is negligible for EVERY batch entry"""
    import epgpy as epg
    from epgpy import diff

    class Counting(diff.PartialsPruner):
        removed = 0
        def __call__(self, sm):
            n0 = len(getattr(sm, "order1", {}))
            super().__call__(sm)
            self.removed += n0 - len(getattr(sm, "order1", {}))
    for i in range(ncases):
        thr = ctx.rng.choice([1e-3, 1e-4, 1e-6])
        nb = ctx.rng.choice([1, 2, 3])
        T2 = [ctx.rng.choice([60.0, 0.02, 0.5, 200.0]) for _ in range(nb)]
        if nb > 1 and ctx.rng.random() < 0.6:
            T2[0], T2[1] = 60.0, 0.02        # one entry keeps its derivative, another loses it
        T1 = [ctx.rng.choice([800.0, 0.05, 5.0]) for _ in range(nb)]
        n = ctx.rng.randint(3, 8)
        alpha, tau = float(ctx.rng.choice([20, 60, 90])), float(ctx.rng.choice([5.0, 20.0]))
        case = {"thr": thr, "T2": T2, "T1": T1, "n": n, "alpha": alpha, "tau": tau}

        early = ctx.rng.random() < 0.35       # a differentiated delay BEFORE the excitation: its partial is zero, then grows
        case["early"] = early

        def build():
            seq = ([epg.E(tau, np.array(T1), np.array(T2), order1="T2")] if early else []) + \
                  [epg.T(alpha, 90, order1="alpha"), epg.E(tau, np.array(T1), np.array(T2), order1="T2"), epg.ADC]
            for j in range(n):
                seq += [epg.T(30.0 + 10 * j, 0.0), epg.S(1), epg.E(tau, np.array(T1), np.array(T2)), epg.ADC]
            return seq
        try:
            probe = epg.Jacobian(["alpha", "T2"])
            ref = np.asarray(epg.simulate(build(), probe=probe))
            pr = Counting(condition=thr)
            got = np.asarray(epg.simulate(build(), probe=probe, callback=pr))
            # the same pruner object used for a second simulation must behave like a fresh one
            rem1 = pr.removed
            got2 = np.asarray(epg.simulate(build(), probe=probe, callback=pr))
            if got2.shape != got.shape or np.abs(got2 - got).max() > 2 * thr * max(pr.removed - rem1, rem1) + 1e-12:
                ctx.report("a PartialsPruner object reused for a second simulate() gives a different Jacobian (max change %.3g)" % (
                    np.abs(got2 - got).max() if got2.shape == got.shape else float("inf")), {"pruner": case}, found_input=True,
                    signature={"why": "pruner-reuse"})
        except Exception as e:
            ctx.report("simulation with a partials pruner raised %s: %s" % (type(e).__name__, str(e)[:200]), {"pruner": case}, found_input=True,
                       signature={"raises": type(e).__name__, "site": "PartialsPruner"})
            continue
        ctx.count(("pruner", repr(case)), nontrivial=pr.removed > 0)
        ctx.cov["oracle_runs"] = ctx.cov.get("oracle_runs", 0) + 1
        ctx.cov["pruner_removals"] = ctx.cov.get("pruner_removals", 0) + pr.removed
        err = np.abs(ref - got).max() if ref.shape == got.shape else np.inf
        if err > 2 * thr * max(pr.removed, 0) + 1e-12:
            ctx.report("partials pruner (threshold %g, %d removals) changed a Jacobian entry by %.3g > 2*threshold*removals" % (thr, pr.removed, err),
                       {"pruner": case}, found_input=True, signature={"why": "pruner-bound"})


def run(ctx):
    proved = ctx.prove(gen=False)
    quick = ctx.tier == "quick"
    # exact correspondence of truncated 1-D programs (the model the theorems are about)
    terms, kept = [], []
    for i in range(80 if quick else 2500):
        p = prog.gen_program(ctx.rng, maxlen=10, kinds=["scalar", "matrix", "shift", "shift", "shift", "reset", "wait"], init_p=0.2,
                             nmax_p=0.5, global_nmax_p=0.4)
        try:
            snaps = prog.run_impl(p, inplace=True)
        except Exception as e:
            ctx.report("implementation raised %s on a valid program: %s" % (type(e).__name__, e), {"case": p}, found_input=True, signature={"raises": type(e).__name__})
            continue
        terms.append("(trace_ok %s %s %s)" % (prog.c_ops(p), prog.c_sm(snaps[0]), core.clist([prog.c_sm(s) for s in snaps[1:]])))
        kept.append(p)
        ctx.count(repr(p), nontrivial=any(o["op"] == "shift" for o in p["ops"]))
        ctx.sample({"program": prog.signature(p), "max_nstate": p["max_nstate"], "nmax": [o.get("nmax") for o in p["ops"] if o["op"] == "shift"]})
    verdicts, errors = ctx.run_bool_cases("corr", prog.HEADER, terms, chunk=10)
    for e in errors:
        ctx.report("correspondence shard failed to evaluate", {"theorem_or_correspondence": "C13 correspondence (Cases)", "coq_output": e}, found_input=False)
    nb = 0
    for p, v in zip(kept, verdicts):
        if v is False and nb < 3:
            nb += 1
            ctx.report("truncated-shift model (Model/Ops.v apply_shift) and shift.py disagree", {"case": p, "theorem_or_correspondence": "C13 correspondence Model/Ops.v vs epgpy"}, found_input=False)
    run_trunc_oracle(ctx, 30 if quick else 1500)
    run_ndecho_oracle(ctx, 20 if quick else 600)
    run_pruner_oracle(ctx, 15 if quick else 500)
    run_prune_oracle(ctx, 30 if quick else 600)
    run_merge_oracle(ctx, 12 if quick else 400)
    run_kvalue_oracle(ctx, 12 if quick else 400)
    run_sum_invariant_oracle(ctx, 25 if quick else 800)
    ctx.cov["trusted_base"] += ["hand-written model Model/Ops.v tied to shift.py by exact correspondence of truncated programs",
                                "n-D truncation, pruning, partials pruner and merging clauses: implementation-side oracle runs only (testing)"]
    if not proved:
        ctx.report("proof obligations of C13 no longer check: %s" % ctx.failed_obligations, {"theorem_or_correspondence": ctx.failed_obligations}, found_input=bool(ctx.violations))


def replay(ctx, rp):
    print("replay:", rp.get("what"))
    return 1
