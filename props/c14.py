"""C14 — Lossless operators are isometries, dissipative ones are contractions.

Proof side: Props/C14.v (Model/Norms.v, Proofs/NormsProofs.v) over the GENERATED coefficient arrays.
Implementation side (supporting evidence and the failing-input search; tolerance 1e-10):
  iso      StateMatrix.norm before/after T, Phi, P, S (1-D, n-D), also batched, on random well-formed states;
           StateMatrix.norm against the independent physical formula sqrt(sum 1/2|F+|^2 + 1/2|F-|^2 + |Z|^2)
  rms      StateMatrix.norm against the RMS magnetisation length of N independently simulated Bloch isochromats
           (textbook Rodrigues rotation / relaxation / dephasing, independent of epgpy; same ensemble as props/c01.py bloch_oracle)
  contract norm of (states - equilibrium) before/after E, SPOILER, D(tau, D >= 0); norm before/after SPOILER, D
  signal   |F0| <= PD and norm <= PD along random sequences of T/Phi/P/E/S/SPOILER/D with T2 <= 2 T1
  info     with T2 > 2 T1 the bound can fail (recorded in the evidence, not a violation)
plus the Interval tie of the operator arrays the theorems are about (T_op, Phi_op, E_op, P_op)."""
import numpy as np
from vlib import core, prog, tie

TOL = 1e-10


# ------------------------------------------------------------------ measurements (independent of utils.get_norm)
def phys_norm(st):
    st = np.asarray(st)
    return np.sqrt((0.5 * np.abs(st[..., 0]) ** 2 + 0.5 * np.abs(st[..., 1]) ** 2 + np.abs(st[..., 2]) ** 2).sum(-1))


def dev_norm(sm):
    st = np.asarray(sm.states)
    eq = np.broadcast_to(np.asarray(sm.equilibrium), st.shape)
    return phys_norm(st - eq)


def f0_abs(sm):
    st = np.asarray(sm.states)
    return np.abs(st[..., sm.nstate, 0])


def close(a, b):
    a, b = np.broadcast_arrays(np.asarray(a, float), np.asarray(b, float))
    return bool(np.all(np.abs(a - b) <= TOL * (1 + np.abs(b))))


def leq(a, b):
    a, b = np.broadcast_arrays(np.asarray(a, float), np.asarray(b, float))
    return bool(np.all(a <= b + TOL * (1 + np.abs(b))))


def env():
    import epgpy as epg
    return {"epg": epg, "np": np}


def enc(rows):
    """complex nested list -> JSON-safe nested [re, im]"""
    a = np.asarray(rows, complex)
    return np.stack([a.real, a.imag], axis=-1).tolist()


def dec(rows):
    a = np.asarray(rows, float)
    return a[..., 0] + 1j * a[..., 1]


def build(case):
    import epgpy as epg
    if case.get("init") is None:
        sm = epg.StateMatrix(density=case["pd"])
    else:
        sm = epg.StateMatrix(dec(case["init"]), density=case["pd"])
    e = env()
    for x in case.get("prefix", []):
        sm = eval(x, e)(sm)
    return sm


def r(rng, lo, hi, nd=3):
    return round(rng.uniform(lo, hi), nd)


# ------------------------------------------------------------------ generators
def gen_state(rng):
    """random well-formed start: exact dyadic arrays (possibly batched) or equilibrium, plus a real prefix"""
    case = {"pd": float(rng.choice([0.5, 1, 1, 1.5, 2])), "init": None, "prefix": []}
    u = rng.random()
    if u < 0.55:
        n = rng.choice([0, 1, 2, 3])
        if rng.random() < 0.25:
            case["init"] = enc([prog.gen_init(rng, n), prog.gen_init(rng, n)])
            case["pd"] = [case["pd"], float(rng.choice([0.5, 1, 2]))]
        else:
            case["init"] = enc(prog.gen_init(rng, n))
    nd = rng.random() < 0.35
    dim = rng.choice([2, 3])
    for _ in range(rng.randint(0, 3) if case["init"] is not None and not nd else rng.randint(1, 4)):
        case["prefix"].append("epg.T(%s, %s)" % (r(rng, 5, 175), r(rng, -180, 180)))
        if nd:
            v = [rng.choice([0, 1, -1, 2]) for _ in range(dim)]
            v[0] = v[0] or 1
            case["prefix"].append("epg.S(np.array(%s))" % v)
        else:
            case["prefix"].append("epg.S(%d)" % rng.choice([1, 1, 2, -1]))
        if rng.random() < 0.6:
            case["prefix"].append("epg.E(%s, %s, %s, %s)" % (r(rng, 1, 30), r(rng, 300, 2000), r(rng, 20, 200), r(rng, -0.05, 0.05, 4)))
    case["nd"] = dim if nd else 0
    return case


def gen_iso(rng):
    case = gen_state(rng)
    k = rng.choice(["T", "T", "Tb", "Phi", "P", "S", "S", "S"])
    if k == "T":
        op = "epg.T(%s, %s)" % (r(rng, -360, 360), r(rng, -360, 360))
    elif k == "Tb":
        op = "epg.T([%s, %s, %s], %s)" % (r(rng, -360, 360), r(rng, 0, 180), r(rng, 0, 180), r(rng, -360, 360))
        if isinstance(case["pd"], list):
            op = "epg.T([%s, %s], %s)" % (r(rng, -360, 360), r(rng, 0, 180), r(rng, -360, 360))
    elif k == "Phi":
        op = "epg.Phi(%s)" % r(rng, -360, 360)
    elif k == "P":
        op = "epg.P(%s, %s)" % (r(rng, 0, 50), r(rng, -0.2, 0.2, 4))
    elif case["nd"]:
        v = [rng.choice([0, 1, -1, 2, -3]) for _ in range(case["nd"])]
        v[0] = v[0] or 1
        op = "epg.S(np.array(%s))" % v
    else:
        op = "epg.S(%d)" % (rng.choice([1, 2, 3, 5, 9]) * rng.choice([1, -1]))
    case.update({"kind": "iso", "op": op, "opk": k})
    return case


def gen_contract(rng):
    case = gen_state(rng)
    k = rng.choice(["E", "E", "Eb", "SPOILER", "D", "D"])
    if k == "E":
        op = "epg.E(%s, %s, %s, %s)" % (r(rng, 0, 200), r(rng, 50, 3000), r(rng, 5, 3000), r(rng, -0.1, 0.1, 4))
    elif k == "Eb":
        op = "epg.E(%s, [%s, %s], %s)" % (r(rng, 0, 200), r(rng, 50, 3000), r(rng, 50, 3000), r(rng, 5, 300))
        if isinstance(case["pd"], list):
            op = "epg.E(%s, %s, %s)" % (r(rng, 0, 200), r(rng, 50, 3000), r(rng, 5, 300))
    elif k == "SPOILER":
        op = "epg.SPOILER"
    else:
        kk = ""
        if rng.random() < 0.5:
            # D(tau, D, k) must come right after S(k)
            if case["nd"]:
                v = [rng.choice([0, 1, -1, 2]) for _ in range(case["nd"])]
                v[0] = v[0] or 1
                case["prefix"].append("epg.S(np.array(%s))" % v)
                kk = ", k=%s" % v
            else:
                d = rng.choice([1, 2, -1])
                case["prefix"].append("epg.S(%d)" % d)
                kk = ", k=%d" % d
        op = "epg.D(%s, %s%s)" % (r(rng, 0, 100), r(rng, 0, 5), kk)
    case.update({"kind": "contract", "op": op, "opk": k})
    return case


def gen_seq(rng, maxlen, bad_relax=False):
    pd = float(rng.choice([0.5, 1, 1, 2, 3]))
    seq = []
    nd = rng.choice([0, 0, 3])
    for _ in range(rng.randint(2, maxlen)):
        k = rng.choice(["T", "T", "T", "E", "E", "S", "S", "SPOILER", "D", "Phi", "P"])
        if k == "T":
            seq.append("epg.T(%s, %s)" % (r(rng, 0, 180), r(rng, -180, 180)))
        elif k == "Phi":
            seq.append("epg.Phi(%s)" % r(rng, -180, 180))
        elif k == "P":
            seq.append("epg.P(%s, %s)" % (r(rng, 0, 20), r(rng, -0.1, 0.1, 4)))
        elif k == "E":
            T1 = r(rng, 20, 2000)
            T2 = r(rng, 2 * T1, 20 * T1) if bad_relax else r(rng, 1, 2 * T1)
            seq.append("epg.E(%s, %s, %s, %s)" % (r(rng, 0.5, 100), T1, T2, r(rng, -0.05, 0.05, 4)))
        elif k == "S":
            if nd:
                v = [rng.choice([0, 1, -1, 2]) for _ in range(nd)]
                v[0] = v[0] or 1
                seq.append("epg.S(np.array(%s))" % v)
            else:
                seq.append("epg.S(%d)" % rng.choice([1, 1, 2, -1, -2]))
        elif k == "SPOILER":
            seq.append("epg.SPOILER")
        else:
            seq.append("epg.D(%s, %s)" % (r(rng, 0, 50), r(rng, 0, 4)))
    return {"kind": "signal", "pd": pd, "seq": seq}


def gen_rms(rng, maxlen):
    pd = float(rng.choice([0.5, 1, 2]))
    ops = []
    for _ in range(rng.randint(1, maxlen)):
        k = rng.choice(["T", "T", "E", "S", "S", "SPOIL"])
        if k == "T":
            ops.append(["T", r(rng, 0, 180), r(rng, -180, 180)])
        elif k == "E":
            ops.append(["E", r(rng, 0.5, 60), r(rng, 100, 2000), r(rng, 10, 300), r(rng, -0.05, 0.05, 4)])
        elif k == "S":
            ops.append(["S", rng.choice([1, 1, 2, -1])])
        else:
            ops.append(["SPOIL"])
    return {"kind": "rms", "pd": pd, "ops": ops}


# ------------------------------------------------------------------ oracles (each returns None or a description)
def check_iso(case):
    sm0 = build(case)
    sm1 = eval(case["op"], env())(sm0)
    n0, n1 = np.asarray(sm0.norm), np.asarray(sm1.norm)
    if not close(n0, phys_norm(sm0.states)):
        return "StateMatrix.norm %s differs from sqrt(sum 1/2|F+|^2+1/2|F-|^2+|Z|^2) = %s on a well-formed state" % (n0.tolist(), phys_norm(sm0.states).tolist())
    if not close(n1, phys_norm(sm1.states)):
        return "StateMatrix.norm %s differs from the physical norm %s after %s" % (n1.tolist(), phys_norm(sm1.states).tolist(), case["op"])
    if not close(n1, n0):
        return "norm changed under %s: %s -> %s" % (case["op"], n0.tolist(), n1.tolist())
    return None


def check_contract(case):
    sm0 = build(case)
    sm1 = eval(case["op"], env())(sm0)
    d0, d1 = dev_norm(sm0), dev_norm(sm1)
    if not leq(d1, d0):
        return "norm of (states - equilibrium) increased under %s: %s -> %s" % (case["op"], np.asarray(d0).tolist(), np.asarray(d1).tolist())
    if case["opk"] in ("SPOILER", "D") and not leq(sm1.norm, sm0.norm):
        return "norm increased under %s: %s -> %s" % (case["op"], np.asarray(sm0.norm).tolist(), np.asarray(sm1.norm).tolist())
    return None


def check_signal(case, strict=True):
    """returns (problem, max |F0| / PD)"""
    import epgpy as epg
    e = env()
    pd = case["pd"]
    sm = epg.StateMatrix(density=pd)
    worst = 0.0
    for i, x in enumerate(case["seq"]):
        sm = eval(x, e)(sm)
        f0, nm = float(np.max(f0_abs(sm))), float(np.max(np.asarray(sm.norm)))
        worst = max(worst, f0 / pd)
        if strict and not leq(f0, pd):
            return "|F0| = %.12g exceeds PD = %s after %s" % (f0, pd, case["seq"][:i + 1]), worst
        if strict and not leq(nm, pd):
            return "norm %.12g exceeds PD = %s after %s" % (nm, pd, case["seq"][:i + 1]), worst
    # the public entry point
    seq = []
    for x in case["seq"]:
        seq += [eval(x, e), epg.ADC]
    vals = np.abs(np.asarray(epg.simulate(seq, init=epg.StateMatrix(density=pd))))
    worst = max(worst, float(vals.max()) / pd)
    if strict and not leq(vals.max(), pd):
        return "|simulate(seq)| = %.12g exceeds PD = %s for %s" % (vals.max(), pd, case["seq"]), worst
    return None, worst


def isochromats(case, N):
    """textbook Bloch simulation of N isochromats with dephasing factors z_j = exp(2 pi i j / N); independent of epgpy"""
    z = np.exp(2j * np.pi * np.arange(N) / N)
    pd = case["pd"]
    mx, my, mz = np.zeros(N), np.zeros(N), np.full(N, float(pd))
    for o in case["ops"]:
        if o[0] == "T":
            a, p = np.deg2rad(o[1]), np.deg2rad(o[2])
            nx, ny = np.cos(p), np.sin(p)
            nv = nx * mx + ny * my
            mx, my, mz = (mx * np.cos(a) + ny * mz * np.sin(a) + nx * nv * (1 - np.cos(a)),
                          my * np.cos(a) - nx * mz * np.sin(a) + ny * nv * (1 - np.cos(a)),
                          mz * np.cos(a) + (nx * my - ny * mx) * np.sin(a))
        elif o[0] == "E":
            tau, T1, T2, g = o[1:]
            mp = (mx + 1j * my) * np.exp(-tau / T2) * np.exp(2j * np.pi * g * tau)
            mx, my = mp.real, mp.imag
            mz = mz * np.exp(-tau / T1) + pd * (1 - np.exp(-tau / T1))
        elif o[0] == "S":
            mp = (mx + 1j * my) * z ** o[1]
            mx, my = mp.real, mp.imag
        else:
            mx, my = np.zeros(N), np.zeros(N)
    return mx, my, mz


def check_rms(case):
    import epgpy as epg
    sm = epg.StateMatrix(density=case["pd"])
    for o in case["ops"]:
        op = {"T": lambda: epg.T(o[1], o[2]), "E": lambda: epg.E(*o[1:]), "S": lambda: epg.S(o[1]), "SPOIL": lambda: epg.SPOILER}[o[0]]()
        sm = op(sm)
    ntot = sum(abs(o[1]) for o in case["ops"] if o[0] == "S")
    N = 2 * ntot + 3
    mx, my, mz = isochromats(case, N)
    rms = np.sqrt(np.mean(mx ** 2 + my ** 2 + mz ** 2))
    nm = float(np.ravel(sm.norm)[0])
    if not close(nm, rms):
        return "StateMatrix.norm = %.12g but the RMS magnetisation length of %d isochromats is %.12g" % (nm, N, rms)
    return None


CHECKS = {"iso": check_iso, "contract": check_contract, "rms": check_rms, "signal": lambda c: check_signal(c)[0],
          "normcorr": lambda c: check_normcorr(c)}


def run_stream(ctx, name, gen, n):
    bad = 0
    for i in range(n):
        case = gen(ctx.rng)
        try:
            why = CHECKS[case["kind"]](case)
        except Exception as e:
            ctx.report("implementation raised %s on a valid %s case: %s" % (type(e).__name__, name, str(e)[:200]),
                       {"case": case}, found_input=True, signature={"oracle": name, "raises": type(e).__name__})
            bad += 1
            continue
        key = (case.get("op"), case.get("prefix"), case.get("seq"), case.get("ops"), str(case.get("init"))[:200], case["pd"])
        ctx.count(key, nontrivial=True)
        if i < 1:
            ctx.sample({k: v for k, v in case.items() if k != "init"})
        ctx.cov.setdefault("oracle_kinds", {})
        tag = "%s:%s" % (name, case.get("opk", ""))
        ctx.cov["oracle_kinds"][tag] = ctx.cov["oracle_kinds"].get(tag, 0) + 1
        if why:
            bad += 1
            if bad <= 3:
                ctx.report(why, {"case": case}, found_input=True, signature={"oracle": name, "op": case.get("opk")})
    return bad


HEADER = prog.HEADER + "From EPG Require Import Norms.\n"


def norm_correspondence(ctx, n):
    """model-vs-implementation, evaluated inside Coq at exact rationals: StateMatrix.norm^2 (binary64, converted exactly)
    against list_norm2 (= code_norm2, theorem C14_code_norm2_list) of the exact dyadic state array"""
    terms, kept = [], []
    for i in range(n):
        if i % 2:
            p = {"pd": 1.0, "init": prog.gen_init(ctx.rng, ctx.rng.choice([0, 1, 2, 3, 4])), "max_nstate": None, "ops": []}
        else:
            p = prog.gen_program(ctx.rng, maxlen=8, kinds=["scalar", "matrix", "shift", "shift", "spoil", "pd"], nmax_p=0.0, global_nmax_p=0.0)
        try:
            sm = prog.init_sm(p)
            for o in p["ops"]:
                sm = prog.build_op(o)(sm, inplace=True)
            obs = float(np.ravel(sm.norm)[0])
        except Exception as e:
            ctx.report("implementation raised %s on a valid program: %s" % (type(e).__name__, e), {"prog": enc_prog(p)},
                       found_input=True, signature={"oracle": "normcorr", "raises": type(e).__name__})
            continue
        st = prog.snapshot(sm)[0]
        terms.append("(norm_obs_ok (Q2Qc (1 # 1000000000000)) (Q2Qc %s) %s)" % (core.qlit(obs), core.clist([prog.c_triple(r) for r in st])))
        kept.append((st, obs))
        ctx.count(("normcorr", str(st)), nontrivial=len(st) > 1)
    verdicts, errors = ctx.run_bool_cases("norm", HEADER, terms, chunk=25)
    for e in errors:
        ctx.report("norm correspondence shard failed to evaluate", {"theorem_or_correspondence": "C14 norm correspondence (Cases)", "coq_output": e}, found_input=False)
    bad = 0
    for (st, obs), v in zip(kept, verdicts):
        if v is False:
            bad += 1
            if bad <= 2:
                ctx.report("StateMatrix.norm = %.15g but sqrt(sum |F-|^2 + |Z|^2) = %.15g on an exact state array" % (obs, float(np.sqrt((np.abs(np.array(st)[:, 1:]) ** 2).sum()))),
                           {"case": {"kind": "normcorr", "states": enc(st), "observed_norm": obs}}, found_input=True, signature={"oracle": "normcorr"})
    ctx.cov["norm_correspondence_cases"] = len(terms)
    return bad


def enc_prog(p):
    return {"signature": prog.signature(p), "pd": p["pd"]}


def check_normcorr(case):
    import epgpy as epg
    st = dec(case["states"])
    sm = epg.StateMatrix(st, density=1.0)
    obs = float(np.ravel(sm.norm)[0])
    ref = float(np.sqrt((np.abs(st[:, 1:]) ** 2).sum()))
    return None if close(obs, ref) else "StateMatrix.norm = %.15g, sqrt(sum |F-|^2 + |Z|^2) = %.15g" % (obs, ref)


def demo_T2_gt_2T1(ctx):
    """information only: with T2 > 2 T1 the norm (hence the attainable signal) can exceed PD"""
    import epgpy as epg
    best = (0, None)
    # 90 degree pulse, relaxation with fast T1 recovery and slow T2 decay, then rotate the vector into the plane
    for tau, T1, T2 in [(10.0, 10.0, 1000.0), (20.0, 15.0, 500.0)]:
        for a in range(0, 181, 5):
            seq = ["epg.T(90, 0)", "epg.E(%s, %s, %s)" % (tau, T1, T2), "epg.T(%d, 0)" % a]
            _, w = check_signal({"pd": 1.0, "seq": seq}, strict=False)
            if w > best[0]:
                best = (w, seq)
    ctx.notes["T2_gt_2T1_demo"] = {"max_abs_F0_over_PD": best[0], "sequence": best[1],
                                   "meaning": "information: the hypothesis T2 <= 2*T1 of C14_signal_le_PD is needed"}
    # random sequences with T2 > 2 T1: how often the bound fails
    nfail = 0
    for _ in range(40):
        case = gen_seq(ctx.rng, 10, bad_relax=True)
        try:
            _, w = check_signal(case, strict=False)
        except Exception:
            continue
        nfail += w > 1 + 1e-9
    ctx.notes["T2_gt_2T1_demo"]["random_sequences_exceeding_PD"] = "%d / 40" % nfail


def run(ctx):
    proved = ctx.prove(gen=True)
    quick = ctx.tier == "quick"
    # tie no. 3: the generated arrays the theorems are about vs the implementation's numbers
    ents = [e for e in tie.transition_entries() if e[0] in ("rotation_operator", "rotation_phi")]
    ents += [e for e in tie.evolution_entries() if e[0] in ("precession_operator", "relaxation_operator")]
    ents += [e for e in tie.glue_entries() if e[0] in ("T_op", "Phi_op", "E_op", "P_op")]
    nok, nbad = tie.run(ctx, ents, 3 if quick else 40)
    n = 1 if quick else 10
    nb = 0
    nb += run_stream(ctx, "iso", gen_iso, 800 * n)
    nb += run_stream(ctx, "contract", gen_contract, 800 * n)
    nb += run_stream(ctx, "rms", lambda rng: gen_rms(rng, 10), 400 * n)
    nb += run_stream(ctx, "signal", lambda rng: gen_seq(rng, 12), 500 * n)
    nb += norm_correspondence(ctx, 100 if quick else 2000)
    try:
        demo_T2_gt_2T1(ctx)
    except Exception as e:
        ctx.notes["T2_gt_2T1_demo"] = "not run: %s" % e
    ctx.cov["trusted_base"] += [
        "translator /verif/translator (Python ast -> Gen/Transition.v, Gen/Evolution.v), validated by the Interval tie at %d function-points" % nok,
        "hand-written model Model/State.v, Model/Ops.v (tied to epgpy by the exact correspondences of C01/C08), Model/Diffusion.v d_apply (C05), Model/Norms.v",
        "utils.get_norm = sqrt(code_norm2): tied by evaluating list_norm2 (= code_norm2, C14_code_norm2_list) inside Coq at the exact state arrays against StateMatrix.norm (relative 1e-12), and by the iso/rms oracles",
        "diffusion: the theorems take the per-state attenuation factors as functions with values in [0,1]; C14_diff1d_valid shows it for the generated 1-D formulas, C05 for 3-D tensors",
        "Coquelicot library; axioms as printed by Print Assumptions (classical reals, functional extensionality, classic)"]
    ctx.notes["scope"] = ("proved for the 1-D model (Model/Ops.v) at K = C with the generated T/Phi/P/E arrays; shifts untruncated; diffusion in "
                          "abstract form (factors in [0,1]); n-D shifts, batching and the float get_norm are covered by the oracles only")
    if not proved and nb == 0:
        ctx.report("proof obligations of C14 no longer check: %s" % ctx.failed_obligations,
                   {"theorem_or_correspondence": ctx.failed_obligations}, found_input=False)


def replay(ctx, rp):
    case = rp.get("case")
    if not case or case.get("kind") not in CHECKS:
        print("replay: not an input replay (%s)" % rp.get("what"))
        return 1
    why = CHECKS[case["kind"]](case)
    print("replay:", ("VIOLATION reproduced: " + why) if why else "no discrepancy")
    return 1 if why else 0
