"""C14 — Lossless operators are isometries, dissipative ones are contractions.

Proof side: Props/C14.v (Model/Norms.v, Proofs/NormsProofs.v) over the GENERATED coefficient arrays.
Implementation side (supporting evidence and the failing-input search; tolerance 1e-10):
  iso      StateMatrix.norm before/after T, Phi, P, S (1-D, n-D), also batched, on random well-formed states;
           StateMatrix.norm against the independent physical formula sqrt(sum 1/2|F+|^2 + 1/2|F-|^2 + |Z|^2)
  rms      StateMatrix.norm against the RMS magnetisation length of N independently simulated Bloch isochromats
           (textbook Rodrigues rotation / relaxation / dephasing, independent of epgpy; same ensemble as props/c01.py bloch_oracle)
  contract norm of (states - equilibrium) before/after E, SPOILER, D(tau, D >= 0); norm before/after SPOILER, D
  signal   |F0| <= PD and norm <= PD along random sequences of T/Phi/P/E/S/SPOILER/D with T2 <= 2 T1
  ndcap    n-D INTEGER shifts (vector k, scalar int on existing coordinates, C) with max_nstate / nmax drawn from
           {reached index, +1, -1 (truncating: only norm <= RMS), None}: norm == RMS length and F0 == mean of an n-D Bloch
           ensemble; conjugate symmetry, |F0| <= PD, norm <= PD after every step
  bfloat   BATCHED float gradients (k of shape (B > 1, d): shift-prune, kgrid) on non-real transverse states (generic RF
           phases, precession), >= 3 rounds: same checks per batch entry
  ndbatch  n-D integer shifts with DEFAULT pruning on batches whose entries have different sparsity (batched pulses with
           180 / 0 / 90 degrees in one entry and generic angles in the others, batched relaxation): norm == ensemble RMS and
           F0 == ensemble mean per entry after EVERY operator, and equality (norm, F0, every phase state) with scalar re-runs
  kfloat   float shifts with kvalue in {10, 2.5, 0.1} and kgrid in {1, 0.5, 1e-3} rad/m, each an exact multiple of j*kgrid rad/m
           (non-merging) written in coordinate units (0.7, 0.35, 1.3 ...), unbatched (shift-merge) and batched (shift-prune),
           >= 2 shifts with generic-phase pulses in between: norm == ensemble RMS, F0 == ensemble mean after every operator,
           and equality (norm, F0, every phase state) with the equivalent integer-shift run (1-d and n-d integer paths)
  inplace  chains of op(sm, inplace=True) directly on a freshly built StateMatrix / right after PD (scalar and batched density):
           equilibrium array untouched, E / SPOILER contract the deviation from (0,0,PD) (0 stays 0), norm and F0 == ensemble,
           closed forms of T,E, equality with the out-of-place run after every step
  diffk    S(k) then D(tau, D, k=k) (scalar / vector k, 1-D and n-D coordinates, kvalue 1..1000) on systems at rest and on general
           states: Z(k=0) unchanged (b = 0), deviation from equilibrium and norm do not grow, rest stays rest, conjugate symmetry,
           every coefficient attenuated by a real factor in [0, 1]
  PD(p, reset=True/False) and RESET are placed MID-sequence (after shifts) in the signal, rms, ndcap, bfloat, ndbatch streams;
           bounds are taken w.r.t. the current density, and the state after PD(reset=True) / RESET must BE the equilibrium
  info     with T2 > 2 T1 the bound can fail (recorded in the evidence, not a violation)
plus the Interval tie of the operator arrays the theorems are about (T_op, Phi_op, E_op, P_op)."""
import numpy as np
from vlib import core, prog, tie

TOL = 1e-10


# ------------------------------------------------------------------ measurements (independent of utils.get_norm)
def phys_norm(st):
    st = np.asarray(st)
    return np.sqrt((0.5 * np.abs(st[..., 0]) ** 2 + 0.5 * np.abs(st[..., 1]) ** 2 + np.abs(st[..., 2]) ** 2).sum(-1))


def dev_norm(sm):
    st = np.asarray(sm.states)
    eq = np.broadcast_to(np.asarray(sm.equilibrium), st.shape)
    return phys_norm(st - eq)


def f0_abs(sm):
    st = np.asarray(sm.states)
    return np.abs(st[..., sm.nstate, 0])


def close(a, b):
    a, b = np.broadcast_arrays(np.asarray(a, float), np.asarray(b, float))
    return bool(np.all(np.abs(a - b) <= TOL * (1 + np.abs(b))))


def leq(a, b):
    a, b = np.broadcast_arrays(np.asarray(a, float), np.asarray(b, float))
    return bool(np.all(a <= b + TOL * (1 + np.abs(b))))


def env():
    import epgpy as epg
    return {"epg": epg, "np": np}


def enc(rows):
    """complex nested list -> JSON-safe nested [re, im]"""
    a = np.asarray(rows, complex)
    return np.stack([a.real, a.imag], axis=-1).tolist()


def dec(rows):
    a = np.asarray(rows, float)
    return a[..., 0] + 1j * a[..., 1]


def build(case):
    import epgpy as epg
    if case.get("init") is None:
        sm = epg.StateMatrix(density=case["pd"])
    else:
        sm = epg.StateMatrix(dec(case["init"]), density=case["pd"])
    e = env()
    for x in case.get("prefix", []):
        sm = eval(x, e)(sm)
    return sm


def r(rng, lo, hi, nd=3):
    return round(rng.uniform(lo, hi), nd)


# ------------------------------------------------------------------ generators
def gen_state(rng):
    """random well-formed start: exact dyadic arrays (possibly batched) or equilibrium, plus a real prefix"""
    case = {"pd": float(rng.choice([0.5, 1, 1, 1.5, 2])), "init": None, "prefix": []}
    u = rng.random()
    if u < 0.55:
        n = rng.choice([0, 1, 2, 3])
        if rng.random() < 0.25:
            case["init"] = enc([prog.gen_init(rng, n), prog.gen_init(rng, n)])
            case["pd"] = [case["pd"], float(rng.choice([0.5, 1, 2]))]
        else:
            case["init"] = enc(prog.gen_init(rng, n))
    nd = rng.random() < 0.35
    dim = rng.choice([2, 3])
    for _ in range(rng.randint(0, 3) if case["init"] is not None and not nd else rng.randint(1, 4)):
        case["prefix"].append("epg.T(%s, %s)" % (r(rng, 5, 175), r(rng, -180, 180)))
        if nd:
            v = [rng.choice([0, 1, -1, 2]) for _ in range(dim)]
            v[0] = v[0] or 1
            case["prefix"].append("epg.S(np.array(%s))" % v)
        else:
            case["prefix"].append("epg.S(%d)" % rng.choice([1, 1, 2, -1]))
        if rng.random() < 0.6:
            case["prefix"].append("epg.E(%s, %s, %s, %s)" % (r(rng, 1, 30), r(rng, 300, 2000), r(rng, 20, 200), r(rng, -0.05, 0.05, 4)))
    case["nd"] = dim if nd else 0
    return case


def gen_iso(rng):
    case = gen_state(rng)
    k = rng.choice(["T", "T", "Tb", "Phi", "P", "S", "S", "S"])
    if k == "T":
        op = "epg.T(%s, %s)" % (r(rng, -360, 360), r(rng, -360, 360))
    elif k == "Tb":
        op = "epg.T([%s, %s, %s], %s)" % (r(rng, -360, 360), r(rng, 0, 180), r(rng, 0, 180), r(rng, -360, 360))
        if isinstance(case["pd"], list):
            op = "epg.T([%s, %s], %s)" % (r(rng, -360, 360), r(rng, 0, 180), r(rng, -360, 360))
    elif k == "Phi":
        op = "epg.Phi(%s)" % r(rng, -360, 360)
    elif k == "P":
        op = "epg.P(%s, %s)" % (r(rng, 0, 50), r(rng, -0.2, 0.2, 4))
    elif case["nd"]:
        v = [rng.choice([0, 1, -1, 2, -3]) for _ in range(case["nd"])]
        v[0] = v[0] or 1
        op = "epg.S(np.array(%s))" % v
    else:
        op = "epg.S(%d)" % (rng.choice([1, 2, 3, 5, 9]) * rng.choice([1, -1]))
    case.update({"kind": "iso", "op": op, "opk": k})
    return case


def gen_contract(rng):
    case = gen_state(rng)
    k = rng.choice(["E", "E", "Eb", "SPOILER", "D", "D"])
    if k == "E":
        op = "epg.E(%s, %s, %s, %s)" % (r(rng, 0, 200), r(rng, 50, 3000), r(rng, 5, 3000), r(rng, -0.1, 0.1, 4))
    elif k == "Eb":
        op = "epg.E(%s, [%s, %s], %s)" % (r(rng, 0, 200), r(rng, 50, 3000), r(rng, 50, 3000), r(rng, 5, 300))
        if isinstance(case["pd"], list):
            op = "epg.E(%s, %s, %s)" % (r(rng, 0, 200), r(rng, 50, 3000), r(rng, 5, 300))
    elif k == "SPOILER":
        op = "epg.SPOILER"
    else:
        kk = ""
        if rng.random() < 0.5:
            # D(tau, D, k) must come right after S(k)
            if case["nd"]:
                v = [rng.choice([0, 1, -1, 2]) for _ in range(case["nd"])]
                v[0] = v[0] or 1
                case["prefix"].append("epg.S(np.array(%s))" % v)
                kk = ", k=%s" % v
            else:
                d = rng.choice([1, 2, -1])
                case["prefix"].append("epg.S(%d)" % d)
                kk = ", k=%d" % d
        op = "epg.D(%s, %s%s)" % (r(rng, 0, 100), r(rng, 0, 5), kk)
    case.update({"kind": "contract", "op": op, "opk": k})
    return case


def gen_seq(rng, maxlen, bad_relax=False):
    pd = float(rng.choice([0.5, 1, 1, 2, 3]))
    seq = []
    nd = rng.choice([0, 0, 3])
    for _ in range(rng.randint(2, maxlen)):
        k = rng.choice(["T", "T", "T", "E", "E", "S", "S", "SPOILER", "D", "Phi", "P"] + ([] if bad_relax else ["PD", "RESET"]))
        if k == "T":
            seq.append("epg.T(%s, %s)" % (r(rng, 0, 180), r(rng, -180, 180)))
        elif k == "PD":
            seq.append("epg.PD(%s, reset=%s)" % (rng.choice([0.25, 0.5, 1.0, 1.5, 3.0]), rng.random() < 0.6))
        elif k == "RESET":
            seq.append("epg.RESET")
        elif k == "Phi":
            seq.append("epg.Phi(%s)" % r(rng, -180, 180))
        elif k == "P":
            seq.append("epg.P(%s, %s)" % (r(rng, 0, 20), r(rng, -0.1, 0.1, 4)))
        elif k == "E":
            T1 = r(rng, 20, 2000)
            T2 = r(rng, 2 * T1, 20 * T1) if bad_relax else r(rng, 1, 2 * T1)
            seq.append("epg.E(%s, %s, %s, %s)" % (r(rng, 0.5, 100), T1, T2, r(rng, -0.05, 0.05, 4)))
        elif k == "S":
            if nd:
                v = [rng.choice([0, 1, -1, 2]) for _ in range(nd)]
                v[0] = v[0] or 1
                seq.append("epg.S(np.array(%s))" % v)
            else:
                seq.append("epg.S(%d)" % rng.choice([1, 1, 2, -1, -2]))
        elif k == "SPOILER":
            seq.append("epg.SPOILER")
        else:
            seq.append("epg.D(%s, %s)" % (r(rng, 0, 50), r(rng, 0, 4)))
    return {"kind": "signal", "pd": pd, "seq": seq}


def gen_rms(rng, maxlen):
    pd = float(rng.choice([0.5, 1, 2]))
    ops = []
    for _ in range(rng.randint(1, maxlen)):
        k = rng.choice(["T", "T", "T", "E", "S", "S", "S", "SPOIL", "PD", "RESET"])
        if k == "T":
            ops.append(["T", r(rng, 0, 180), r(rng, -180, 180)])
        elif k == "PD":
            ops.append(["PD", rng.choice([0.25, 0.5, 1.5, 3.0]), rng.random() < 0.6])
        elif k == "RESET":
            ops.append(["RESET"])
        elif k == "E":
            ops.append(["E", r(rng, 0.5, 60), r(rng, 100, 2000), r(rng, 10, 300), r(rng, -0.05, 0.05, 4)])
        elif k == "S":
            ops.append(["S", rng.choice([1, 1, 2, -1])])
        else:
            ops.append(["SPOIL"])
    return {"kind": "rms", "pd": pd, "ops": ops}


# ------------------------------------------------------------------ oracles (each returns None or a description)
def check_iso(case):
    sm0 = build(case)
    sm1 = eval(case["op"], env())(sm0)
    n0, n1 = np.asarray(sm0.norm), np.asarray(sm1.norm)
    if not close(n0, phys_norm(sm0.states)):
        return "StateMatrix.norm %s differs from sqrt(sum 1/2|F+|^2+1/2|F-|^2+|Z|^2) = %s on a well-formed state" % (n0.tolist(), phys_norm(sm0.states).tolist())
    if not close(n1, phys_norm(sm1.states)):
        return "StateMatrix.norm %s differs from the physical norm %s after %s" % (n1.tolist(), phys_norm(sm1.states).tolist(), case["op"])
    if not close(n1, n0):
        return "norm changed under %s: %s -> %s" % (case["op"], n0.tolist(), n1.tolist())
    return None


def check_contract(case):
    sm0 = build(case)
    sm1 = eval(case["op"], env())(sm0)
    d0, d1 = dev_norm(sm0), dev_norm(sm1)
    if not leq(d1, d0):
        return "norm of (states - equilibrium) increased under %s: %s -> %s" % (case["op"], np.asarray(d0).tolist(), np.asarray(d1).tolist())
    if case["opk"] in ("SPOILER", "D") and not leq(sm1.norm, sm0.norm):
        return "norm increased under %s: %s -> %s" % (case["op"], np.asarray(sm0.norm).tolist(), np.asarray(sm1.norm).tolist())
    return None


def check_signal(case, strict=True):
    """returns (problem, max |F0| / bound).  The bound follows the density: PD(p, reset=True) and RESET put the state AT
    equilibrium (norm == current density, bound := density); PD(p, reset=False) keeps the states (bound := max(bound, p))"""
    import epgpy as epg
    e = env()
    dens = bound = case["pd"]
    sm = epg.StateMatrix(density=dens)
    worst = 0.0
    bounds = []
    for i, x in enumerate(case["seq"]):
        op = eval(x, e)
        sm = op(sm)
        at_eq = False
        if isinstance(op, epg.PD):
            dens = float(np.ravel(op.pd)[0])
            at_eq = bool(op.reset)
            bound = dens if op.reset else max(bound, dens)
        elif op is epg.RESET:
            at_eq, bound = True, dens
        bounds.append(bound)
        f0, nm = float(np.max(f0_abs(sm))), float(np.max(np.asarray(sm.norm)))
        worst = max(worst, f0 / bound)
        if strict and at_eq and not (close(nm, dens) and close(np.max(dev_norm(sm)), 0)):
            return "state after %s is not the equilibrium of density %s: norm %.12g, |states - equilibrium| %.3g (sequence %s)" % (
                x, dens, nm, float(np.max(dev_norm(sm))), case["seq"][:i + 1]), worst
        if strict and not leq(f0, bound):
            return "|F0| = %.12g exceeds PD = %s after %s" % (f0, bound, case["seq"][:i + 1]), worst
        if strict and not leq(nm, bound):
            return "norm %.12g exceeds PD = %s after %s" % (nm, bound, case["seq"][:i + 1]), worst
    # the public entry point
    seq = []
    for x in case["seq"]:
        seq += [eval(x, e), epg.ADC]
    vals = np.abs(np.asarray(epg.simulate(seq, init=epg.StateMatrix(density=case["pd"])))).reshape(len(bounds), -1).max(axis=1)
    worst = max(worst, float(np.max(vals / np.array(bounds))))
    if strict and not leq(vals, np.array(bounds)):
        return "|simulate(seq)| = %s exceeds the density bound %s for %s" % (vals.tolist(), bounds, case["seq"]), worst
    return None, worst


def isochromats(case, N):
    """textbook Bloch simulation of N isochromats with dephasing factors z_j = exp(2 pi i j / N); independent of epgpy"""
    z = np.exp(2j * np.pi * np.arange(N) / N)
    pd = case["pd"]
    mx, my, mz = np.zeros(N), np.zeros(N), np.full(N, float(pd))
    for o in case["ops"]:
        if o[0] == "T":
            a, p = np.deg2rad(o[1]), np.deg2rad(o[2])
            nx, ny = np.cos(p), np.sin(p)
            nv = nx * mx + ny * my
            mx, my, mz = (mx * np.cos(a) + ny * mz * np.sin(a) + nx * nv * (1 - np.cos(a)),
                          my * np.cos(a) - nx * mz * np.sin(a) + ny * nv * (1 - np.cos(a)),
                          mz * np.cos(a) + (nx * my - ny * mx) * np.sin(a))
        elif o[0] == "E":
            tau, T1, T2, g = o[1:]
            mp = (mx + 1j * my) * np.exp(-tau / T2) * np.exp(2j * np.pi * g * tau)
            mx, my = mp.real, mp.imag
            mz = mz * np.exp(-tau / T1) + pd * (1 - np.exp(-tau / T1))
        elif o[0] == "S":
            mp = (mx + 1j * my) * z ** o[1]
            mx, my = mp.real, mp.imag
        elif o[0] == "PD":
            pd = o[1]
            if o[2]:
                mx, my, mz = np.zeros(N), np.zeros(N), np.full(N, float(pd))
        elif o[0] == "RESET":
            mx, my, mz = np.zeros(N), np.zeros(N), np.full(N, float(pd))
        else:
            mx, my = np.zeros(N), np.zeros(N)
    return mx, my, mz


def check_rms(case):
    import epgpy as epg
    sm = epg.StateMatrix(density=case["pd"])
    for o in case["ops"]:
        op = {"T": lambda: epg.T(o[1], o[2]), "E": lambda: epg.E(*o[1:]), "S": lambda: epg.S(o[1]), "SPOIL": lambda: epg.SPOILER,
              "PD": lambda: epg.PD(o[1], reset=o[2]), "RESET": lambda: epg.RESET}[o[0]]()
        sm = op(sm)
    ntot = sum(abs(o[1]) for o in case["ops"] if o[0] == "S")
    N = 2 * ntot + 3
    mx, my, mz = isochromats(case, N)
    rms = np.sqrt(np.mean(mx ** 2 + my ** 2 + mz ** 2))
    nm = float(np.ravel(sm.norm)[0])
    if not close(nm, rms):
        return "StateMatrix.norm = %.12g but the RMS magnetisation length of %d isochromats is %.12g" % (nm, N, rms)
    return None


# ------------------------------------------------------------------ n-D ensembles: capped integer shifts, batched float gradients
def kvec_of(o, dim):
    """shift vector of one operator of the nd case language, padded to `dim` components"""
    if o[0] == "S":
        v = list(o[1])
    elif o[0] == "Sint":          # scalar int shift on a state matrix that already has coordinates: first axis
        v = [o[1]]
    elif o[0] == "C":             # time-coherence operator: fourth axis
        v = [0, 0, 0, o[1]]
    else:
        return None
    return v + [0] * (dim - len(v))


def nd_dim(ops):
    return max([len(kvec_of(o, 0)) for o in ops if kvec_of(o, 0) is not None] + [1])


def reached(ops, unit=1):
    """per axis: cumulated |shift| in grid units (upper bound of the populated indices; attained when pulses separate the shifts)"""
    dim = nd_dim(ops)
    cum = [0] * dim
    for o in ops:
        v = kvec_of(o, dim)
        if v is not None:
            cum = [c + int(round(abs(x) / unit)) for c, x in zip(cum, v)]
    return cum


def ensemble_nd(ops, pd, unit=1, steps=False):
    """textbook Bloch isochromats on a regular grid of positions covering one full period of every wavenumber (multiples
    of `unit`), fine enough (N > 2 * max index per axis) for the grid means of M and |M|^2 to be exact.
    Returns (RMS length, mean of Mx + i My) at the end, or the list of these after every operator (steps=True)."""
    dim = nd_dim(ops)
    cum = reached(ops, unit)
    axes = [2 * np.pi / unit * np.arange(2 * c + 3) / (2 * c + 3) for c in cum]
    X = np.stack(np.meshgrid(*axes, indexing="ij"), axis=-1).reshape(-1, dim)
    n = X.shape[0]
    mp, mz = np.zeros(n, complex), np.full(n, float(pd))
    out = []
    for o in ops:
        if o[0] == "T":
            a, ph = np.deg2rad(o[1]), np.deg2rad(o[2])
            mx, my = mp.real, mp.imag
            nx, ny = np.cos(ph), np.sin(ph)
            nv = nx * mx + ny * my
            x = mx * np.cos(a) + ny * mz * np.sin(a) + nx * nv * (1 - np.cos(a))
            y = my * np.cos(a) - nx * mz * np.sin(a) + ny * nv * (1 - np.cos(a))
            mz = mz * np.cos(a) + (nx * my - ny * mx) * np.sin(a)
            mp = x + 1j * y
        elif o[0] == "P":
            mp = mp * np.exp(2j * np.pi * o[2] * o[1])
        elif o[0] == "E":
            tau, T1, T2, g = o[1:]
            mp = mp * np.exp(-tau / T2) * np.exp(2j * np.pi * g * tau)
            mz = mz * np.exp(-tau / T1) + pd * (1 - np.exp(-tau / T1))
        elif o[0] == "SPOIL":
            mp = np.zeros(n, complex)
        elif o[0] == "PD":
            pd = o[1]
            if o[2]:
                mp, mz = np.zeros(n, complex), np.full(n, float(pd))
        elif o[0] == "RESET":
            mp, mz = np.zeros(n, complex), np.full(n, float(pd))
        else:
            mp = mp * np.exp(1j * (X @ np.array(kvec_of(o, dim), float)))
        if steps:
            out.append((float(np.sqrt(np.mean(np.abs(mp) ** 2 + mz ** 2))), complex(np.mean(mp))))
    return out if steps else (float(np.sqrt(np.mean(np.abs(mp) ** 2 + mz ** 2))), complex(np.mean(mp)))


def symmetry_violation(sm):
    """F-(k) = conj F+(-k), Z(-k) = conj Z(k) on the stored arrays (mirror state located through the coordinates)"""
    st = np.asarray(sm.states)
    n2 = st.shape[-2]
    if n2 % 2 != 1:
        return "even number of phase states"
    stf = st.reshape((-1, n2, 3))
    if sm.coords is None:
        mirrors = [np.arange(n2)[::-1]] * stf.shape[0]
    else:
        co = np.asarray(sm.coords)
        co = np.broadcast_to(co, st.shape[:-2] + co.shape[-2:]).reshape((-1,) + co.shape[-2:]) if co.ndim > 2 else co[None]
        if co.shape[0] == 1:
            co = np.broadcast_to(co, (stf.shape[0],) + co.shape[1:])
        mirrors = []
        for b in range(stf.shape[0]):
            if np.abs(np.asarray(co[b], float)[::-1] + np.asarray(co[b], float)).max() <= 1e-9:
                mirrors.append(np.arange(n2)[::-1])      # stored order is mirror symmetric (all shift methods build it so)
                continue
            key = {tuple(np.round(np.asarray(c, float) * 1e6).astype(np.int64).tolist()): i for i, c in enumerate(co[b])}
            m = []
            for i, c in enumerate(co[b]):
                j = key.get(tuple(np.round(-np.asarray(c, float) * 1e6).astype(np.int64).tolist()))
                if j is None:
                    if np.abs(stf[b, i]).max() > 1e-9:
                        return "populated state %s has no mirror state" % np.asarray(c).tolist()
                    j = i
                m.append(j)
            mirrors.append(np.array(m))
    for b in range(stf.shape[0]):
        m = mirrors[b]
        e1 = np.abs(stf[b, :, 1] - stf[b, m, 0].conj()).max()
        e2 = np.abs(stf[b, :, 2] - stf[b, m, 2].conj()).max()
        if max(e1, e2) > 1e-9 * (1 + np.abs(stf[b]).max()):
            return "F-(k) != conj F+(-k) or Z(-k) != conj Z(k) (max deviation %.3g)" % max(e1, e2)
    return None


def nd_build_op(o, nmax=None):
    import epgpy as epg
    kw = {} if nmax is None else {"nmax": nmax}
    k = o[0]
    if k == "T":
        return epg.T(o[1], o[2])
    if k == "P":
        return epg.P(o[1], o[2])
    if k == "E":
        return epg.E(*o[1:])
    if k == "SPOIL":
        return epg.SPOILER
    if k == "S":
        return epg.S(list(o[1]), **kw)
    if k == "Sint":
        return epg.S(int(o[1]), **kw)
    if k == "C":
        return epg.C(int(o[1]), **kw)
    if k == "Sb":
        return epg.S([list(v) for v in o[1]], **kw)
    if k == "Tb":
        return epg.T(list(o[1]), list(o[2]) if isinstance(o[2], list) else o[2])
    if k == "Eb":
        return epg.E(o[1], list(o[2]), list(o[3]), o[4])
    if k == "PD":
        return epg.PD(o[1], reset=bool(o[2]))
    if k == "RESET":
        return epg.RESET
    raise ValueError(k)


def gen_rounds(rng, nrounds, shift, relax_p=0.3, pulse=None, relax=None, reset_p=0.25):
    """[pulse with generic phase, optional precession / relaxation (T2 <= 2 T1), shift] * nrounds, then a last pulse;
    with probability reset_p one PD(p, reset=True/False) or RESET is placed mid-sequence, after phase states exist"""
    pulse = pulse or (lambda: ["T", r(rng, 20, 160), r(rng, -180, 180)])
    ops = []
    at = rng.randint(1, nrounds - 1) if (nrounds > 1 and rng.random() < reset_p) else None
    for i in range(nrounds):
        if i == at:
            ops.append(rng.choice([["PD", rng.choice([0.25, 0.5, 1.5, 3.0]), True], ["PD", rng.choice([0.25, 0.5, 1.5, 3.0]), False], ["RESET"]]))
        ops.append(pulse())
        u = rng.random()
        if u < 0.35:
            ops.append(["P", r(rng, 0.5, 20), r(rng, -0.1, 0.1, 4)])
        elif u < 0.35 + relax_p:
            if relax:
                ops.append(relax())
            else:
                T1 = r(rng, 100, 2000)
                ops.append(["E", r(rng, 0.5, 60), T1, r(rng, 10, 2 * T1), r(rng, -0.05, 0.05, 4)])
        ops.append(shift(i))
    ops.append(pulse())
    return ops


def gen_ndcap(rng):
    """n-D integer shifts (vector k, scalar int on existing coordinates, C) with a cap at / above / below the reached index"""
    fam = rng.choice(["vec", "vec", "vec", "C"])
    dim = 4 if fam == "C" else rng.choice([1, 2, 2, 3])

    def shift(i):
        if fam == "C" and rng.random() < 0.5:
            return ["C", rng.choice([1, 1, 2])]
        if i > 0 and rng.random() < 0.15:
            return ["Sint", rng.choice([1, -1])]
        d = min(dim, 3)
        while True:
            v = [rng.choice([0, 0, 1, 1, -1, 2]) for _ in range(d)]
            if any(v):
                break
        if rng.random() < 0.5:     # the usual sizing: unit shifts along one axis
            v = [rng.choice([1, 1, -1])] + [0] * (d - 1)
        return ["S", v]
    while True:
        ops = gen_rounds(rng, rng.randint(2, 4), shift)
        if [o for o in ops if o[0] in ("S", "C", "Sint")][0][0] == "Sint":
            continue
        cum = reached(ops)
        if np.prod([2 * c + 3 for c in cum]) <= 60000:
            break
    top = max(cum)
    cap = rng.choice([top, top, top, top + 1, top - 1 if top > 1 else top, None])
    return {"kind": "ndcap", "pd": float(rng.choice([0.5, 1, 1, 2])), "ops": ops, "cap": cap, "reached": top,
            "cap_where": rng.choice(["max_nstate", "max_nstate", "nmax"]), "opk": "cap%+d" % (cap - top) if cap is not None else "nocap"}


def gen_bfloat(rng):
    """batched float gradients (k of shape (B > 1, d): shift-prune, kgrid) on non-real transverse states, >= 3 rounds"""
    unit = 0.25
    B, d = rng.choice([2, 2, 3]), rng.choice([1, 2, 2, 3])
    fixed = rng.random() < 0.5
    def draw():
        out = []
        for _ in range(B):
            while True:
                v = [unit * rng.choice([0, 1, 2, 3, -1, -2, 5]) for _ in range(d)]
                if any(v):
                    break
            out.append(v)
        return out
    g0 = draw()
    while True:
        ops = gen_rounds(rng, rng.randint(3, 4), lambda i: ["Sb", g0 if fixed else draw()], relax_p=0.25)
        ok = consistent_coincidences([o[1] for o in ops if o[0] == "Sb"], unit)
        for b in range(B):
            cum = reached(batch_entry(ops, b), unit)
            ok &= np.prod([2 * c + 3 for c in cum]) <= 6000
        if ok:
            break
        g0 = draw()
    return {"kind": "bfloat", "pd": float(rng.choice([0.5, 1, 1, 2])), "ops": ops, "unit": unit, "batch": B,
            "kgrid": rng.choice([1e-3, 1e-5, 1e-6]), "opk": "B%dd%d" % (B, d)}


def consistent_coincidences(grads, unit):
    """non-merging precondition of the batched representation: two pathways (wavenumber sum_i c_i k_i, c_i in {-1,0,1})
    coincide in one batch entry iff they coincide in every batch entry (shift-prune stores one row per joint wavenumber)"""
    import itertools
    G = np.round(np.array(grads, float) / unit).astype(int)      # rounds x batch x dim
    E = np.array([e for e in itertools.product(range(-2, 3), repeat=G.shape[0]) if any(e)])
    zero = ~np.any(np.einsum("er,rbd->ebd", E, G), axis=-1)       # differences x batch
    return bool(np.all(zero.all(axis=1) | ~zero.any(axis=1)))


def batch_entry(ops, b):
    """the unbatched program of batch entry b"""
    out = []
    for o in ops:
        if o[0] == "Sb":
            out.append(["S", o[1][b]])
        elif o[0] == "Tb":
            out.append(["T", o[1][b], o[2][b] if isinstance(o[2], list) else o[2]])
        elif o[0] == "Eb":
            out.append(["E", o[1], o[2][b], o[3][b], o[4]])
        else:
            out.append(o)
    return out


def gen_ndbatch(rng):
    """n-D integer shifts with DEFAULT pruning on a batch whose entries have different sparsity: batched pulses with special
    angles (180 / 0 / 90 in one entry, generic in the others), batched relaxation"""
    B = rng.choice([2, 2, 3])
    dim = rng.choice([1, 2, 3, 3])

    def pulse():
        u = rng.random()
        if u < 0.25:
            return ["T", r(rng, 20, 160), r(rng, -180, 180)]
        al = [r(rng, 20, 160) for _ in range(B)]
        al[rng.randrange(B)] = rng.choice([180, 180, 180, 0, 90])
        if rng.random() < 0.3:
            al[rng.randrange(B)] = rng.choice([180, 0, 90])
        ph = rng.choice([0, 0, 90, r(rng, -180, 180)])
        if rng.random() < 0.3:
            ph = [rng.choice([0, 90, r(rng, -180, 180)]) for _ in range(B)]
        return ["Tb", al, ph]

    def relax():
        T1 = [r(rng, 100, 2000) for _ in range(B)]
        return ["Eb", r(rng, 0.5, 60), T1, [r(rng, 10, 2 * t) for t in T1], r(rng, -0.05, 0.05, 4)]

    def shift(i):
        if i > 0 and rng.random() < 0.15:
            return ["Sint", rng.choice([1, -1])]
        if rng.random() < 0.5:
            return ["S", [rng.choice([1, 1, -1])] + [0] * (dim - 1)]
        while True:
            v = [rng.choice([0, 0, 1, 1, -1, 2]) for _ in range(dim)]
            if any(v):
                return ["S", v]
    while True:
        ops = gen_rounds(rng, rng.randint(2, 4), shift, pulse=pulse, relax=relax)
        if not any(o[0] == "Tb" for o in ops) or [o for o in ops if o[0] in ("S", "Sint")][0][0] == "Sint":
            continue
        if np.prod([2 * c + 3 for c in reached(ops)]) <= 8000:
            break
    return {"kind": "ndbatch", "pd": float(rng.choice([0.5, 1, 1, 2])), "ops": ops, "batch": B, "cap": None, "reached": max(reached(ops)),
            "opk": "B%dd%d" % (B, dim)}


def gen_kfloat(rng):
    """float shifts with kvalue != 1 and a grid given in rad/m: every shift is an exact multiple n * u of u = j * kgrid rad/m
    (non-merging by specification), written in coordinate units as n * u / kvalue (0.7, 0.35, 1.3, 20.0 ...); unbatched
    (shift-merge) and batched (shift-prune); reference: the same program with the integer shifts n"""
    kv, kg = rng.choice([10.0, 10.0, 2.5, 0.1]), rng.choice([1.0, 1.0, 0.5, 1e-3])
    j = rng.choice([1, 2, 3, 7, 7, 13])
    B = rng.choice([1, 1, 1, 2, 3])
    dim = rng.choice([1, 1, 2, 3])

    def vec():
        if rng.random() < 0.5:
            return [rng.choice([1, 1, -1])] + [0] * (dim - 1)
        while True:
            v = [rng.choice([0, 0, 1, 1, -1, 2]) for _ in range(dim)]
            if any(v):
                return v
    fixed = rng.random() < 0.5
    g0 = [vec() for _ in range(B)]
    while True:
        shift = (lambda i: ["S", g0[0] if fixed else vec()]) if B == 1 else (lambda i: ["Sb", g0 if fixed else [vec() for _ in range(B)]])
        ops = gen_rounds(rng, rng.randint(2, 4), shift, relax_p=0.15, reset_p=0.15)
        ok = B == 1 or consistent_coincidences([o[1] for o in ops if o[0] == "Sb"], 1)
        for b in range(B):
            ok = ok and np.prod([2 * c + 3 for c in reached(batch_entry(ops, b))]) <= 6000
        if ok:
            break
        g0 = [vec() for _ in range(B)]
    return {"kind": "kfloat", "pd": float(rng.choice([0.5, 1, 1, 2])), "ops": ops, "batch": B, "kvalue": kv, "kgrid": kg, "u": j * kg,
            "ref1d": dim == 1 and rng.random() < 0.5, "cap": None, "reached": 0, "opk": "%s kv%s kg%s" % ("merge" if B == 1 else "prune", kv, kg)}


def state_map(sm, b, scale=1.0):
    """phase states of batch entry b as {coordinates * scale: (F+, F-, Z)}, empty states dropped"""
    st = np.asarray(sm.states)
    st = np.broadcast_to(st, tuple(sm.shape) + st.shape[-2:]).reshape((-1,) + st.shape[-2:])
    st = st[b if st.shape[0] > 1 else 0]
    n = (st.shape[0] - 1) // 2
    if sm.coords is None:
        co = np.arange(-n, n + 1)[:, None]
    else:
        co = np.asarray(sm.coords)
        co = co.reshape((-1,) + co.shape[-2:])
        co = co[b if co.shape[0] > 1 else 0]
    out = {}
    for c, row in zip(co, st):
        if np.abs(row).max() > 1e-9:
            key = [int(x) for x in np.round(np.asarray(c, float) * scale * 1e6)]
            while key and key[-1] == 0:      # compare across representations of different dimension (1-d / n-d)
                key.pop()
            out[tuple(key)] = out.get(tuple(key), 0) + row
    return out


def check_nd(case):
    """shared by ndcap, bfloat and ndbatch: step the implementation; after EVERY operator: conjugate symmetry, |F0| and norm
    below the density bound, and (unless the cap truncates) norm == RMS length and F0 == mean of the isochromat ensemble,
    per batch entry; for batched pulses also equality with the scalar re-run of every batch entry"""
    import epgpy as epg
    pd, ops = case["pd"], case["ops"]
    cap = case.get("cap")
    kind = case["kind"]
    opts = {}
    if kind == "bfloat":
        opts["kgrid"] = case["kgrid"]
    conv = lambda o: o
    if kind == "kfloat":
        opts.update(kgrid=case["kgrid"], kvalue=case["kvalue"])
        f = case["u"] / case["kvalue"]          # integer multiple n of u rad/m -> coordinate units
        conv = lambda o: ["S", [x * f for x in o[1]]] if o[0] == "S" else (["Sb", [[x * f for x in v] for v in o[1]]] if o[0] == "Sb" else o)
    if cap is not None and case["cap_where"] == "max_nstate":
        opts["max_nstate"] = cap
    nmax = cap if (cap is not None and case["cap_where"] == "nmax") else None
    B = case.get("batch", 1)
    truncating = cap is not None and cap < case["reached"]
    ens = [ensemble_nd(batch_entry(ops, b), pd, case.get("unit", 1), steps=True) for b in range(B)]
    scalar = None
    if kind == "ndbatch":      # scalar re-run of every batch entry
        scalar = [epg.StateMatrix(density=pd, **opts) for b in range(B)]
    elif kind == "kfloat":     # the equivalent integer-shift run of every batch entry (no kvalue, no grid)
        scalar = [epg.StateMatrix(density=pd) for b in range(B)]
    sm = epg.StateMatrix(density=pd, **opts)
    dens = bound = pd
    for i, o in enumerate(ops):
        sm = nd_build_op(conv(o), nmax)(sm)
        if o[0] == "PD":
            dens = o[1]
            bound = dens if o[2] else max(bound, dens)
        elif o[0] == "RESET":
            bound = dens
        where = "after step %d (%s) of %s" % (i, o, ops[:i + 1])
        if kind == "kfloat":
            where += " [StateMatrix(kvalue=%s, kgrid=%s), shifts are the listed integers * %s / %s in coordinate units]" % (
                case["kvalue"], case["kgrid"], case["u"], case["kvalue"])
        why = symmetry_violation(sm)
        if why:
            return "%s %s" % (why, where)
        if not leq(np.max(f0_abs(sm)), bound):
            return "|F0| = %.12g exceeds PD = %s %s" % (np.max(f0_abs(sm)), bound, where)
        if not leq(np.max(np.asarray(sm.norm)), bound):
            return "norm %.12g exceeds PD = %s %s" % (np.max(np.asarray(sm.norm)), bound, where)
        norm = np.broadcast_to(np.ravel(np.asarray(sm.norm)), (B,))
        f0 = np.broadcast_to(np.ravel(np.asarray(sm.states)[..., sm.nstate, 0]), (B,))
        for b in range(B):
            rms, mean = ens[b][i]
            if truncating:
                if i == len(ops) - 1 and not leq(norm[b], rms):
                    return "truncated run has norm %.12g above the ensemble RMS length %.12g" % (norm[b], rms)
                continue
            if not close(norm[b], rms):
                return "norm = %.12g but the RMS magnetisation length of the isochromat ensemble is %.12g (batch entry %d, cap %s, reached index %s) %s" % (
                    norm[b], rms, b, cap, case.get("reached"), where)
            if abs(f0[b] - mean) > 1e-9 * (1 + bound):
                return "F0 = %s but the ensemble mean of Mx + i My is %s (batch entry %d) %s" % (f0[b], mean, b, where)
        if scalar is not None:
            for b in range(B):
                ob = batch_entry([o], b)[0]
                if case.get("ref1d") and ob[0] == "S":
                    ob = ["Sint", ob[1][0]]          # scalar int on a fresh state matrix: the 1-d integer path
                scalar[b] = nd_build_op(ob, nmax)(scalar[b])
                n1, g0 = float(np.ravel(scalar[b].norm)[0]), complex(np.ravel(np.asarray(scalar[b].states)[..., scalar[b].nstate, 0])[0])
                if not close(norm[b], n1) or abs(f0[b] - g0) > 1e-9 * (1 + bound):
                    return "batch entry %d: norm %.12g / F0 %s differ from the scalar / integer-shift re-run (%.12g / %s) %s" % (b, norm[b], f0[b], n1, g0, where)
    if scalar is not None:
        for b in range(B):
            m1, m2 = state_map(sm, b, case["kvalue"] / case["u"] if kind == "kfloat" else 1.0), state_map(scalar[b], 0)
            for k in set(m1) | set(m2):
                d = np.abs(m1.get(k, np.zeros(3)) - m2.get(k, np.zeros(3))).max()
                if d > 1e-9 * (1 + bound):
                    return "batch entry %d: phase state %s differs from the scalar re-run by %.3g (program %s)" % (b, [x / 1e6 for x in k], d, ops)
    return None


# ------------------------------------------------------------------ in-place application chains on fresh state matrices
def gen_inplace(rng):
    """operators applied IN PLACE (op(sm, inplace=True), what simulate() does) directly on a freshly built StateMatrix, or right
    after PD (scalar / batched density): relaxation first (equilibrium is a fixed point), pulse + relaxation (closed forms), shifts"""
    start = rng.choice(["fresh", "fresh", "pd", "pd", "pd_inplace"])
    pd = float(rng.choice([0.5, 1, 1.5, 2]))
    if rng.random() < 0.6 or start != "fresh":
        if rng.random() < 0.75:
            pd = [round(rng.uniform(0.5, 2.0), 3) for _ in range(rng.choice([2, 3]))]
    def relax():
        T1 = r(rng, 80, 1500)
        return ["E", r(rng, 5, 80), T1, r(rng, 10, 2 * T1), r(rng, -0.05, 0.05, 4)]
    ops = []
    lead = rng.choice(["E", "E", "TE", "TE", "any"])
    if lead == "E":
        ops.append(relax())
    elif lead == "TE":
        ops += [["T", r(rng, 5, 175), r(rng, -180, 180)], relax()]
    for _ in range(rng.randint(0, 4)):
        k = rng.choice(["T", "T", "E", "E", "P", "S", "SPOIL"])
        ops.append({"T": lambda: ["T", r(rng, 5, 175), r(rng, -180, 180)], "E": relax, "P": lambda: ["P", r(rng, 0.5, 20), r(rng, -0.1, 0.1, 4)],
                    "S": lambda: ["Sint", rng.choice([1, 1, 2, -1])], "SPOIL": lambda: ["SPOIL"]}[k]())
    return {"kind": "inplace", "start": start, "pd": pd, "ops": ops, "opk": "%s%s:%s" % (start, "_b" if isinstance(pd, list) else "", lead)}


def check_inplace(case):
    import epgpy as epg

    def start():
        pd = case["pd"]
        if case["start"] == "fresh":
            return epg.StateMatrix(density=pd)
        if case["start"] == "pd":
            return epg.PD(pd)(epg.StateMatrix())
        return epg.PD(pd)(epg.StateMatrix(), inplace=True)
    pds = np.atleast_1d(np.asarray(case["pd"], float))
    B = len(pds)
    ops = case["ops"]
    ens = [ensemble_nd(ops, float(p), 1, steps=True) for p in pds]
    sm, ref = start(), start()

    def dev(m):      # deviation from the INTENDED equilibrium (0, 0, pd) in the zero state, not from the stored array
        st = np.array(m.states, complex)
        st = np.broadcast_to(st, (B,) + st.shape[-2:]).copy()
        st[:, m.nstate, 2] -= pds
        return phys_norm(st)
    d_prev = dev(sm)
    if not close(d_prev, 0):
        return "freshly built state matrix (%s, density %s) is not at equilibrium: deviation %s" % (case["start"], case["pd"], d_prev.tolist())
    for i, o in enumerate(ops):
        op = nd_build_op(o)
        sm = op(sm, inplace=True)
        ref = op(ref)                      # out-of-place (copying) run of the same operators
        where = "after step %d of the in-place chain %s on %s (density %s)" % (i, ops[:i + 1], {"fresh": "StateMatrix(density=..)", "pd": "PD(..)(StateMatrix())", "pd_inplace": "PD(..)(StateMatrix(), inplace=True)"}[case["start"]], case["pd"])
        eq = np.array(sm.equilibrium, complex)
        eq = np.broadcast_to(eq, (B,) + eq.shape[-2:])
        want = np.zeros_like(eq)
        want[:, (eq.shape[-2] - 1) // 2, 2] = pds
        if np.abs(eq - want).max() > 1e-12:
            return "the equilibrium array is no longer (0, 0, PD) in the zero state (max deviation %.3g) %s" % (np.abs(eq - want).max(), where)
        d = dev(sm)
        if o[0] in ("E", "SPOIL") and not leq(d, d_prev):
            return "norm of the deviation from equilibrium grows under %s: %s -> %s %s" % (o[0], d_prev.tolist(), d.tolist(), where)
        d_prev = d
        norm = np.broadcast_to(np.ravel(np.asarray(sm.norm)), (B,))
        st = np.asarray(sm.states)
        f0 = np.broadcast_to(np.ravel(st[..., sm.nstate, 0]), (B,))
        z0 = np.broadcast_to(np.ravel(st[..., sm.nstate, 2]), (B,))
        for b in range(B):
            rms, mean = ens[b][i]
            if not close(norm[b], rms) or abs(f0[b] - mean) > 1e-9 * (1 + pds[b]):
                return "norm %.12g / F0 %s differ from the isochromat ensemble (RMS %.12g, mean %s), batch entry %d %s" % (norm[b], f0[b], rms, mean, b, where)
        if [x[0] for x in ops[:i + 1]] == ["T", "E"]:      # closed form
            a, (tau, T1, T2) = np.deg2rad(ops[0][1]), ops[1][1:4]
            zref = pds * (np.cos(a) * np.exp(-tau / T1) + 1 - np.exp(-tau / T1))
            fref = pds * abs(np.sin(a)) * np.exp(-tau / T2)
            if not (close(z0.real, zref) and close(np.abs(f0), fref) and np.abs(z0.imag).max() < 1e-12):
                return "T, E: Z0 = %s, |F0| = %s but PD (cos a E1 + 1 - E1) = %s, PD sin a E2 = %s %s" % (z0.tolist(), np.abs(f0).tolist(), zref.tolist(), fref.tolist(), where)
        a1, a2 = np.asarray(sm.states), np.asarray(ref.states)
        if a1.shape != a2.shape or np.abs(a1 - a2).max() > 1e-10 * (1 + np.abs(a2).max()):
            return "in-place result differs from the out-of-place run (shapes %s / %s%s) %s" % (
                a1.shape, a2.shape, "" if a1.shape != a2.shape else ", max difference %.3g" % np.abs(a1 - a2).max(), where)
    return None


# ------------------------------------------------------------------ diffusion with a gradient argument: D(tau, D, k=...)
def gen_diffk(rng):
    """S(k) then D(tau, D, k=k) on equilibrium and on general states, 1-D and n-D coordinates, scalar / vector k, kvalue scales"""
    pd = float(rng.choice([0.5, 1, 1, 2]))
    kv = rng.choice([1, 50, 300, 1000])
    nd = rng.choice([0, 0, 2, 3])
    prefix = []
    if rng.random() < 0.6:                       # general state; otherwise the system is at rest
        for _ in range(rng.randint(1, 3)):
            prefix.append("epg.T(%s, %s)" % (r(rng, 10, 170), r(rng, -180, 180)))
            if nd:
                v = [rng.choice([0, 1, -1, 2]) for _ in range(nd)]
                v[0] = v[0] or 1
                prefix.append("epg.S(np.array(%s))" % v)
            else:
                prefix.append("epg.S(%d)" % rng.choice([1, 1, 2, -1]))
            if rng.random() < 0.5:
                T1 = r(rng, 100, 2000)
                prefix.append("epg.E(%s, %s, %s, %s)" % (r(rng, 1, 40), T1, r(rng, 10, 2 * T1), r(rng, -0.05, 0.05, 4)))
        if rng.random() < 0.5:
            prefix.append("epg.T(%s, %s)" % (r(rng, 10, 170), r(rng, -180, 180)))
    if nd and rng.random() < 0.6:
        v = [rng.choice([0, 1, -1, 2, 3]) for _ in range(nd)]
        v[0] = v[0] or 1
        shift, kk = "epg.S(np.array(%s))" % v, str(v)
    else:
        d = rng.choice([1, 2, 3, -1, -2])
        kk = str(d)
        # a scalar gradient on n-D coordinates acts along the first axis, like the scalar shift
        shift = "epg.S(%d)" % d if (not nd or prefix) else "epg.S(np.array(%s))" % ([d] + [0] * (nd - 1))
    op = "epg.D(%s, %s, k=%s)" % (r(rng, 1, 100), r(rng, 0.1, 5), kk)
    return {"kind": "diffk", "pd": pd, "kvalue": kv, "prefix": prefix, "shift": shift, "op": op,
            "opk": "%s %s kv%s" % ("rest" if not prefix else "general", "nd" if nd else "1d", kv)}


def check_diffk(case):
    import epgpy as epg
    e = env()
    sm = epg.StateMatrix(density=case["pd"], kvalue=case["kvalue"])
    for x in case["prefix"] + [case["shift"]]:
        sm = eval(x, e)(sm)
    sm1 = eval(case["op"], e)(sm)
    where = "under %s after %s on StateMatrix(density=%s, kvalue=%s)" % (case["op"], case["prefix"] + [case["shift"]], case["pd"], case["kvalue"])
    z0, z1 = np.asarray(sm.states)[..., sm.nstate, 2], np.asarray(sm1.states)[..., sm1.nstate, 2]
    if np.asarray(sm1.states).shape != np.asarray(sm.states).shape:
        return "D changed the number of states %s" % where
    if not close(np.abs(z1 - z0), 0):
        return "the zero-wavenumber longitudinal state (b = 0) changed: Z0 %s -> %s %s" % (np.ravel(z0).tolist(), np.ravel(z1).tolist(), where)
    d0, d1 = dev_norm(sm), dev_norm(sm1)
    if not leq(d1, d0):
        return "norm of (states - equilibrium) increased: %s -> %s %s" % (np.asarray(d0).tolist(), np.asarray(d1).tolist(), where)
    if not case["prefix"] and not close(d1, 0):
        return "a system at rest does not stay at equilibrium: |states - equilibrium| = %s %s" % (np.asarray(d1).tolist(), where)
    if not leq(sm1.norm, sm.norm):
        return "norm increased: %s -> %s %s" % (np.asarray(sm.norm).tolist(), np.asarray(sm1.norm).tolist(), where)
    why = symmetry_violation(sm1)
    if why:
        return "%s %s" % (why, where)
    # every coefficient is attenuated by a real factor in [0, 1]
    a0, a1 = np.asarray(sm.states), np.asarray(sm1.states)
    big = np.abs(a0) > 1e-6
    ratio = a1[big] / a0[big]
    if ratio.size and (np.abs(ratio.imag).max() > 1e-9 or ratio.real.min() < -1e-12 or ratio.real.max() > 1 + 1e-12):
        return "attenuation factors outside [0, 1] (min %.12g, max %.12g, imaginary part %.3g) %s" % (ratio.real.min(), ratio.real.max(), np.abs(ratio.imag).max(), where)
    return None


CHECKS = {"iso": check_iso, "contract": check_contract, "rms": check_rms, "signal": lambda c: check_signal(c)[0],
          "normcorr": lambda c: check_normcorr(c), "ndcap": check_nd, "bfloat": check_nd, "ndbatch": check_nd, "kfloat": check_nd, "inplace": check_inplace, "diffk": check_diffk}


def run_stream(ctx, name, gen, n):
    bad = 0
    for i in range(n):
        case = gen(ctx.rng)
        try:
            why = CHECKS[case["kind"]](case)
        except Exception as e:
            ctx.report("implementation raised %s on a valid %s case: %s" % (type(e).__name__, name, str(e)[:200]),
                       {"case": case}, found_input=True, signature={"oracle": name, "raises": type(e).__name__})
            bad += 1
            continue
        key = (case.get("op"), case.get("prefix"), case.get("seq"), case.get("ops"), str(case.get("init"))[:200], case["pd"])
        ctx.count(key, nontrivial=True)
        if i < 1:
            ctx.sample({k: v for k, v in case.items() if k != "init"})
        ctx.cov.setdefault("oracle_kinds", {})
        tag = "%s:%s" % (name, case.get("opk", ""))
        ctx.cov["oracle_kinds"][tag] = ctx.cov["oracle_kinds"].get(tag, 0) + 1
        if why:
            bad += 1
            if bad <= 3:
                ctx.report(why, {"case": case}, found_input=True, signature={"oracle": name, "op": case.get("opk")})
    return bad


HEADER = prog.HEADER + "From EPG Require Import Norms.\n"


def norm_correspondence(ctx, n):
    """model-vs-implementation, evaluated inside Coq at exact rationals: StateMatrix.norm^2 (binary64, converted exactly)
    against list_norm2 (= code_norm2, theorem C14_code_norm2_list) of the exact dyadic state array"""
    terms, kept = [], []
    for i in range(n):
        if i % 2:
            p = {"pd": 1.0, "init": prog.gen_init(ctx.rng, ctx.rng.choice([0, 1, 2, 3, 4])), "max_nstate": None, "ops": []}
        else:
            p = prog.gen_program(ctx.rng, maxlen=8, kinds=["scalar", "matrix", "shift", "shift", "spoil", "pd"], nmax_p=0.0, global_nmax_p=0.0)
        try:
            sm = prog.init_sm(p)
            for o in p["ops"]:
                sm = prog.build_op(o)(sm, inplace=True)
            obs = float(np.ravel(sm.norm)[0])
        except Exception as e:
            ctx.report("implementation raised %s on a valid program: %s" % (type(e).__name__, e), {"prog": enc_prog(p)},
                       found_input=True, signature={"oracle": "normcorr", "raises": type(e).__name__})
            continue
        st = prog.snapshot(sm)[0]
        terms.append("(norm_obs_ok (Q2Qc (1 # 1000000000000)) (Q2Qc %s) %s)" % (core.qlit(obs), core.clist([prog.c_triple(r) for r in st])))
        kept.append((st, obs))
        ctx.count(("normcorr", str(st)), nontrivial=len(st) > 1)
    verdicts, errors = ctx.run_bool_cases("norm", HEADER, terms, chunk=25)
    for e in errors:
        ctx.report("norm correspondence shard failed to evaluate", {"theorem_or_correspondence": "C14 norm correspondence (Cases)", "coq_output": e}, found_input=False)
    bad = 0
    for (st, obs), v in zip(kept, verdicts):
        if v is False:
            bad += 1
            if bad <= 2:
                ctx.report("StateMatrix.norm = %.15g but sqrt(sum |F-|^2 + |Z|^2) = %.15g on an exact state array" % (obs, float(np.sqrt((np.abs(np.array(st)[:, 1:]) ** 2).sum()))),
                           {"case": {"kind": "normcorr", "states": enc(st), "observed_norm": obs}}, found_input=True, signature={"oracle": "normcorr"})
    ctx.cov["norm_correspondence_cases"] = len(terms)
    return bad


def enc_prog(p):
    return {"signature": prog.signature(p), "pd": p["pd"]}


def check_normcorr(case):
    import epgpy as epg
    st = dec(case["states"])
    sm = epg.StateMatrix(st, density=1.0)
    obs = float(np.ravel(sm.norm)[0])
    ref = float(np.sqrt((np.abs(st[:, 1:]) ** 2).sum()))
    return None if close(obs, ref) else "StateMatrix.norm = %.15g, sqrt(sum |F-|^2 + |Z|^2) = %.15g" % (obs, ref)


def demo_T2_gt_2T1(ctx):
    """information only: with T2 > 2 T1 the norm (hence the attainable signal) can exceed PD"""
    import epgpy as epg
    best = (0, None)
    # 90 degree pulse, relaxation with fast T1 recovery and slow T2 decay, then rotate the vector into the plane
    for tau, T1, T2 in [(10.0, 10.0, 1000.0), (20.0, 15.0, 500.0)]:
        for a in range(0, 181, 5):
            seq = ["epg.T(90, 0)", "epg.E(%s, %s, %s)" % (tau, T1, T2), "epg.T(%d, 0)" % a]
            _, w = check_signal({"pd": 1.0, "seq": seq}, strict=False)
            if w > best[0]:
                best = (w, seq)
    ctx.notes["T2_gt_2T1_demo"] = {"max_abs_F0_over_PD": best[0], "sequence": best[1],
                                   "meaning": "information: the hypothesis T2 <= 2*T1 of C14_signal_le_PD is needed"}
    # random sequences with T2 > 2 T1: how often the bound fails
    nfail = 0
    for _ in range(40):
        case = gen_seq(ctx.rng, 10, bad_relax=True)
        try:
            _, w = check_signal(case, strict=False)
        except Exception:
            continue
        nfail += w > 1 + 1e-9
    ctx.notes["T2_gt_2T1_demo"]["random_sequences_exceeding_PD"] = "%d / 40" % nfail


def run(ctx):
    proved = ctx.prove(gen=True)
    quick = ctx.tier == "quick"
    # tie no. 3: the generated arrays the theorems are about vs the implementation's numbers
    # (T_op := rotation_operator etc. are definitional aliases in Gen; the glue entries call the class constructors)
    ents = [e for e in tie.glue_entries() if e[0] in ("T_op", "Phi_op", "E_op", "P_op")]
    if not quick:
        ents += [e for e in tie.transition_entries() if e[0] in ("rotation_operator", "rotation_phi")]
        ents += [e for e in tie.evolution_entries() if e[0] in ("precession_operator", "relaxation_operator")]
    nok, nbad = tie.run(ctx, ents, 3 if quick else 40)
    n = 1 if quick else 10
    nb = 0
    nb += run_stream(ctx, "iso", gen_iso, 300 * n)
    nb += run_stream(ctx, "contract", gen_contract, 300 * n)
    nb += run_stream(ctx, "rms", lambda rng: gen_rms(rng, 10), 200 * n)
    nb += run_stream(ctx, "signal", lambda rng: gen_seq(rng, 12), 250 * n)
    nb += run_stream(ctx, "ndcap", gen_ndcap, 140 * n)
    nb += run_stream(ctx, "bfloat", gen_bfloat, 40 * n)
    nb += run_stream(ctx, "ndbatch", gen_ndbatch, 100 * n)
    nb += run_stream(ctx, "kfloat", gen_kfloat, 80 * n)
    nb += run_stream(ctx, "inplace", gen_inplace, 150 * n)
    nb += run_stream(ctx, "diffk", gen_diffk, 150 * n)
    nb += norm_correspondence(ctx, 60 if quick else 2000)
    try:
        demo_T2_gt_2T1(ctx)
    except Exception as e:
        ctx.notes["T2_gt_2T1_demo"] = "not run: %s" % e
    ctx.cov["trusted_base"] += [
        "translator /verif/translator (Python ast -> Gen/Transition.v, Gen/Evolution.v), validated by the Interval tie at %d function-points" % nok,
        "hand-written model Model/State.v, Model/Ops.v (tied to epgpy by the exact correspondences of C01/C08), Model/Diffusion.v d_apply (C05), Model/Norms.v",
        "utils.get_norm = sqrt(code_norm2): tied by evaluating list_norm2 (= code_norm2, C14_code_norm2_list) inside Coq at the exact state arrays against StateMatrix.norm (relative 1e-12), and by the iso/rms oracles",
        "diffusion: the theorems take the per-state attenuation factors as functions with values in [0,1]; C14_diff1d_valid shows it for the generated 1-D formulas, C05 for 3-D tensors",
        "Coquelicot library; axioms as printed by Print Assumptions (classical reals, functional extensionality, classic)"]
    ctx.notes["scope"] = ("proved for the 1-D model (Model/Ops.v) at K = C with the generated T/Phi/P/E arrays; shifts untruncated; diffusion in "
                          "abstract form (factors in [0,1]); n-D shifts (integer with max_nstate/nmax at the reached index, batched float "
                          "gradients), batching and the float get_norm are covered by the oracles only. bfloat cases are generated under the "
                          "non-merging precondition: two pathways coincide in one batch entry iff in all (otherwise shift-prune keeps them in "
                          "separate rows and F0 / norm of that entry differ from the ensemble: reported to the lead as an observation)")
    if not proved and nb == 0:
        ctx.report("proof obligations of C14 no longer check: %s" % ctx.failed_obligations,
                   {"theorem_or_correspondence": ctx.failed_obligations}, found_input=False)


def replay(ctx, rp):
    case = rp.get("case")
    if not case or case.get("kind") not in CHECKS:
        print("replay: not an input replay (%s)" % rp.get("what"))
        return 1
    why = CHECKS[case["kind"]](case)
    print("replay:", ("VIOLATION reproduced: " + why) if why else "no discrepancy")
    return 1 if why else 0
