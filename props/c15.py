"""C15 -- Imaging probe: voxel shape, off-resonance / T2' modulation, weights.

(0) fail-closed ast check: the expressions of utils.imaging that the model transcribes (sinc argument scaling,
    modulation, phase) are still the ones Model/Imaging.v was written from.
(a) correspondence: random gradient / time-accumulation sequences; sm.F, sm.k, sm.t are read from the real state
    matrix (probes "F", "k", "t" of the same simulate() call), the model value `img_list` (Model/Imaging.v) is
    evaluated INSIDE Coq by the Interval tactic on the exact binary64 inputs and compared with what
    epg.simulate(..., probe=Imaging(...)) returned, tolerance 1e-9 (1 + |ref|); masks are proved per state.
(b) spec oracle (failing-input search and supporting evidence): 'box' voxel vs the mean of 2001 independently
    simulated Bloch isochromats across the voxel (S(k) -> P(1, k.x / 2 pi), no shift / imaging code involved) and
    vs the 'point' probe at the same positions; imaginary modulation i f vs E/P run with off-resonance g = f.
(c) System(weights / modulation / coords) vs probe arguments.
(d) the same probe instance used for several acquisitions.
"""
import os, ast, re, json
import numpy as np
from fractions import Fraction
from vlib import core
from vlib.tie import rlit

REPO = os.environ.get("EPGPY_REPO", "/repo")
POPS_SIG = {"site": "Imaging._acquire", "why": "pops-options"}

HEADER = """From Coq Require Import Reals List Bool Lra.
From Coquelicot Require Import Coquelicot.
From Interval Require Import Tactic.
From EPG Require Import Scalar CInst Imaging ImagingProofs.
Import ListNotations.
Local Open Scope R_scope.
Ltac sinc_red := repeat match goal with |- context [sinc_np (sinc_arg ?k ?d)] =>
  first [ rewrite (sinc_np_0 (sinc_arg k d)) by (unfold sinc_arg, Rdiv; ring)
        | rewrite (sinc_np_neq (sinc_arg k d)) by (apply sinc_arg_neq0; lra)
        | rewrite (sinc_np_neq (sinc_arg k d)) by (unfold sinc_arg; interval) ] end.
Ltac model_red := rewrite ?img_list_polar;
  cbv beta iota zeta delta [sumC img_polar term_polar amp theta form boxform map2 prodR kdot modre modul_eff wfac
  shape vsize tol timed modul phase weight sF sk st Cmult Cplus RtoC fst snd resolve_cfg resolve
  o_modul o_weight s_modul s_weight kkeepP kdropP mkeepP mdropP keepP]; sinc_red; unfold sinc_arg.
Ltac tie n := tryif assert_succeeds (solve [model_red; repeat split; interval with (i_prec 90)]) then idtac "TIE-OK" n else idtac "TIE-FAIL" n.
"""


# ------------------------------------------------------------------ (0) source expressions
EXPECTED_EXPR = {
    "sinc_arg": "k * voxel_size / 2 / np.pi",
    "mod_re": "xp.exp(xp.abs(t) * modulation.real[..., NAX])",
    "mod_im": "t[..., mmask] * 2 * xp.pi * modulation.imag[..., NAX]",
    "phase": "np.exp(1j * phase * np.pi / 180)",
    "kmask": "xp.any(xp.abs(voxel) > tol, axis=tuple(range(F.ndim - 1)))",
    "mmask": "xp.any(mod > tol, axis=tuple(range(F.ndim - 1)))",
    "im": "(voxel * mod * F) * xp.exp(1j * kpos)",
}


def source_expressions():
    """pull the transcribed expressions out of utils.imaging; None for anything not found"""
    src = open(os.path.join(REPO, "epgpy", "utils.py")).read()
    fn = [n for n in ast.parse(src).body if isinstance(n, ast.FunctionDef) and n.name == "imaging"]
    out = {k: None for k in EXPECTED_EXPR}
    if not fn:
        return out
    for node in ast.walk(fn[0]):
        if isinstance(node, ast.Call) and isinstance(node.func, ast.Attribute) and node.func.attr == "sinc" and node.args:
            out["sinc_arg"] = node.args[0]
        if isinstance(node, ast.Assign) and len(node.targets) == 1 and isinstance(node.targets[0], ast.Name):
            name, val = node.targets[0].id, node.value
            if name == "mod" and isinstance(val, ast.Call) and getattr(val.func, "attr", "") == "exp":
                out["mod_re"] = val
            if name == "freq":
                out["mod_im"] = val
            if name == "mod" and isinstance(val, ast.BinOp) and isinstance(val.right, ast.Call) \
                    and getattr(val.right.func, "attr", "") == "exp":
                out["phase"] = val.right
            if name in ("kmask", "mmask", "im"):
                out[name] = val
    return out


def check_source(ctx):
    found = source_expressions()
    bad = []
    for key, exp in EXPECTED_EXPR.items():
        want = ast.dump(ast.parse(exp, mode="eval").body)
        got = None if found[key] is None else ast.dump(found[key])
        if got != want:
            bad.append({"expression": key, "expected": exp,
                        "found": None if found[key] is None else ast.unparse(found[key])})
    ctx.cov["source_expressions_checked"] = len(EXPECTED_EXPR) - len(bad)
    return bad


# ------------------------------------------------------------------ case language
def build_ops(ops, g=None):
    """g: off-resonance handed to every E / P (oracle); C(tau) is kept"""
    import epgpy as epg
    out = []
    for o in ops:
        if o[0] == "T":
            out.append(epg.T(o[1], o[2]))
        elif o[0] == "S":
            out.append(epg.S(np.array([o[1]], dtype=float)))
        elif o[0] == "Sint":
            out.append(epg.S(int(o[1])))
        elif o[0] == "Sintnd":
            out.append(epg.S(np.array([o[1]], dtype=int)))
        elif o[0] == "Sb":      # batched shift: one row of wavenumbers per batch entry
            out.append(epg.S(np.array(o[1], dtype=float)))
        elif o[0] == "C":       # scalar delay, or one delay per batch entry
            out.append(epg.C([float(v) for v in o[1]] if isinstance(o[1], list) else float(o[1])))
        elif o[0] == "E":
            out.append(epg.E(o[1], o[2], o[3]) if g is None else epg.E(o[1], o[2], o[3], g))
        elif o[0] == "P":
            out.append(epg.P(o[1], o[2]))
        else:
            raise ValueError(o)
    return out


def mk_mod(m):
    if m is None:
        return None
    re_ = np.array(m["re"], dtype=float)
    if m["kind"] == "real":
        return re_
    return re_ + 1j * np.array(m["im"], dtype=float)


def probe_opts(c):
    o = {"voxel_shape": c["voxel_shape"]}
    if c.get("voxel_size") is not None:
        o["voxel_size"] = np.array(c["voxel_size"], dtype=float) if isinstance(c["voxel_size"], list) else c["voxel_size"]
    if c.get("phase") is not None:
        o["phase"] = c["phase"]
    if c.get("tol") is not None:
        o["tol"] = c["tol"]
    if c.get("reduce", "default") != "default":
        r = c["reduce"]
        o["reduce"] = tuple(r) if isinstance(r, list) else r
    return o


def run_case(c):
    """real run: returns (values per acquisition, F, k, t) with F (B, n), k (Bk, n, cols), t (Bt, n) or None"""
    import epgpy as epg
    from epgpy.probe import Imaging
    opts = probe_opts(c)
    mod, w = mk_mod(c.get("modulation")), c.get("weights")
    w = None if w is None else np.array(w, dtype=float)
    pos = np.array(c["pos"], dtype=float)
    seq = build_ops(c["ops"])
    if c.get("via") == "system":
        props = {}
        if mod is not None:
            props["modulation"] = mod
        if w is not None:
            props["weights"] = w
        seq = [epg.System(**props)] + seq
        pr = Imaging(pos, **opts)
    else:
        if mod is not None:
            opts["modulation"] = mod
        if w is not None:
            opts["weights"] = w
        pr = Imaging(pos, **opts)
    nacq = c.get("repeat", 1)
    seq = seq + [epg.ADC] * nacq
    kw = {"kgrid": c["kgrid"]} if c.get("kgrid") else {}
    vals, F, k, t = epg.simulate(seq, probe=[pr, "F", "k", "t"], asarray=False, **kw)
    F, k, t = np.asarray(F[0]), np.asarray(k[0]), np.asarray(t[0])
    return [np.asarray(v) for v in vals], F, k, (None if t.ndim == 0 else t)


def pops_present():
    """the witness of DESIGN 9.2, replayed on the implementation"""
    import epgpy as epg
    from epgpy.probe import Imaging
    p = Imaging([0.0], modulation=0.1j, voxel_shape="point")
    seq = [epg.T(90, 90), epg.C(1.0), epg.ADC]
    a = complex(np.ravel(epg.simulate(seq, probe=p, kgrid=1))[0])
    b = complex(np.ravel(epg.simulate(seq, probe=p, kgrid=1))[0])
    return abs(a - b) > 1e-9, a, b


# ------------------------------------------------------------------ model in Python floats (pre-filter / replay)
def np_sinc(u):
    return 1.0 if u == 0 else float(np.sin(np.pi * u) / (np.pi * u))


def entries_of(c, F, k, t):
    """per output entry (b, p...) of the un-reduced output: position, weight, modulation, state rows"""
    pos = np.array(c["pos"], dtype=float)
    pos = pos if pos.ndim > 1 else pos[..., None]
    pshape = pos.shape[:-1]
    bshape = F.shape[:-1]
    full = tuple(bshape) + tuple(pshape)
    w = None if c.get("weights") is None else np.broadcast_to(np.array(c["weights"], dtype=float), full)
    mod = mk_mod(c.get("modulation"))
    mod = None if mod is None else np.broadcast_to(mod, full)
    return pos, pshape, bshape, full, w, mod


def any_masks(c, F, k, t, full):
    """the source's masks: a state is kept when SOME batch/position entry has |form| > tol (kmask) and SOME entry has
    exp(|t| re) > tol (mmask) -- `any` over all leading axes, each mask on its own.  Returns (keeps, non-uniform?)"""
    kany, many, uniform, first = None, None, True, None
    for idx in np.ndindex(*full):
        _, kk, mk = py_entry(c, F, k, t, idx, masks=True)
        own = [a and b for a, b in zip(kk, mk)]
        first = own if first is None else first
        uniform = uniform and own == first
        kany = kk if kany is None else [a or b for a, b in zip(kany, kk)]
        many = mk if many is None else [a or b for a, b in zip(many, mk)]
    return [a and b for a, b in zip(kany, many)], not uniform


def py_entry(c, F, k, t, idx, keeps=None, masks=False):
    """float evaluation of the model formula for one entry.  keeps: the keep list in force (any_masks); None: this entry's own
    decision.  Returns (value, keeps) or, with masks=True, (value, kmask list, mmask list) of this entry alone"""
    pos, pshape, bshape, full, w, mod = entries_of(c, F, k, t)
    b, p = idx[:len(bshape)], idx[len(bshape):]
    Fb = F[b]
    kb = k[tuple(min(i, s - 1) for i, s in zip(b, k.shape[:-2]))]
    tb = None if t is None else t[tuple(min(i, s - 1) for i, s in zip(b, t.shape[:-1]))]
    x = pos[p]
    tol = c.get("tol") if c.get("tol") is not None else 1e-8
    size = c.get("voxel_size", 1) if c.get("voxel_size") is not None else 1
    sizes = list(size) if isinstance(size, list) else [size] * kb.shape[-1]
    val, own, kks, mks = 0j, [], [], []
    for j in range(Fb.shape[-1]):
        form = 1.0
        keep = True
        kk = mk = True
        if c["voxel_shape"] == "box":
            for a in range(kb.shape[-1]):
                form *= np_sinc(kb[j, a] * sizes[a] / 2 / np.pi)
            keep = kk = bool(abs(form) > tol)
        m = 1.0 + 0j
        if tb is not None and mod is not None:
            mr = np.exp(abs(tb[j]) * mod[idx].real)
            mk = bool(mr > tol)
            keep = keep and mk
            m = mr
            if np.iscomplexobj(mod):
                m = m * np.exp(1j * tb[j] * 2 * np.pi * mod[idx].imag)
        if c.get("phase") is not None:
            m = m * np.exp(1j * c["phase"] * np.pi / 180)
        own.append(bool(keep))
        kks.append(kk)
        mks.append(mk)
        if (keep if keeps is None else keeps[j]):
            term = form * m * Fb[j] * np.exp(1j * float(np.dot(kb[j, :len(x)], x)))
            if w is not None:
                term = term * w[idx]
            val += term
    if masks:
        return val, kks, mks
    return val, own


def reduced_layout(c, full):
    """map: index of the observed (reduced) array -> list of entries it sums"""
    r = c.get("reduce", "default")
    idxs = list(np.ndindex(*full))
    if r == "default" or r is True:
        return (), {(): idxs}
    if r is False:
        return full, {i: [i] for i in idxs}
    axes = (r,) if isinstance(r, int) else tuple(r)
    axes = tuple(a % len(full) for a in axes)
    keep_axes = [a for a in range(len(full)) if a not in axes]
    shape = tuple(full[a] for a in keep_axes)
    out = {}
    for i in idxs:
        out.setdefault(tuple(i[a] for a in keep_axes), []).append(i)
    return shape, out


# ------------------------------------------------------------------ Gallina printers
def R(x):
    return rlit(Fraction(*float(x).as_integer_ratio()))


def Cl(z):
    z = complex(z)
    return "(%s, %s)" % (R(z.real), R(z.imag))


def coq_entry(c, F, k, t, idx, keeps):
    """Gallina: img_list keeps (resolve_cfg base opts sys) x states (the same for every acquisition), states with F = 0 dropped,
    plus the list of mask facts"""
    pos, pshape, bshape, full, w, mod = entries_of(c, F, k, t)
    b, p = idx[:len(bshape)], idx[len(bshape):]
    Fb = F[b]
    kb = k[tuple(min(i, s - 1) for i, s in zip(b, k.shape[:-2]))]
    tb = None if t is None else t[tuple(min(i, s - 1) for i, s in zip(b, t.shape[:-1]))]
    x = pos[p]
    tol = c.get("tol") if c.get("tol") is not None else 1e-8
    size = c.get("voxel_size") if c.get("voxel_size") is not None else 1
    sizes = list(size) if isinstance(size, list) else [size] * kb.shape[-1]
    modl = "None"
    if mod is not None:
        z = mod[idx]
        modl = "(Some (%s, %s))" % (R(z.real), "Some %s" % R(z.imag) if np.iscomplexobj(mod) else "None")
    wl = "None" if w is None else "(Some %s)" % Cl(w[idx])
    base = "(mkCfg %s [%s] %s %s None %s None)" % (
        "Box" if c["voxel_shape"] == "box" else "Point", "; ".join(R(s) for s in sizes), R(tol),
        core.coq_bool(tb is not None), "None" if c.get("phase") is None else "(Some %s)" % R(c["phase"]))
    if c.get("via") == "system":
        opts, sysl = "(mkOpts None None)", "(mkSys %s %s)" % (modl, wl)
    else:
        opts, sysl = "(mkOpts %s %s)" % (modl, wl), "(mkSys None None)"
    cfg = "(resolve_cfg %s %s %s)" % (base, opts, sysl)
    sel = [j for j in range(Fb.shape[-1]) if Fb[j] != 0]
    states = ["mkPS %s [%s] %s" % (Cl(Fb[j]), "; ".join(R(a) for a in kb[j]), R(0 if tb is None else tb[j])) for j in sel]
    xs = "[%s]" % "; ".join(R(a) for a in x)
    term = "img_list [%s] %s %s [%s]" % ("; ".join(core.coq_bool(keeps[j]) for j in sel), cfg, xs, "; ".join(states))
    facts = []
    own = py_entry(c, F, k, t, idx)[1]
    for j, s in zip(sel, states):
        if keeps[j]:
            if own[j]:      # otherwise the state is kept on account of another entry (`any`): no fact for this entry
                facts.append("keepP %s (%s)" % (cfg, s))
        else:
            # which mask dropped it (harness side choice, the fact itself is proved in Coq)
            form = 1.0
            if c["voxel_shape"] == "box":
                for a in range(kb.shape[-1]):
                    form *= np_sinc(kb[j, a] * sizes[a] / 2 / np.pi)
            facts.append(("kdropP %s (%s)" if (c["voxel_shape"] == "box" and abs(form) <= tol) else "mdropP %s (%s)") % (cfg, s))
    return term, facts, len(sel)


# ------------------------------------------------------------------ generator
def q(rng, lo, hi, den):
    return rng.randint(lo * den, hi * den) / den


def gen_case(rng, stream):
    d = rng.choice([1, 1, 2, 2, 3])
    kgrid = 0.25
    timed = rng.random() < 0.75
    kind = "float"
    if stream == "int":
        kind = rng.choice(["int1d", "intnd"])
        d = 1 if kind == "int1d" else rng.choice([2, 3])
        timed = kind == "intnd" and rng.random() < 0.4
    nblock = rng.choice([1, 2, 2, 3]) if stream != "reduce" else rng.choice([1, 2])
    batch = rng.random() < (0.35 if stream != "mask" else 0.0)
    BT = 0
    if stream == "btime":
        # batch-dependent phase-state times / wavenumbers: C(tau) with one delay per batch entry, batched shifts
        d, timed, kind, batch, nblock = rng.choice([1, 1, 2]), True, "float", False, rng.choice([1, 2, 2])
        BT = rng.choice([1, 2, 2, 3, 3])
    AM = None
    if stream == "amask":
        # entry-dependent masks: one voxel / compartment whose exp(rate |t|) (or sinc factor) falls below tol, the others not
        AM = rng.choice(["mod", "mod", "sinc"])
        d, timed, kind, batch, nblock = 1, True, "float", False, rng.choice([1, 2])
        BT = 2 if AM == "sinc" else 0
    ops = []
    tau_total = 0.0
    for b in range(nblock):
        al = rng.choice([20, 30, 45, 60, 90, 120])
        ops.append(["T", [al, al + 25] if (batch and b == 0) else al, rng.choice([0, 10, 40, 90, 200])])
        if kind == "int1d":
            ops.append(["Sint", rng.choice([1, 1, 2, -1])])
        elif kind == "intnd":
            kv = [0] * d
            while not any(kv):
                kv = [rng.randint(-2, 2) for _ in range(d)]
            ops.append(["Sintnd", kv])
        else:
            kv = [0.0] * d
            while not any(kv):
                kv = [rng.randint(-8, 8) * kgrid for _ in range(d)]
            if stream == "mask":
                kv = [rng.choice([0.5, 1.0, -0.5, 0.25, 0.75]) for _ in range(d)]
            if AM == "sinc" and b == 0:
                rows = [[0.5], [rng.choice([0.25, 0.75, 1.25])]]
                rng.shuffle(rows)
                ops.append(["Sb", rows])
            elif AM == "sinc":
                ops.append(["S", [rng.choice([1.0, -1.0, 2.0])]])
            elif BT > 1 and rng.random() < 0.3:
                rows = []
                for _ in range(BT):
                    kv = [0.0] * d
                    while not any(kv):
                        kv = [rng.randint(-6, 6) * kgrid for _ in range(d)]
                    rows.append(kv)
                ops.append(["Sb", rows])
            else:
                ops.append(["S", kv])
        tau = rng.choice([0.5, 1.0, 1.5, 2.0, 3.0]) if AM != "mod" else rng.choice([4.0, 6.0, 10.0])
        if rng.random() < 0.6:
            ops.append(["E", tau, rng.choice([500.0, 1000.0]), rng.choice([40.0, 80.0])])
        if timed and BT and AM is None and (b == 0 or rng.random() < 0.5):
            ops.append(["C", rng.sample([0.25, 0.5, 0.75, 1.0, 1.5, 2.0, 2.5, 3.0], BT)])
        elif timed:
            ops.append(["C", tau])
            tau_total += tau
    cols = 3 if timed else d
    npos = rng.choice([1, 2, 3]) if stream != "reduce" else rng.choice([1, 2])
    layout = rng.choice(["Pd", "Pd", "flat", "grid"]) if d == 1 else rng.choice(["Pd", "Pd", "Pd", "grid"])
    if AM == "mod":
        npos, layout = rng.choice([2, 3]), ("Pd" if rng.random() < 0.7 else "flat")
    if BT:
        # positions: as many as, fewer than, more than batch entries
        npos = rng.choice([BT, BT, max(1, BT - 1), BT + 1, 1])
        layout = rng.choice(["Pd", "flat"]) if d == 1 else "Pd"
    pt = lambda: [q(rng, -1, 1, 8) for _ in range(d)]
    if layout == "flat":
        pos = [pt()[0] for _ in range(npos)]
        pshape = (npos,)
    elif layout == "grid":
        pos = [[pt() for _ in range(2)] for _ in range(rng.choice([1, 2]))]
        pshape = (len(pos), 2)
    else:
        pos = [pt() for _ in range(npos)]
        pshape = (npos,)
    B = BT if BT else (2 if batch else 1)
    full = (B,) + pshape
    c = {"ops": ops, "kgrid": kgrid if kind == "float" or timed else None, "pos": pos,
         "voxel_shape": rng.choice(["box", "box", "point"]), "stream": stream}
    if c["voxel_shape"] == "box":
        r = rng.random()
        if r < 0.2:
            c["voxel_size"] = None          # default 1
        elif r < 0.65:
            c["voxel_size"] = rng.choice([0.5, 0.8, 1.25, 2.0])
        else:
            c["voxel_size"] = [rng.choice([0.5, 0.8, 1.25, 2.0]) for _ in range(cols)]
    via = rng.choice(["args", "args", "system"])
    c["via"] = via

    def shaped(gen):
        """array aligned with (batch, positions): scalar, per position, per batch, full"""
        ch = rng.choice(["scalar", "pos", "batch", "full"])
        if ch == "scalar":
            return gen()
        if ch == "pos" and via == "args" and len(pshape) == 1:
            return [gen() for _ in range(pshape[0])]
        if ch == "batch":
            return np.array([gen() for _ in range(B)]).reshape((B,) + (1,) * len(pshape)).tolist()
        return np.array([gen() for _ in range(int(np.prod(full)))]).reshape(full).tolist()

    if timed and (BT or rng.random() < 0.8):
        mk = rng.choice(["real", "imag", "complex"])
        if stream == "mask":
            v = rng.choice([-7.0, -8.0, -10.0])
            c["modulation"] = {"kind": rng.choice(["real", "complex"]), "re": v, "im": 0.0625}
        else:
            re_ = shaped(lambda: -rng.randint(0, 16) / 32)
            if mk == "real":
                c["modulation"] = {"kind": "real", "re": re_, "im": None}
            else:
                zero = (np.zeros_like(np.array(re_, dtype=float))).tolist()
                im = (np.array(re_, dtype=float) * 0 + np.array(shaped(lambda: rng.randint(-16, 16) / 64))).tolist()
                rr = (np.array(re_, dtype=float) + 0 * np.array(im)).tolist() if mk == "complex" else (0 * np.array(im)).tolist()
                c["modulation"] = {"kind": "complex", "re": rr, "im": im}
    if AM == "mod":
        # per-voxel T2' rates of widely different size, one of them fast enough to fall below tol after the delays
        rates = [rng.choice([-3.0, -2.5, -4.0])] + [rng.choice([-0.03125, -0.125, -0.5, -1.0]) for _ in range(npos - 1)]
        rng.shuffle(rates)
        sh = (npos,) if via == "args" else (1, npos)
        cplx = rng.random() < 0.5
        c["modulation"] = {"kind": "complex" if cplx else "real", "re": np.array(rates).reshape(sh).tolist(),
                           "im": np.array([rng.randint(-16, 16) / 64 for _ in range(npos)]).reshape(sh).tolist() if cplx else None}
    if AM == "sinc":
        c["voxel_shape"], c["voxel_size"] = "box", float(2 * np.pi / 0.5)      # sinc(k D / 2 pi) = sinc(2 k): zero for k = 0.5 only
        if c.get("modulation") is not None and rng.random() < 0.5:
            del c["modulation"]
    if rng.random() < 0.6:
        c["weights"] = shaped(lambda: rng.randint(1, 12) / 4)
    if rng.random() < 0.4:
        c["phase"] = rng.choice([15.0, 30.0, -45.0, 90.0, 117.0])
    if stream == "mask" and c["voxel_shape"] == "box":
        c["voxel_size"] = float(2 * np.pi / (kgrid * rng.choice([1, 2])))
    if stream == "reduce":
        # every reduce setting in turn (the bare integer 0 first), not left to chance
        turn = getattr(rng, "_c15_reduce_turn", 0)
        rng._c15_reduce_turn = turn + 1
        options = [0, True, 1, -1, list(range(len(full)))] + ([[0, 1]] if len(full) > 1 else [])
        c["reduce"] = options[turn % len(options)]
        if isinstance(c["reduce"], int) and not isinstance(c["reduce"], bool) and c["reduce"] >= len(full):
            c["reduce"] = 0
    else:
        c["reduce"] = rng.choice([False, False, False, "default"]) if int(np.prod(full)) > 1 else rng.choice([False, "default", True])
    if BT or AM:
        c["reduce"] = False
    if stream == "repeat":
        c["repeat"] = 2
    return c


# ------------------------------------------------------------------ (a) correspondence
def correspondence(ctx):
    quick = ctx.tier == "quick"
    budget = 720 if quick else 8000
    streams = ["main", "btime", "amask", "mask", "btime", "main", "reduce", "mask", "btime", "main", "reduce", "int", "repeat", "repeat"]
    goals, meta = [], []
    units, ncase, skipped, nform = 0, 0, 0, 0
    dist = {}
    while units < budget and ncase < (120 if quick else 1200):
        stream = streams[ncase % len(streams)]
        c = gen_case(ctx.rng, stream)
        ncase += 1
        try:
            vals, F, k, t = run_case(c)
        except Exception as e:
            ctx.report("Imaging probe raised %s on a valid case: %s" % (type(e).__name__, str(e)[:200]), {"kind": "tie", "case": c},
                       found_input=True, signature={"raises": type(e).__name__, "stream": stream})
            continue
        pos, pshape, bshape, full, w, mod = entries_of(c, F, k, t)
        shape, layout = reduced_layout(c, full)
        # masks: `any` over all entries in the source; in the mask stream k, t are batch-independent and the modulation
        # uniform; elsewhere (btime: batch-dependent t / k) the parameters keep every state, so every entry must
        # take the same decision
        keeps0, nonuni = any_masks(c, F, k, t, full)
        skipped += int(nonuni)
        dropped = sum(1 for j, kp in enumerate(keeps0) if not kp and np.any(F[..., j] != 0))
        for a, v in enumerate(vals):
            v = np.asarray(v)
            if v.shape != tuple(shape):
                ctx.report("output shape %s differs from the model's %s" % (v.shape, tuple(shape)), {"kind": "tie", "case": c},
                           found_input=True, signature={"shape": stream})
                continue
            for oi, ents in layout.items():
                obs = complex(v[oi])
                parts, facts, nst = [], [], 0
                ref = 0j
                for idx in ents:
                    term, fs, n = coq_entry(c, F, k, t, idx, keeps0)
                    parts.append(term)
                    nst += n
                    if idx == ents[0]:
                        facts = fs
                    ref += py_entry(c, F, k, t, idx, keeps=keeps0)[0]
                tolv = 1e-9 * (1 + abs(obs))
                if abs(ref - obs) > tolv:
                    nform += 1
                if abs(ref - obs) > tolv and nform <= 3:
                    ctx.report("Imaging value %r differs from sum_j w F_j form(k_j) mod(t_j) e^{i k_j.x} = %r (acquisition %d, output index %s)"
                               % (obs, ref, a, list(oi)), {"kind": "tie", "case": c, "acquisition": a, "index": list(oi),
                                                           "implementation": str(obs), "formula": str(ref)},
                               found_input=True, signature={"formula": stream, "acq": min(a, 1)})
                tl = Fraction(*float(tolv).as_integer_ratio())
                conj = facts + ["(let v := sumC [%s] in Rabs (fst v - %s) <= %s /\\ Rabs (snd v - %s) <= %s)" % (
                    "; ".join(parts), R(obs.real), rlit(tl), R(obs.imag), rlit(tl))]
                goals.append("Goal %s.\nProof. tie %d%%nat. Abort." % (" /\\\n  ".join(conj), len(goals)))
                meta.append((c, a, list(oi)))
                units += nst
        key = (stream, c["voxel_shape"], None if c.get("modulation") is None else c["modulation"]["kind"],
               c.get("weights") is not None, str(c.get("reduce")), c.get("via"), len(full), F.shape[-1])
        ctx.count(json.dumps(c, sort_keys=True), nontrivial=F.shape[-1] >= 3)
        dist[stream] = dist.get(stream, 0) + 1
        ctx.cov["masked_states"] = ctx.cov.get("masked_states", 0) + dropped
        ctx.sample({"stream": stream, "voxel": c["voxel_shape"], "size": c.get("voxel_size"), "modulation": c.get("modulation"),
                    "reduce": str(c.get("reduce")), "via": c.get("via"), "nstate": int(F.shape[-1]), "entries": list(full)})
    ctx.cov["tie_cases_by_stream"] = dist
    ctx.cov["tie_cases_entry_dependent_mask"] = skipped
    # shards
    nsh = max(1, min(core.NPROC, len(goals)))
    files = []
    for s in range(nsh):
        path = os.path.join(core.CASES, "%s_p%d_tie_%d.v" % (ctx.pid, os.getpid(), s))
        with open(path, "w") as f:
            f.write(HEADER + "\n".join(goals[s::nsh]) + "\n")
        files.append(path)
    res = core.coqc_many(files, timeout=1200 if not quick else 400)
    ctx._case_files += files
    ok, fail = set(), set()
    for path in files:
        rc, out = res[path]
        if rc != 0:
            ctx.report("interval tie shard failed to compile", {"theorem_or_correspondence": "C15 Interval tie of Model/Imaging.v",
                                                                "coq_output": out[-1500:]}, found_input=False)
            continue
        ok |= {int(m) for m in re.findall(r"TIE-OK (\d+)", out)}
        fail |= {int(m) for m in re.findall(r"TIE-FAIL (\d+)", out)}
    bad = sorted((fail | (set(range(len(goals))) - ok)))
    nv = len(ctx.violations)
    for i in bad[:3]:
        c, a, oi = meta[i]
        ctx.report("model value (evaluated in Coq by Interval) and Imaging probe disagree, or a mask fact fails (acquisition %d, index %s)" % (a, oi),
                   {"kind": "tie", "case": c, "acquisition": a, "index": oi,
                    "theorem_or_correspondence": "C15 correspondence Model/Imaging.v img_list vs epgpy.utils.imaging"},
                   found_input=(nform > 0), signature={"tie": c.get("stream")})
    ctx.cov["interval_tie_goals"] = len(ok)
    ctx.cov["interval_tie_failed"] = len(bad)
    ctx.cov["formula_mismatches_python_prefilter"] = nform
    ctx.cov["interval_tie_units"] = units
    return len(ok), len(bad)


# ------------------------------------------------------------------ (b) oracle
def bloch_isochromats(ops, xs, f=0.0):
    """independent simulation of isochromats at positions xs (N, d): S(k) -> precession by k.x rad,
    C(tau) -> precession by 2 pi f tau; no shift, no imaging code.  Returns F0 (N,)"""
    import epgpy as epg
    xs = np.asarray(xs, dtype=float)
    seq = []
    for o in ops:
        if o[0] == "S":
            g = xs[:, :len(o[1])] @ np.array(o[1], dtype=float) / (2 * np.pi)
            seq.append(epg.P(1.0, g))
        elif o[0] == "C":
            if f != 0:
                seq.append(epg.P(float(o[1]), f))
        else:
            seq += build_ops([o])
    v = epg.simulate(seq + [epg.ADC])
    return np.broadcast_to(np.asarray(v)[0], (xs.shape[0],)).astype(complex)


def oracle_box(c):
    """box voxel (1-D) vs mean of N isochromats across the voxel; returns (err, bound, details)"""
    import epgpy as epg
    from epgpy.probe import Imaging
    N = 2001
    x0, D = c["x"], c["D"]
    u = x0 + ((np.arange(N) + 0.5) / N - 0.5) * D
    seq = build_ops(c["ops"]) + [epg.ADC]
    box = complex(np.ravel(epg.simulate(seq, probe=Imaging([x0], voxel_shape="box", voxel_size=D), kgrid=c["kgrid"]))[0])
    iso = bloch_isochromats(c["ops"], u[:, None])
    pts = np.ravel(epg.simulate(seq, probe=Imaging(u, voxel_shape="point", reduce=False), kgrid=c["kgrid"]))
    kmax = sum(abs(o[1][0]) for o in c["ops"] if o[0] == "S")
    bound = 1e-9 + 2.0 * (kmax * D) ** 2 / (24 * N * N)     # midpoint rule, sum |F| <= 2
    return abs(box - iso.mean()), abs(box - pts.mean()), float(np.abs(pts - iso).max()), bound, box, complex(iso.mean())


def oracle_box2d(c):
    import epgpy as epg
    from epgpy.probe import Imaging
    N = 201
    x0, D = np.array(c["x"]), np.array(c["D"])
    u = ((np.arange(N) + 0.5) / N - 0.5)
    g = np.stack(np.meshgrid(x0[0] + u * D[0], x0[1] + u * D[1], indexing="ij"), -1).reshape(-1, 2)
    seq = build_ops(c["ops"]) + [epg.ADC]
    box = complex(np.ravel(epg.simulate(seq, probe=Imaging([list(x0)], voxel_shape="box", voxel_size=list(D)), kgrid=c["kgrid"]))[0])
    iso = bloch_isochromats(c["ops"], g)
    kmax = sum(max(abs(v) for v in o[1]) for o in c["ops"] if o[0] == "S")
    bound = 1e-9 + 4.0 * (kmax * D.max()) ** 2 / (24 * N * N)
    return abs(box - iso.mean()), bound, box, complex(iso.mean())


def oracle_offres(c):
    """modulation = i f  vs  (1) the same sequence with off-resonance g = f in every E, no modulation;
    (2) independent Bloch isochromats at the positions precessing with f during every C(tau)"""
    import epgpy as epg
    from epgpy.probe import Imaging
    f = c["f"]
    pos = np.array(c["pos"], dtype=float)
    a = epg.simulate(build_ops(c["ops"]) + [epg.ADC], probe=Imaging(pos, voxel_shape="point", modulation=1j * f, reduce=False), kgrid=c["kgrid"])
    b = epg.simulate(build_ops(c["ops"], g=f) + [epg.ADC], probe=Imaging(pos, voxel_shape="point", reduce=False), kgrid=c["kgrid"])
    iso = bloch_isochromats(c["ops"], pos, f=f)
    a, b = np.ravel(a), np.ravel(b)
    return float(np.abs(a - b).max()), float(np.abs(a - iso).max()), a, b


def entry_ops(ops, b):
    """the scalar sequence of batch entry b: C([t0, t1, ..]) -> C(t_b), batched shift -> its b-th row"""
    out = []
    for o in ops:
        if o[0] == "C" and isinstance(o[1], list):
            out.append(["C", o[1][b]])
        elif o[0] == "Sb":
            out.append(["S", o[1][b]])
        else:
            out.append(o)
    return out


def oracle_btime(c):
    """batch-dependent phase-state times: every batch entry of one batched run (C(tau array), batched shifts) probed with a
    modulation vs (1) the scalar run of that entry with the same probe, (2) for an imaginary modulation, independent Bloch
    isochromats precessing at f during the delays ('point': at the positions; 'box' 1-D: 32-node Gauss-Legendre voxel average).
    Returns (error or None, text)"""
    import epgpy as epg
    from epgpy.probe import Imaging
    pos = np.array(c["pos"], dtype=float)
    mod = complex(c["re"], c["f"]) if c["mod_kind"] != "real" else float(c["re"])
    popts = {"voxel_shape": c["voxel"], "voxel_size": c["size"], "reduce": False}
    B = c["B"]

    def run(ops):
        seq = build_ops(ops) + [epg.ADC]
        if c["via"] == "system":
            return np.asarray(epg.simulate([epg.System(modulation=mod)] + seq, probe=Imaging(pos, **popts), kgrid=c["kgrid"]))[0]
        return np.asarray(epg.simulate(seq, probe=Imaging(pos, modulation=mod, **popts), kgrid=c["kgrid"]))[0]
    try:
        v = run(c["ops"])
    except Exception as e:
        return 1.0, "batched run raises %s: %s" % (type(e).__name__, str(e)[:160])
    if v.shape != (B, pos.shape[0]):
        return 1.0, "batched run returns shape %s, expected %s" % (v.shape, (B, pos.shape[0]))
    worst, txt = 0.0, ""
    for b in range(B):
        ops_b = entry_ops(c["ops"], b)
        ref = run(ops_b).reshape(-1)
        e = float(np.abs(v[b] - ref).max())
        if e > worst:
            worst, txt = e, "batch entry %d: batched %s, scalar-delay run %s" % (b, v[b].tolist(), ref.tolist())
        if c["mod_kind"] == "imag":
            if c["voxel"] == "point":
                iso = bloch_isochromats(ops_b, pos, f=c["f"])
            else:
                g, wq = np.polynomial.legendre.leggauss(32)
                iso = np.array([bloch_isochromats(ops_b, (x0 + 0.5 * c["size"] * g)[:, None], f=c["f"]) @ (wq / 2) for x0 in pos[:, 0]])
            e = float(np.abs(v[b] - iso).max())
            if e > worst:
                worst, txt = e, "batch entry %d: batched %s, off-resonant isochromats %s" % (b, v[b].tolist(), iso.tolist())
    return (worst if worst > 1e-9 else None), txt


def gen_oracle_btime(rng):
    B = rng.choice([1, 2, 2, 3, 3])
    d = 1
    ops = []
    for blk in range(rng.choice([1, 2, 3])):
        ops.append(["T", rng.choice([20, 30, 45, 60, 90, 120]), rng.choice([0, 10, 40, 90, 200])])
        if B > 1 and rng.random() < 0.25:
            ops.append(["Sb", [[rng.choice([-1.5, -1.0, -0.5, 0.25, 0.5, 1.0, 2.0])] for _ in range(B)]])
        else:
            ops.append(["S", [rng.choice([-1.5, -1.0, -0.5, 0.25, 0.5, 1.0, 2.0])]])
        if rng.random() < 0.5:
            ops.append(["E", rng.choice([0.5, 1.0, 2.0]), rng.choice([500.0, 1000.0]), rng.choice([40.0, 80.0])])
        if blk == 0 or rng.random() < 0.5:
            ops.append(["C", rng.sample([0.25, 0.5, 0.75, 1.0, 1.5, 2.0, 2.5, 3.0], B)])
        else:
            ops.append(["C", rng.choice([0.5, 1.0, 1.5])])
    npos = rng.choice([B, B, max(1, B - 1), B + 1, 1])
    kind = rng.choice(["imag", "imag", "real", "complex"])
    return {"kind": "oracle_btime", "ops": ops, "kgrid": 0.25, "B": B, "pos": [[q(rng, -1, 1, 8)] for _ in range(npos)],
            "mod_kind": kind, "re": 0.0 if kind == "imag" else -rng.randint(1, 16) / 32, "f": 0.0 if kind == "real" else rng.randint(-32, 32) / 256,
            "via": rng.choice(["args", "system"]), "voxel": rng.choice(["point", "box"]), "size": rng.choice([0.3, 0.5, 0.8, 1.25])}


def oracle_amask(c):
    """per-voxel modulation rates of widely different size (entry-dependent masks): every voxel of the array-valued run vs the
    scalar re-run of that voxel alone (its own position, rate, weight).  The two may differ by the states one of them masks:
    at most tol * sum |w F_j| each (C15_mask_error_bound).  Returns (error or None, text)"""
    try:
        vals, F, k, t = run_case(c)
    except Exception as e:
        return 1.0, "array-valued run raises %s: %s" % (type(e).__name__, str(e)[:160])
    pos, pshape, bshape, full, w, mod = entries_of(c, F, k, t)
    v = np.asarray(vals[0])
    if v.shape != tuple(full):
        return 1.0, "array-valued run returns shape %s, expected %s" % (v.shape, tuple(full))
    worst, txt = None, ""
    for idx in np.ndindex(*full):
        p = idx[len(bshape):]
        c1 = dict(c, pos=[pos[p].tolist()], via="args")
        if mod is not None:
            z = complex(mod[idx])
            c1["modulation"] = {"kind": c["modulation"]["kind"], "re": z.real, "im": z.imag if c["modulation"]["kind"] == "complex" else None}
        if w is not None:
            c1["weights"] = float(w[idx])
        if len(bshape) == 1 and bshape[0] > 1:
            c1["ops"] = entry_ops(c["ops"], idx[0])       # the scalar sequence of this batch entry
        r1 = np.ravel(run_case(c1)[0][0])
        if r1.size != 1:
            return 1.0, "scalar re-run of entry %s returns %d values" % (list(idx), r1.size)
        ref = complex(r1[0])
        wabs = 1.0 if w is None else abs(float(w[idx]))
        bound = 1e-9 * (1 + abs(ref)) + 2e-8 * wabs * float(np.abs(F[idx[:len(bshape)]]).sum())
        e = abs(complex(v[idx]) - ref)
        if e > bound and (worst is None or e > worst):
            worst, txt = e, "voxel %s (rate %s): array-valued run %r, scalar re-run of this voxel %r" % (
                list(idx), None if mod is None else complex(mod[idx]), complex(v[idx]), ref)
    return worst, txt


def gen_oracle_ops(rng, d, timed=True, relax=True):
    ops = []
    for b in range(rng.choice([2, 3])):
        ops.append(["T", rng.choice([20, 30, 45, 60, 90, 120]), rng.choice([0, 10, 40, 90, 200])])
        kv = [0.0] * d
        while not any(kv):
            kv = [rng.randint(-8, 8) * 0.25 for _ in range(d)]
        ops.append(["S", kv])
        tau = rng.choice([0.5, 1.0, 1.5, 2.0])
        if relax:
            ops.append(["E", tau, rng.choice([500.0, 1000.0]), rng.choice([40.0, 80.0])])
        if timed:
            ops.append(["C", tau])
    return ops


def oracle(ctx):
    quick = ctx.tier == "quick"
    rng = ctx.rng
    n1, n2, n3 = (8, 3, 10) if quick else (120, 30, 150)
    n4 = 12 if quick else 200
    runs = 0
    for _ in range(n1):
        c = {"kind": "oracle_box", "ops": gen_oracle_ops(rng, 1, timed=rng.random() < 0.5), "kgrid": 0.25,
             "x": q(rng, -1, 1, 8), "D": rng.choice([0.5, 0.8, 1.25, 2.0, 3.0])}
        e_iso, e_pts, e_pi, bound, box, mean = oracle_box(c)
        runs += 1
        if e_pi > 1e-9:
            ctx.report("'point' probe differs from independently simulated Bloch isochromats by %.3g" % e_pi, c, found_input=True,
                       signature={"oracle": "point-vs-bloch"})
        if e_iso > bound or e_pts > bound:
            ctx.report("'box' voxel %r differs from the mean of 2001 isochromats across the voxel %r (|diff| %.3g > %.3g)" % (box, mean, max(e_iso, e_pts), bound),
                       dict(c, box=str(box), isochromat_mean=str(mean)), found_input=True, signature={"oracle": "box-average"})
    for _ in range(n2):
        c = {"kind": "oracle_box2d", "ops": gen_oracle_ops(rng, 2, timed=False), "kgrid": 0.25,
             "x": [q(rng, -1, 1, 8), q(rng, -1, 1, 8)], "D": [rng.choice([0.5, 0.8, 1.25]), rng.choice([0.5, 0.8, 2.0])]}
        e, bound, box, mean = oracle_box2d(c)
        runs += 1
        if e > bound:
            ctx.report("2-D 'box' voxel %r differs from the mean of 201x201 isochromats %r (|diff| %.3g > %.3g)" % (box, mean, e, bound),
                       dict(c, box=str(box), isochromat_mean=str(mean)), found_input=True, signature={"oracle": "box-average-2d"})
    for _ in range(n3):
        d = rng.choice([1, 2, 3])
        c = {"kind": "oracle_offres", "ops": gen_oracle_ops(rng, d, timed=True), "kgrid": 0.25,
             "pos": [[q(rng, -1, 1, 8) for _ in range(d)] for _ in range(3)], "f": rng.randint(-32, 32) / 256}
        e_g, e_iso, a, b = oracle_offres(c)
        runs += 1
        if e_g > 1e-9 or e_iso > 1e-9:
            ctx.report("imaginary modulation i*f differs from simulating with off-resonance g = f (%.3g) / from Bloch isochromats (%.3g)" % (e_g, e_iso),
                       dict(c, with_modulation=str(a.tolist()), with_offres=str(b.tolist())), found_input=True, signature={"oracle": "offres"})
    nbt = 0
    for _ in range(n4):
        c = gen_oracle_btime(rng)
        err, txt = oracle_btime(c)
        runs += 1
        ctx.count(("oracle_btime", json.dumps(c, sort_keys=True)))
        if err is not None:
            nbt += 1
            if nbt <= 2:
                ctx.report("Imaging with a modulation on a batch of delays (batch-dependent phase-state times) differs from the per-entry "
                           "scalar run / off-resonant isochromats by %.3g: %s" % (err, txt), dict(c, detail=txt), found_input=True,
                           signature={"oracle": "batched-times"})
    nam, n5 = 0, (6 if quick else 100)
    for _ in range(n5):
        c = dict(gen_case(rng, "amask"), kind="oracle_amask")
        err, txt = oracle_amask(c)
        runs += 1
        ctx.count(("oracle_amask", json.dumps(c, sort_keys=True)))
        if err is not None:
            nam += 1
            if nam <= 2:
                ctx.report("Imaging with per-voxel / per-compartment modulation rates (or batched gradients) of which one is masked: %s (|diff| %.3g); "
                           "a state negligible for ONE entry must stay for the others" % (txt, err), dict(c, detail=txt), found_input=True,
                           signature={"oracle": "entry-dependent-mask"})
    ctx.cov["oracle_entry_dependent_mask_runs"] = n5
    ctx.cov["oracle_batched_time_runs"] = n4
    ctx.cov["oracle_runs"] = runs
    ctx.cov["evaluations"] += runs


# ------------------------------------------------------------------ (c) System vs arguments
ALIGN_SIG = {"site": "System/Imaging._acquire", "why": "left-vs-right-aligned-arrays"}


def ranks_of(c):
    r = set()
    for a in (c.get("weights"), None if c.get("modulation") is None else mk_mod(c["modulation"])):
        if a is not None and np.ndim(a) > 0:
            r.add(np.ndim(a))
    return r


def report_alignment(ctx, rec):
    ctx.report("arrays of different rank mean different things through System() and as probe arguments: the System collection aligns its "
               "arrays on the LEFT (batch axis first, ArrayCollection), utils.imaging broadcasts the arguments on the RIGHT (position axis "
               "last): same weights (3,3) and modulation (3,) -> modulation per batch entry via System, per position via Imaging(...)",
               rec, found_input=True, signature=ALIGN_SIG)


def system_equiv(ctx):
    import epgpy as epg
    from epgpy.probe import Imaging
    rng = ctx.rng
    n = 12 if ctx.tier == "quick" else 200
    done = 0
    for i in range(n):
        c = gen_case(rng, "main")
        c["via"] = "args"
        if c.get("modulation") is None and c.get("weights") is None:
            c["weights"] = 1.5
        c2 = dict(c, via="system")
        mixed = len(ranks_of(c)) > 1
        try:
            v1 = run_case(c)[0][0]
        except Exception as e:
            ctx.report("Imaging probe raised %s: %s" % (type(e).__name__, str(e)[:200]), {"kind": "system", "case": c}, found_input=True,
                       signature={"raises": type(e).__name__, "stream": "system-args"})
            continue
        try:
            v2 = run_case(c2)[0][0]
        except Exception as e:
            if isinstance(e, ValueError) and "Incompatible shape" in str(e):
                continue      # System arrays must be compatible with the batch shape (ArrayCollection, C16); not this property
            if mixed:
                report_alignment(ctx, {"kind": "system", "case": c, "args": str(v1.tolist()),
                                       "system": "raises %s: %s" % (type(e).__name__, str(e)[:200])})
            else:
                ctx.report("Imaging probe with System(weights/modulation) raised %s: %s" % (type(e).__name__, str(e)[:200]),
                           {"kind": "system", "case": c}, found_input=True, signature={"raises": type(e).__name__, "stream": "system"})
            continue
        done += 1
        ctx.count(("system", json.dumps(c, sort_keys=True)))
        if v1.shape != v2.shape or np.abs(v1 - v2).max() > 1e-12 * (1 + np.abs(v1).max()):
            if mixed:
                report_alignment(ctx, {"kind": "system", "case": c, "args": str(v1.tolist()), "system": str(v2.tolist())})
            else:
                ctx.report("System(weights/modulation) and probe arguments give different values", {"kind": "system", "case": c,
                           "args": str(v1.tolist()), "system": str(v2.tolist())}, found_input=True, signature={"system": "weights-modulation"})
    # deterministic witness of the alignment question: 3 batch entries, 3 positions, weights (3,3), modulation (3,)
    wit = {"ops": [["T", [30, 40, 50], 10], ["S", [0.5]], ["C", 1.0]], "kgrid": 0.5, "pos": [0.125, 0.375, 0.625], "voxel_shape": "box",
           "weights": np.arange(1.0, 10.0).reshape(3, 3).tolist(), "modulation": {"kind": "real", "re": [-0.125, -0.25, -0.375], "im": None},
           "reduce": False, "via": "args"}
    v1, v2 = run_case(wit)[0][0], run_case(dict(wit, via="system"))[0][0]
    ctx.count(("system-alignment-witness",))
    if v1.shape != v2.shape or np.abs(v1 - v2).max() > 1e-12:
        report_alignment(ctx, {"kind": "system", "case": wit, "args": str(v1.tolist()), "system": str(v2.tolist())})
    # coords through System (unbatched)
    for i in range(4 if ctx.tier == "quick" else 40):
        ops = gen_oracle_ops(rng, 2, timed=True)
        pos = [[q(rng, -1, 1, 8), q(rng, -1, 1, 8)] for _ in range(3)]
        seq = build_ops(ops) + [epg.ADC]
        v1 = epg.simulate(seq, probe=Imaging(pos, voxel_size=0.8, reduce=False), kgrid=0.25)
        v2 = epg.simulate([epg.System(coords=pos)] + seq, probe=Imaging(voxel_size=0.8, reduce=False), kgrid=0.25)
        done += 1
        ctx.count(("system-coords", json.dumps(ops), json.dumps(pos)))
        if np.abs(v1 - v2).max() > 1e-12:
            ctx.report("System(coords) and the probe's coords argument give different values", {"kind": "system_coords", "ops": ops, "pos": pos},
                       found_input=True, signature={"system": "coords"})
    ctx.cov["system_equivalence_cases"] = done


def gen_redefine(rng):
    """several System() operators re-defining weights / modulation along one sequence (integer -> float -> complex, scalar -> array,
    array of another shape), an Imaging probe after each"""
    B = rng.choice([1, 1, 2])
    P = rng.choice([2, 3])
    d = rng.choice([1, 2])
    pos = [[q(rng, -1, 1, 8) for _ in range(d)] for _ in range(P)]
    shapes = [(P,)] if B == 1 else [(B, 1), (B, P)]      # one rank per case (mixed ranks: the known alignment finding)

    def value(kind, shape):
        n = int(np.prod(shape)) if shape else 1
        if kind == "int":
            v = [rng.choice([0, 1, 1, 2, 3]) for _ in range(n)]
        elif kind == "float":
            v = [rng.randint(1, 15) / 8 + rng.choice([0, 0.0625]) for _ in range(n)]
        elif kind == "negint":
            v = [-rng.choice([0, 1]) for _ in range(n)]
        elif kind == "real":
            v = [-rng.randint(1, 15) / 32 for _ in range(n)]
        else:
            v = None
        return v

    blocks = []
    nblock = rng.choice([2, 3, 3])
    wkinds = rng.choice([["int", "float", "float"], ["int", "float", "int"], ["float", "int", "float"], ["int", "int", "float"]])
    mkinds = rng.choice([["real", "complex", "complex"], ["negint", "real", "complex"], ["real", "real", "complex"], ["negint", "complex", "real"]])
    for b in range(nblock):
        blk = {"ops": [["T", [30, 55][:B] if (B > 1 and b == 0) else rng.choice([20, 30, 45, 60, 90]), rng.choice([0, 10, 40, 90])]]}
        kv = [0.0] * d
        while not any(kv):
            kv = [rng.randint(-6, 6) * 0.25 for _ in range(d)]
        blk["ops"] += [["S", kv], ["C", rng.choice([0.5, 1.0, 1.5, 2.0])]]
        props = {}
        if b == 0 or rng.random() < 0.8:
            sh = rng.choice([(), (), rng.choice(shapes), rng.choice(shapes)])
            v = value(wkinds[b], sh)
            props["weights"] = {"kind": wkinds[b], "shape": list(sh), "values": v}
        if b == 0 or rng.random() < 0.8:
            sh = rng.choice([(), (), rng.choice(shapes)])
            n = int(np.prod(sh)) if sh else 1
            if mkinds[b] == "complex":
                props["modulation"] = {"kind": "complex", "shape": list(sh), "re": [-rng.randint(0, 15) / 32 for _ in range(n)],
                                       "im": [rng.randint(-16, 16) / 64 + 0.0078125 for _ in range(n)]}
            else:
                props["modulation"] = {"kind": mkinds[b], "shape": list(sh), "re": value(mkinds[b], sh), "im": None}
        blk["system"] = props
        blocks.append(blk)
    c = {"kind": "system_redefine", "blocks": blocks, "pos": pos, "kgrid": 0.25,
         "voxel_shape": rng.choice(["box", "point"]), "voxel_size": rng.choice([0.5, 0.8, 1.25])}
    # the probe object(s) of the System route: a fresh Imaging per block, ONE instance acquiring in every block, or one instance
    # first used in a simulate() of the first block alone and then again in the simulate() of the whole sequence
    c["probe_mode"] = rng.choice(["fresh", "shared", "shared", "reused", "reused"])
    # positions through System(coords=...) as well (unbatched), re-defined in a later block
    if B == 1 and rng.random() < 0.4:
        c["coords_via_system"] = True
        c["pos_later"] = [[q(rng, -1, 1, 8) for _ in range(d)] for _ in range(P)] if rng.random() < 0.6 else None
        # coords (P, d) next to per-position arrays (P,) in one System collection is the known alignment finding: scalars here
        for blk in blocks:
            for v_ in blk["system"].values():
                v_["shape"] = []
                for key in ("values", "re", "im"):
                    if v_.get(key) is not None:
                        v_[key] = v_[key][:1]
    return c


def redefine_value(p, name):
    if p is None:
        return None
    sh = tuple(p["shape"])
    if name == "weights":
        return np.array(p["values"], dtype=int if p["kind"] == "int" else float).reshape(sh)
    re_ = np.array(p["re"], dtype=int if p["kind"] == "negint" else float).reshape(sh)
    return re_ if p["kind"] != "complex" else re_ + 1j * np.array(p["im"], dtype=float).reshape(sh)


def run_redefine(c):
    """(values per block through System, values per block with explicit probe arguments); the System properties in force at
    block b are the latest definitions up to b"""
    import epgpy as epg
    from epgpy.probe import Imaging
    pos = np.array(c["pos"], dtype=float)
    popts = {"voxel_shape": c["voxel_shape"], "voxel_size": c["voxel_size"], "reduce": False}
    seq_sys, seq_arg = [], []
    cur = {"weights": None, "modulation": None}
    mode = c.get("probe_mode", "fresh")
    via_coords = bool(c.get("coords_via_system"))
    mk_probe = lambda: Imaging(None if via_coords else pos, **popts)
    shared = mk_probe()
    cur_pos, first_len = pos, None
    for b, blk in enumerate(c["blocks"]):
        props = {k_: redefine_value(v_, k_) for k_, v_ in blk["system"].items()}
        cur.update(props)
        if via_coords and b == 0:
            props["coords"] = pos
        if via_coords and b == len(c["blocks"]) - 1 and c.get("pos_later") is not None:
            cur_pos = np.array(c["pos_later"], dtype=float)
            props["coords"] = cur_pos
        ops = build_ops(blk["ops"])
        seq_sys += [epg.System(**props)] + ops + [mk_probe() if mode == "fresh" else shared]
        first_len = len(seq_sys) if first_len is None else first_len
        kw = {k_: v_ for k_, v_ in cur.items() if v_ is not None}
        seq_arg += build_ops(blk["ops"]) + [Imaging(cur_pos, **popts, **kw)]
    va = [np.asarray(v) for v in epg.simulate(seq_arg, kgrid=c["kgrid"], asarray=False)]
    if mode == "reused":
        # the same probe instance has already acquired once, in another simulate() (first block alone)
        v0 = np.asarray(epg.simulate(seq_sys[:first_len], kgrid=c["kgrid"], asarray=False)[0])
        if v0.shape != va[0].shape or np.abs(v0 - va[0]).max() > 1e-12 * (1 + np.abs(va[0]).max()):
            return [v0], [va[0]]
    vs = [np.asarray(v) for v in epg.simulate(seq_sys, kgrid=c["kgrid"], asarray=False)]
    return vs, va


def redefine_verdict(c):
    """None or a description of the first block where the System route and the argument route differ"""
    try:
        _, va = None, None
        import epgpy as epg
        vs, va = run_redefine(c)
    except Exception as e:
        return "raises %s: %s" % (type(e).__name__, str(e)[:200])
    for b, (x, y) in enumerate(zip(vs, va)):
        if x.shape != y.shape:
            return "block %d: shape via System %s, via arguments %s" % (b, x.shape, y.shape)
        if np.abs(x - y).max() > 1e-12 * (1 + np.abs(y).max()):
            return "block %d, probe %s (System(%s)): via System %s, via fresh probes with explicit arguments %s" % (
                b, {"fresh": "fresh per block", "shared": "instance shared by all blocks", "reused": "instance already used in an earlier simulate()"}[c.get("probe_mode", "fresh")],
                ", ".join("%s=%s %s" % (k_, v_["kind"], v_["shape"]) for k_, v_ in c["blocks"][b]["system"].items()), x.tolist(), y.tolist())
    return None


def system_redefine(ctx):
    n = 12 if ctx.tier == "quick" else 200
    bad = 0
    for _ in range(n):
        c = gen_redefine(ctx.rng)
        why = redefine_verdict(c)
        ctx.count(("system_redefine", json.dumps(c, sort_keys=True)))
        if why:
            bad += 1
            if bad <= 2:
                ctx.report("System() properties re-defined along the sequence are not equivalent to the same values passed as probe arguments: " + why,
                           dict(c, detail=why), found_input=True, signature={"system": "redefinition"})
    ctx.cov["system_redefinition_cases"] = n
    ctx.cov["system_redefinition_differing"] = bad


# ------------------------------------------------------------------ (d) repeated use
def repeated_use(ctx):
    import epgpy as epg
    from epgpy.probe import Imaging
    rng = ctx.rng
    n = 10 if ctx.tier == "quick" else 100
    bad = 0
    for i in range(n):
        ops = gen_oracle_ops(rng, rng.choice([1, 2]), timed=True)
        pos = [[q(rng, -1, 1, 8)] * 1 for _ in range(2)]
        opt = rng.choice(["modulation", "weights", "both"])
        kw = {}
        if opt in ("modulation", "both"):
            kw["modulation"] = complex(-rng.randint(1, 8) / 32, rng.randint(1, 16) / 64)
        if opt in ("weights", "both"):
            kw["weights"] = [1.5, 2.5]
        pr = Imaging(pos, reduce=False, voxel_size=0.8, **kw)
        seq = build_ops(ops) + [epg.ADC]
        mode = rng.choice(["two-simulate", "two-adc"])
        if mode == "two-simulate":
            a = np.ravel(epg.simulate(seq, probe=pr, kgrid=0.25))
            b = np.ravel(epg.simulate(seq, probe=pr, kgrid=0.25))
        else:
            v = epg.simulate(seq + [epg.ADC], probe=pr, kgrid=0.25)
            a, b = np.ravel(v[0]), np.ravel(v[1])
        ctx.count(("repeat", json.dumps(ops), opt, mode))
        if np.abs(a - b).max() > 1e-12:
            bad += 1
            if bad <= 2:
                rec = {"kind": "repeat", "ops": ops, "pos": pos, "option": opt, "mode": mode,
                       "options": {k_: str(v_) for k_, v_ in kw.items()}, "first": str(a.tolist()), "second": str(b.tolist()),
                       "minimal": "p = Imaging([0.0], modulation=0.1j, voxel_shape='point'); simulate([T(90,90), C(1.0), ADC], probe=p, kgrid=1) twice: 0.809+0.588j then 1.0"}
                ctx.report("the same Imaging instance returns different values on its second acquisition: Imaging._acquire pops "
                           "'modulation'/'weights' from self.opts (probe.py 203, 206), so the instance forgets its arguments after the first use",
                           rec, found_input=True, signature=POPS_SIG)
    ctx.cov["repeated_use_cases"] = n
    ctx.cov["repeated_use_differing"] = bad


# ------------------------------------------------------------------ entry points
def run(ctx):
    proved = ctx.prove(gen=False)
    bad = check_source(ctx)
    for b in bad:
        ctx.report("utils.imaging no longer contains the expression the model transcribes: %s (expected `%s`, found `%s`)"
                   % (b["expression"], b["expected"], b["found"]),
                   {"theorem_or_correspondence": "Model/Imaging.v vs epgpy/utils.py (ast check)", **b}, found_input=False,
                   signature={"source": b["expression"]})
    pops, first, second = pops_present()
    ctx.notes["repeated_use_witness"] = [str(first), str(second)]
    if pops:
        ctx.report("regression: Imaging([0.0], modulation=0.1j, voxel_shape='point') probed twice gives %r then %r (the probe forgets its options)" % (first, second),
                   {"kind": "repeat", "first": str(first), "second": str(second)}, found_input=True, signature=POPS_SIG)
    import time
    t0 = time.time()
    ctx.notes["t_prove_s"] = round(t0 - ctx.t0, 1)
    nok, nbad = correspondence(ctx)
    t1 = time.time()
    oracle(ctx)
    t2 = time.time()
    system_equiv(ctx)
    system_redefine(ctx)
    repeated_use(ctx)
    ctx.notes["t_tie_s"], ctx.notes["t_oracle_s"], ctx.notes["t_rest_s"] = round(t1 - t0, 1), round(t2 - t1, 1), round(time.time() - t2, 1)
    ctx.cov["trusted_base"] += [
        "hand-written model Model/Imaging.v (utils.imaging, Imaging._acquire, System); tied to epgpy by the Interval correspondence at %d goals "
        "(model evaluated in Coq on the exact binary64 F, k, t read from the real state matrix) and by an ast comparison of 7 source expressions" % nok,
        "state-matrix contents (F, k, t) are taken from the implementation: the sequence part is C01/C04/C13's subject, not re-derived here",
        "mask decisions (`any` over batch/position entries) are modelled per entry; the generator keeps them entry-independent (skipped otherwise)",
        "spec oracle (Bloch isochromats through epgpy's T/E/P only, 2001 midpoints per voxel) is random testing: supporting evidence, not proof",
        "2-3 dimensions: product form = separable (iterated) average; Fubini not proved",
        "Coquelicot + Interval libraries; axioms as printed by Print Assumptions (classical reals, functional extensionality, classic)"]
    if not proved:
        ctx.report("proof obligations of C15 no longer check: %s" % ctx.failed_obligations,
                   {"theorem_or_correspondence": ctx.failed_obligations}, found_input=False)


def replay(ctx, rp):
    kind = rp.get("kind")
    if kind == "tie":
        c = rp["case"]
        vals, F, k, t = run_case(c)
        pos, pshape, bshape, full, w, mod = entries_of(c, F, k, t)
        shape, layout = reduced_layout(c, full)
        worst = 0.0
        for a, v in enumerate(vals):
            for oi, ents in layout.items():
                ref = sum(py_entry(c, F, k, t, idx, keeps=any_masks(c, F, k, t, full)[0])[0] for idx in ents)
                worst = max(worst, abs(ref - complex(np.asarray(v)[oi])) / (1 + abs(ref)))
        print("replay: max relative |Imaging - formula| = %.3g" % worst)
        return 1 if worst > 1e-9 else 0
    if kind == "oracle_box":
        e_iso, e_pts, e_pi, bound, box, mean = oracle_box(rp)
        print("replay: box %r isochromat mean %r diff %.3g bound %.3g" % (box, mean, e_iso, bound))
        return 1 if (e_iso > bound or e_pts > bound or e_pi > 1e-9) else 0
    if kind == "oracle_box2d":
        e, bound, box, mean = oracle_box2d(rp)
        print("replay: box %r isochromat mean %r diff %.3g bound %.3g" % (box, mean, e, bound))
        return 1 if e > bound else 0
    if kind == "oracle_offres":
        e_g, e_iso, a, b = oracle_offres(rp)
        print("replay: |modulation - offres| %.3g, vs isochromats %.3g" % (e_g, e_iso))
        return 1 if max(e_g, e_iso) > 1e-9 else 0
    if kind == "system_redefine":
        why = redefine_verdict(rp)
        print("replay: %s" % (why or "System route and argument route agree on every block"))
        return 1 if why else 0
    if kind == "oracle_amask":
        err, txt = oracle_amask(rp)
        print("replay: %s" % ("|diff| %.3g: %s" % (err, txt) if err else "array-valued run agrees with the per-voxel scalar re-runs"))
        return 1 if err else 0
    if kind == "oracle_btime":
        err, txt = oracle_btime(rp)
        print("replay: %s (%s)" % ("max |diff| %.3g" % err if err else "no discrepancy", txt))
        return 1 if err else 0
    if kind == "repeat":
        pops, a, b = pops_present()
        print("replay: Imaging([0.0], modulation=0.1j, voxel_shape='point') used twice: %r then %r" % (a, b))
        return 1 if pops else 0
    if kind == "system":
        c = rp["case"]
        v1 = run_case(c)[0][0]
        try:
            v2 = run_case(dict(c, via="system"))[0][0]
        except Exception as e:
            print("replay: System route raises %s: %s" % (type(e).__name__, e))
            return 1
        if v1.shape != v2.shape:
            print("replay: output shapes differ: args %s, system %s" % (v1.shape, v2.shape))
            return 1
        d = float(np.abs(v1 - v2).max())
        print("replay: |args - system| = %.3g" % d)
        return 1 if d > 1e-12 else 0
    print("replay: not an input replay (%s)" % rp.get("what"))
    return 1
