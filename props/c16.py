"""C16 — Array container keeps shapes, values and independence over any call history.

Correspondence over call histories between epgpy.statematrix.ArrayCollection and the Gallina
state machine Model/Collection.v (evaluated inside Coq), the property's own oracle (the invariant
of Proofs/CollectionProofs.v evaluated on the implementation's observables), copy independence and
the StateMatrix wrappers."""
import itertools, json, copy as _copy
import numpy as np
from vlib import core

HEADER = ("From Coq Require Import List ZArith Bool.\n"
          "From EPG Require Import Scalar State NdArray Collection.\n"
          "Import ListNotations.\nOpen Scope nat_scope.\n")

NAMES = ["a", "b", "c"]
AXN = ["n", "m", "k", "l"]
ERR = {"ValueError": "EValue", "KeyError": "EKey", "IndexError": "EIndex"}
EXTRA_FILES = ["Model/NdArray.v"]   # registered in coq/_CoqProject together with the C16 files

LAYOUTS_FIRST = [["..."], ["...", "n", 3], ["...", None], ["...", "n"], ["...", "n", "m"], ["...", 3]]
LAYOUTS_OTHER = [["n", "..."], [3, "..."], [None, "...", "n"]]


# ------------------------------------------------------------------ printers
def c_shape(s):
    return "[" + "; ".join(str(int(x)) for x in s) + "]"


def c_nd(shape, vals):
    return "(mkNd %s [%s]%%Z)" % (c_shape(shape), "; ".join(core.zlit(int(v)) for v in vals))


def c_item(x):
    if x == "...":
        return "LEll"
    if x is None:
        return "LFree"
    if isinstance(x, str):
        return "(LName %d)" % AXN.index(x)
    return "(LFix %d)" % x


def c_layout(l):
    return "None" if l is None else "(Some [%s])" % "; ".join(c_item(x) for x in l)


def c_bop(o):
    k = o["op"]
    if k == "set":
        return "(OSet %d %s %s %s %s)" % (o["name"], c_nd(o["shape"], o["vals"]), c_layout(o["layout"]),
                                          core.coq_bool(o["resize"]), core.coq_bool(o["check"]))
    if k == "update":
        return "(OUpdate %d %s %s)" % (o["name"], c_nd(o["shape"], o["vals"]), core.coq_bool(o["resize"]))
    if k == "get":
        return "(OGet %d %s)" % (o["name"], core.coq_bool(o["bcast"]))
    if k == "pop":
        return "(OPop %d)" % o["name"]
    if k == "resize":
        return "(OResize %d %d %s%%Z)" % (o["ax"], o["size"], core.zlit(o["const"]))
    if k == "expand":
        return "(OExpand %d)" % o["k"]
    if k == "reduce":
        return "(OReduce %d)" % o["k"]
    if k == "broadcast":
        return "(OBroadcast %s)" % c_shape(o["shape"])
    raise ValueError(k)


def c_op(o):
    if o["op"] == "copy":
        return "OCopy"
    if o["op"] == "link":
        return "(OLink %s)" % core.coq_bool(o["app"])
    return "(%s %s)" % ("OChild" if o.get("t") == "child" else "OMain", c_bop(o))


def c_res(r):
    if r[0] == "err":
        return "(Err %s)" % ERR.get(r[1], "EUnsupported")
    if r[1] is None:
        return "(Ok None)"
    return "(Ok (Some %s))" % c_nd(r[1][0], r[1][1])


def c_gets(g):
    return "[" + "; ".join("(%d, %s)" % (n, c_res(r)) for n, r in g) + "]"


def c_obs(ob):
    axes = "[" + "; ".join("(%d, %d)" % (k, v) for k, v in sorted(ob["axes"].items())) + "]"
    ch = "None" if ob["child"] is None else "(Some (%s, %s))" % (c_shape(ob["child"][0]), c_gets(ob["child"][1]))
    return "(mkO %s %s %s %s %s)" % (c_res(ob["res"]), c_shape(ob["shape"]), axes, c_gets(ob["gets"]), ch)


def term(case, obs):
    return "(trace_ok %s %s %s)" % (core.coq_bool(case["app"]), core.clist([c_op(o) for o in case["ops"]]),
                                    core.clist([c_obs(o) for o in obs]))


# ------------------------------------------------------------------ implementation driver
def py_layout(l):
    return None if l is None else [Ellipsis if x == "..." else x for x in l]


def nd_of(arr):
    arr = np.asarray(arr)
    return [list(arr.shape), [int(v) for v in arr.reshape(-1)]]


def mk_arr(shape, vals):
    return np.array(vals, dtype=np.int64).reshape(tuple(shape))


def get_res(coll, name):
    try:
        g = coll.get(name)
    except Exception as e:
        return ("err", type(e).__name__)
    return ("ok", None if g is None else nd_of(g))


def lay_class(layout):
    if layout is None:
        return "none"
    l = list(layout)
    if sum(1 for x in l if x is Ellipsis or x == "...") != 1:
        return "invalid"
    return "ellipsis-first" if (l[0] is Ellipsis or l[0] == "...") else "non-leading-ellipsis"


def centre_resized(old, new_n, axis, const):
    """independent statement of 'pad with the constant / crop symmetrically about the centre'"""
    old = np.asarray(old)
    n = old.shape[axis]
    off = (n - new_n) // 2 if new_n <= n else -((new_n - n) // 2)
    shape = list(old.shape)
    shape[axis] = new_n
    out = np.full(shape, const, dtype=old.dtype)
    for i in range(new_n):
        j = i + off
        if 0 <= j < n:
            out[(slice(None),) * axis + (i,)] = old[(slice(None),) * axis + (j,)]
    return out


def underdim(coll, o):
    """the array of a set/update call has fewer axes than the non-ellipsis items of the layout in force
    (outside the domain of Model/Collection.v, which answers EUnsupported)"""
    lay = o.get("layout")
    if lay is None:
        name = NAMES[o["name"]]
        lay = list(coll._layouts[name]) if name in coll._layouts else [Ellipsis]
    n_ell = sum(1 for x in lay if x is Ellipsis or x == "...")
    return n_ell == 1 and len(o["shape"]) + 1 < len(lay)


def expected_stored(coll, name, arr, layout, resize):
    """What set(name, arr, layout, resize) must store, stated independently of the implementation:
    the inserted array itself; with resize=True each named axis is centre padded / cropped (zeros) to the
    size that the OTHER stored arrays give to that axis name, and left alone when no other array carries it.
    None when the expectation is not defined (invalid layout, too few axes, others disagree)."""
    lay = layout
    if lay is None:
        lay = list(coll._layouts[name]) if name in coll._layouts else [Ellipsis]
    lay = [Ellipsis if x == "..." else x for x in lay]
    if sum(1 for x in lay if x is Ellipsis) != 1 or arr.ndim + 1 < len(lay):
        return None
    out = np.array(arr)
    if not resize:
        return out
    others = {}
    for n in coll._arrays:
        if n == name:
            continue
        raw, l2 = coll._arrays[n], list(coll._layouts[n])
        if sum(1 for x in l2 if x is Ellipsis) != 1 or raw.ndim + 1 < len(l2):
            return None
        st2 = l2.index(Ellipsis)
        for i, ax in enumerate(l2):
            if isinstance(ax, str):
                others.setdefault(ax, set()).add(raw.shape[i if i < st2 else raw.ndim - len(l2) + i])
    st = lay.index(Ellipsis)
    for i, ax in enumerate(lay):
        if isinstance(ax, str) and ax in others:
            if len(others[ax]) != 1:
                return None
            pos = i if i < st else out.ndim - len(lay) + i
            size = next(iter(others[ax]))
            if out.shape[pos] != size:
                out = centre_resized(out, size, pos, 0)
    return out


def assigned_in_place(raw, val):
    """raw[...] = val when numpy can broadcast val into raw (leading unit axes of val may be dropped), else None"""
    v = np.asarray(val)
    while v.ndim > raw.ndim and v.shape[0] == 1:
        v = v.reshape(v.shape[1:])
    try:
        return np.array(np.broadcast_to(v, raw.shape))
    except ValueError:
        return None


def same_array(a, b):
    return a is not None and b is not None and tuple(a.shape) == tuple(b.shape) and np.array_equal(a, b)


def inv_violation(coll, app):
    """The invariant of the property evaluated on the implementation (None = holds)."""
    S = tuple(coll.shape)
    sizes = {}
    for name in list(coll._arrays):
        raw = coll._arrays[name]
        lay = list(coll._layouts[name])
        st = lay.index(Ellipsis)
        after = len(lay) - st - 1
        if raw.ndim < len(lay) - 1:
            return "stored-array-has-too-few-axes"
        mid = raw.shape[st:raw.ndim - after]
        post = raw.shape[raw.ndim - after:]
        expected = tuple(raw.shape[:st]) + S + tuple(post)
        try:
            g = coll.get(name)
        except Exception as e:
            return "get-raises"
        if tuple(g.shape) != expected:
            return "get-shape"
        ones = (1,) * (len(S) - len(mid))
        if len(S) < len(mid):
            return "shape-cache-wrong"
        e_shape = tuple(raw.shape[:st]) + ((tuple(mid) + ones) if app else (ones + tuple(mid))) + tuple(post)
        try:
            ref = np.broadcast_to(raw.reshape(e_shape), expected)
        except Exception:
            return "get-shape"
        if not np.array_equal(ref, g):
            return "get-values"
        for i, ax in enumerate(lay):
            if isinstance(ax, str):
                pos = i if i < st else raw.ndim - len(lay) + i
                sizes.setdefault(ax, set()).add(raw.shape[pos])
    # cached common shape = recomputation (max over the aligned broadcast parts and the default)
    parts = [tuple(coll._default)]
    for name in coll._arrays:
        raw, lay = coll._arrays[name], list(coll._layouts[name])
        st = lay.index(Ellipsis)
        parts.append(tuple(raw.shape[st:raw.ndim - (len(lay) - st - 1)]))
    nd_ = max(len(p) for p in parts)
    al = [(p + (1,) * (nd_ - len(p))) if app else ((1,) * (nd_ - len(p)) + p) for p in parts]
    if S != tuple(max(p[i] for p in al) for i in range(nd_)):
        return "shape-cache-wrong"
    for ax, ss in sizes.items():
        if len(ss) > 1:
            return "named-axis-two-valued"
        if coll.axes.get(ax) != next(iter(ss)):
            return "axes-cache-wrong"
    return None


class Runner:
    """runs a history on the real ArrayCollection, recording observables and oracle verdicts"""

    def __init__(self, app):
        from epgpy.statematrix import ArrayCollection
        self.AC = ArrayCollection
        self.app = app
        self.main = ArrayCollection(expand_axis=-1 if app else 0)
        self.child = None
        self.originals = []      # (collection, snapshot) of collections that were copied
        self.obs = []
        self.oracle = []         # per call: None or (why, culprit-op-kind)
        self.laycls = []         # per call: class of the layout in force for the array it touched
        self.outside = False     # an insertion with fewer axes than the layout's fixed/named/free items

    def snapshot(self, coll):
        """everything observable on a collection: raw arrays, layouts, common shape, axes and every get(name)"""
        return ({n: nd_of(coll._arrays[n]) for n in coll._arrays}, tuple(coll.shape),
                {n: tuple("..." if x is Ellipsis else x for x in coll._layouts[n]) if n in coll._layouts else None
                 for n in coll._arrays},
                dict(coll.axes), [(n, get_res(coll, n)) for n in coll._arrays])

    def call(self, o):
        k = o["op"]
        if k == "copy":
            orig = self.main
            snap = self.snapshot(orig)
            cp = orig.copy()
            shared = [n for n in orig._arrays if np.shares_memory(orig._arrays[n], cp._arrays[n])]
            # mutate a second copy in place: the original must not move
            cp2 = orig.copy()
            for n in cp2._arrays:
                if cp2._arrays[n].ndim:
                    cp2._arrays[n][...] += 7
            why = None
            if shared:
                why = "copy-shares-memory"
            elif self.snapshot(orig) != snap:
                why = "copy-not-independent"
            elif self.snapshot(cp) != snap or cp.axes != orig.axes or cp.expand_axis != orig.expand_axis:
                why = "copy-not-equal"
            # the history continues on the copy (default) or on the original; the other one is frozen and
            # must keep all its observables whatever happens afterwards
            if o.get("keep") == "original":
                self.originals.append((cp, self.snapshot(cp)))
            else:
                self.originals.append((orig, snap))
                self.main = cp
            return ("ok", None), why
        if k == "link":
            if self.child is not None:
                return ("err", "Unsupported"), None
            self.child = self.AC(expand_axis=-1 if o["app"] else 0)
            self.main.link(self.child)
            return ("ok", None), None
        coll = self.child if o.get("t") == "child" else self.main
        if coll is None:
            return ("err", "Unsupported"), None
        why = None
        if k in ("set", "update") and underdim(coll, o):
            self.outside = True
        try:
            if k == "set":
                kw = {}
                if o["layout"] is not None:
                    kw["layout"] = py_layout(o["layout"])
                arr = mk_arr(o["shape"], o["vals"])
                exp = expected_stored(coll, NAMES[o["name"]], arr, o["layout"], o["resize"])
                # layout that must be in force afterwards: the explicit one, else the stored one, else [...]
                exp_lay = tuple(kw["layout"]) if "layout" in kw else \
                    tuple(coll._layouts[NAMES[o["name"]]]) if NAMES[o["name"]] in coll._layouts else (Ellipsis,)
                coll.set(NAMES[o["name"]], arr, resize=o["resize"], check=o["check"], **kw)
                r = None
                if tuple(coll._layouts.get(NAMES[o["name"]], ())) != exp_lay:
                    why = "layout-differs-from-requested"
                elif exp is not None and not same_array(coll._arrays.get(NAMES[o["name"]]), exp):
                    why = "stored-array-differs-from-inserted"
            elif k == "update":
                arr = mk_arr(o["shape"], o["vals"])
                nm = NAMES[o["name"]]
                exp = None
                if nm in coll._arrays:
                    exp = assigned_in_place(coll._arrays[nm], arr)
                    if exp is None:
                        exp = expected_stored(coll, nm, arr, None, o["resize"])
                coll.update(nm, arr, resize=o["resize"])
                r = None
                if exp is not None and not same_array(coll._arrays.get(nm), exp):
                    why = "stored-array-differs-from-inserted"
            elif k == "get":
                r = coll.get(NAMES[o["name"]], broadcast=o["bcast"])
            elif k == "pop":
                r = coll.pop(NAMES[o["name"]])
            elif k == "resize":
                before = {n: (np.array(coll._arrays[n]), tuple(coll._layouts[n])) for n in coll._arrays}
                axes_before = dict(coll.axes)
                coll.resize(AXN[o["ax"]], o["size"], constant=o["const"])
                r = None
                ax = AXN[o["ax"]]
                for n, (old, lay) in before.items():
                    if ax in lay and axes_before.get(ax) == old.shape[self._axpos(old, lay, ax)]:
                        pos = self._axpos(old, lay, ax)
                        ref = centre_resized(old, o["size"], pos, o["const"])
                        new = coll._arrays[n]
                        if new.shape != ref.shape or not np.array_equal(new, ref):
                            why = "resize-not-centred"
            elif k == "expand":
                coll.expand(o["k"])
                r = None
            elif k == "reduce":
                coll.reduce(o["k"])
                r = None
            elif k == "broadcast":
                coll.broadcast(tuple(o["shape"]))
                r = None
            else:
                raise ValueError(k)
        except Exception as e:
            cls = type(e).__name__
            if cls not in ("ValueError", "KeyError"):
                why = "raises-" + cls
            elif k == "update" and cls == "ValueError" and NAMES[o["name"]] in coll._arrays and \
                    list(coll._arrays[NAMES[o["name"]]].shape) == list(o["shape"]):
                why = "update-same-shape-raises-" + cls
            return ("err", cls), why
        return ("ok", None if r is None else nd_of(r)), why

    @staticmethod
    def _axpos(arr, lay, ax):
        lay = list(lay)
        i = lay.index(ax)
        st = lay.index(Ellipsis)
        return i if i < st else arr.ndim - len(lay) + i

    def observe(self, res):
        names = lambda c: [(NAMES.index(n), get_res(c, n)) for n in c._arrays]
        ob = {"res": res, "shape": list(self.main.shape),
              "axes": {AXN.index(k): int(v) for k, v in self.main.axes.items()},
              "gets": names(self.main),
              "child": None if self.child is None else (list(self.child.shape), names(self.child))}
        return ob

    def step(self, o):
        res, why = self.call(o)
        self.obs.append(self.observe(res))
        coll = self.child if o.get("t") == "child" else self.main
        lay = coll._layouts.get(NAMES[o["name"]]) if coll is not None and "name" in o else None
        self.laycls.append(lay_class(lay))
        if why is None:
            why = inv_violation(self.main, self.app)
            if why is None and self.child is not None:
                w = inv_violation(self.child, self.child._expand_axis < 0)
                if w is not None:
                    why = "child-" + w
        if why is None:
            for orig, snap in self.originals:
                try:
                    same = self.snapshot(orig) == snap
                except Exception:
                    same = False
                if not same:
                    why = "copy-not-independent"
        self.oracle.append(why)


def run_impl(case):
    r = Runner(case["app"])
    for o in case["ops"]:
        r.step(o)
    return r


def first_failure(case, runner=None):
    """(index, signature) of the first call after which the property's oracle fails, else None.
    A set(check=False) that breaks the invariant is not a violation (the caller disabled the check):
    the history is then outside the property's precondition and the oracle stops there."""
    r = runner or run_impl(case)
    for i, why in enumerate(r.oracle):
        if why is not None:
            o = case["ops"][i]
            if o["op"] == "set" and not o["check"]:
                return None
            if why.startswith("child-") and o.get("t") == "child":
                why = why[len("child-"):]
            sig = {"op": o["op"], "why": why}
            if why.startswith("child-"):
                sig = {"op": "link-propagation", "why": why}
            elif o["op"] == "set":
                sig["layout"] = r.laycls[i]
            return i, sig
    return None


# ------------------------------------------------------------------ generators
def rand_vals(rng, shape):
    n = int(np.prod(shape)) if len(shape) else 1
    return [rng.randrange(-4, 10) for _ in range(n)]


def rand_shared(rng, cur):
    """a broadcast part, mostly compatible with the current common shape"""
    cur = list(cur)
    r = rng.random()
    if r < 0.55 and cur:
        s = [d if rng.random() < 0.7 else 1 for d in cur]
        if rng.random() < 0.3:
            s = s[rng.randrange(len(s) + 1):] if rng.random() < 0.5 else s[:rng.randrange(len(s) + 1)]
        if rng.random() < 0.2:
            extra = [rng.choice([1, 2, 3])]
            s = extra + s if rng.random() < 0.5 else s + extra
        return s[:3]
    return [rng.choice([1, 2, 3]) for _ in range(rng.choice([0, 1, 1, 2, 2, 3]))]


def gen_array_op(rng, runner, target, allow_other_layouts, kind):
    coll = runner.child if target == "child" else runner.main
    p_new = 0.15 if kind == "update" else 0.7
    name = rng.randrange(3) if rng.random() < p_new or not len(coll._arrays) else \
        NAMES.index(rng.choice(list(coll._arrays)))
    existing = NAMES[name] in coll._arrays
    if kind == "update" or (existing and rng.random() < 0.4):
        layout = None
        lay = list(coll._layouts[NAMES[name]]) if existing else [Ellipsis]
        lay = ["..." if x is Ellipsis else x for x in lay]
    else:
        pool = LAYOUTS_FIRST + (LAYOUTS_OTHER if allow_other_layouts else [])
        layout = lay = list(rng.choice(pool))
        if rng.random() < 0.03:
            layout = lay = rng.choice([[], ["...", "..."], [3]])      # invalid layouts
    axes = coll.get_named_axes()
    if kind == "update" and existing and rng.random() < 0.5:
        raw = coll._arrays[NAMES[name]]
        shape = list(raw.shape)
        if rng.random() < 0.4 and shape:
            shape = [d if rng.random() < 0.7 else 1 for d in shape][rng.randrange(len(shape)):]
    else:
        shared = rand_shared(rng, coll.shape)
        st = lay.index("...") if "..." in lay else 0
        def dim(x):
            if isinstance(x, int):
                return x if rng.random() < 0.9 else rng.choice([1, 2])
            if isinstance(x, str):
                return axes[x] if x in axes and rng.random() < 0.8 else rng.choice([1, 2, 3, 4, 5])
            return rng.choice([1, 2, 3])
        items = [x for x in lay if x != "..."]
        pre = [dim(x) for x in lay[:st] if x != "..."]
        post = [dim(x) for x in lay[st + 1:] if x != "..."]
        shape = pre + shared + post
        if len(shape) < len(items):
            shape = shape + [1] * (len(items) - len(shape))
    o = {"op": kind, "t": target, "name": name, "shape": shape, "resize": rng.random() < 0.25}
    if kind == "set":
        o["layout"] = layout
        o["check"] = rng.random() < 0.93
    while underdim(coll, o):
        o["shape"] = [1] + o["shape"]
    o["vals"] = rand_vals(rng, o["shape"])
    return o


def gen_history(rng, length, allow_other_layouts=True):
    app = rng.random() < 0.5
    runner = Runner(app)
    ops = []
    link_at = rng.randrange(0, max(1, length // 2)) if rng.random() < 0.3 else -1
    for step_no in range(length):
        target = "child" if runner.child is not None and rng.random() < 0.4 else "main"
        coll = runner.child if target == "child" else runner.main
        r = rng.random()
        if not len(coll._arrays) and rng.random() < 0.75:
            r = 0.0                                   # empty collection: insert something
        elif 0.65 <= r < 0.76 and not coll.axes and rng.random() < 0.85:
            r = rng.random() * 0.52                   # nothing to resize: set / update instead
        if step_no == link_at:
            o = {"op": "link", "app": app if rng.random() < 0.7 else not app}
        elif r < 0.36:
            o = gen_array_op(rng, runner, target, allow_other_layouts, "set")
        elif r < 0.52:
            o = gen_array_op(rng, runner, target, allow_other_layouts, "update")
        elif r < 0.57:
            o = {"op": "get", "t": target, "name": rng.randrange(3), "bcast": rng.random() < 0.5}
        elif r < 0.65:
            o = {"op": "pop", "t": target, "name": rng.randrange(3)}
        elif r < 0.76:
            axs = [AXN.index(a) for a in coll.axes] or [0]
            o = {"op": "resize", "t": target, "ax": rng.choice(axs) if rng.random() < 0.9 else rng.randrange(4),
                 "size": rng.choice([1, 2, 3, 4, 5, 6]), "const": rng.choice([0, 0, 0, 9, -1])}
        elif r < 0.81:
            o = {"op": "expand", "t": target, "k": rng.choice([0, 1, 1, 2])}
        elif r < 0.86:
            o = {"op": "reduce", "t": target, "k": rng.choice([0, 1, 1, 2, 3, 4, 5])}
        elif r < 0.93:
            cur = list(coll.shape)
            if rng.random() < 0.6:
                sh = [d if d > 1 or rng.random() < 0.5 else rng.choice([2, 3]) for d in cur]
                if rng.random() < 0.3:
                    sh = ([rng.choice([1, 2])] + sh) if rng.random() < 0.5 else (sh + [rng.choice([1, 2])])
            else:
                sh = [rng.choice([1, 2, 3]) for _ in range(rng.choice([0, 1, 2, 3]))]
            o = {"op": "broadcast", "t": target, "shape": sh[:4]}
        else:
            o = {"op": "copy"}
        if o["op"] in ("copy", "link"):
            o.pop("t", None)
        ops.append(o)
        runner.step(o)
    return {"app": app, "ops": ops}


NAMED_LAYOUTS = [["...", "n"], ["...", "n", "m"], ["...", "n", 3], ["n", "..."], ["...", "m"], [None, "...", "n"]]


def gen_named_history(rng, length):
    """pop / set(resize=True) / set(resize=False) / update / resize histories in which a named axis is
    sometimes carried by one array only (sole owner) and sometimes shared"""
    app = rng.random() < 0.5
    runner = Runner(app)
    ops = []
    for _ in range(length):
        coll = runner.main
        r = rng.random()
        stored = [NAMES.index(n) for n in coll._arrays]
        if r < 0.62 or not stored:
            name = rng.choice(stored) if stored and rng.random() < 0.5 else rng.randrange(3)
            keep = NAMES[name] in coll._arrays and rng.random() < 0.5
            cur_lay = ["..." if x is Ellipsis else x for x in coll._layouts[NAMES[name]]] if NAMES[name] in coll._layouts else None
            lay = cur_lay if keep else list(rng.choice([l for l in NAMED_LAYOUTS + [["..."], ["...", None]] if l != cur_lay]))
            others = {}
            for n in coll._arrays:
                if n != NAMES[name]:
                    raw, l2 = coll._arrays[n], list(coll._layouts[n])
                    st2 = l2.index(Ellipsis)
                    for i, ax in enumerate(l2):
                        if isinstance(ax, str) and raw.ndim + 1 >= len(l2):
                            others[ax] = raw.shape[i if i < st2 else raw.ndim - len(l2) + i]
            def dim(x):
                if isinstance(x, int):
                    return x
                if isinstance(x, str):
                    return others[x] if x in others and rng.random() < 0.45 else rng.choice([1, 2, 3, 4, 5, 6, 7])
                return rng.choice([1, 2])
            st = lay.index("...")
            shared = rand_shared(rng, coll.shape)[:2]
            shape = [dim(x) for x in lay[:st]] + shared + [dim(x) for x in lay[st + 1:]]
            o = {"op": "set", "t": "main", "name": name, "shape": shape, "layout": None if keep else lay,
                 "resize": rng.random() < 0.6, "check": True}
            o["vals"] = rand_vals(rng, shape)
        elif r < 0.80:
            o = {"op": "pop", "t": "main", "name": rng.choice(stored)}
        elif r < 0.90:
            name = rng.choice(stored)
            raw = coll._arrays[NAMES[name]]
            shape = list(raw.shape)
            if shape and rng.random() < 0.6:
                shape[-1] = rng.choice([1, 2, 3, 4, 5])
            o = {"op": "update", "t": "main", "name": name, "shape": shape, "vals": rand_vals(rng, shape),
                 "resize": rng.random() < 0.6}
        else:
            axs = [AXN.index(a) for a in coll.axes] or [0]
            o = {"op": "resize", "t": "main", "ax": rng.choice(axs), "size": rng.choice([1, 2, 3, 4, 5]),
                 "const": rng.choice([0, 9])}
        ops.append(o)
        runner.step(o)
    return {"app": app, "ops": ops}


def gen_copy_history(rng, length):
    """two collections related by copy(): a few insertions, copy (the history continues on either side),
    then pop / set with another layout / resize / update on that side; the other side is only observed"""
    app = rng.random() < 0.5
    runner = Runner(app)
    ops = []
    def push(o):
        ops.append(o)
        runner.step(o)
    for _ in range(rng.choice([1, 2, 2, 3])):
        lay = list(rng.choice(NAMED_LAYOUTS + [["..."]]))
        st = lay.index("...")
        axes = runner.main.get_named_axes()
        dim = lambda x: x if isinstance(x, int) else (axes.get(x, rng.choice([2, 3, 4])) if isinstance(x, str) else rng.choice([1, 2]))
        shape = [dim(x) for x in lay[:st]] + rand_shared(rng, runner.main.shape)[:2] + [dim(x) for x in lay[st + 1:]]
        push({"op": "set", "t": "main", "name": rng.randrange(3), "shape": shape, "vals": rand_vals(rng, shape),
              "layout": lay, "resize": False, "check": True})
    push({"op": "copy", "keep": rng.choice(["original", "copy"])})
    for _ in range(length):
        coll = runner.main
        stored = [NAMES.index(n) for n in coll._arrays]
        r = rng.random()
        if stored and r < 0.35:
            push({"op": "pop", "t": "main", "name": rng.choice(stored)})
        elif stored and r < 0.70:
            name = rng.choice(stored)
            raw = coll._arrays[NAMES[name]]
            cur = ["..." if x is Ellipsis else x for x in coll._layouts.get(NAMES[name], [Ellipsis])]
            lay = list(rng.choice([l for l in NAMED_LAYOUTS + [["..."], ["...", None]] if l != cur]))
            shape = list(raw.shape)
            while len(shape) + 1 < len(lay):
                shape = [1] + shape
            push({"op": "set", "t": "main", "name": name, "shape": shape, "vals": rand_vals(rng, shape),
                  "layout": lay, "resize": rng.random() < 0.3, "check": rng.random() < 0.7})
        elif r < 0.85 and coll.axes:
            push({"op": "resize", "t": "main", "ax": AXN.index(rng.choice(list(coll.axes))),
                  "size": rng.choice([1, 2, 3, 4, 5]), "const": rng.choice([0, 9])})
        elif r < 0.93:
            push({"op": "copy", "keep": rng.choice(["original", "copy"])})
        else:
            o = gen_array_op(rng, runner, "main", True, "set")
            push(o)
    return {"app": app, "ops": ops}


def exhaustive_histories(maxlen):
    """all histories up to maxlen over a small alphabet on tiny shapes (both conventions)"""
    def s(name, shape, layout=None, **kw):
        n = int(np.prod(shape)) if shape else 1
        return dict({"op": "set", "t": "main", "name": name, "shape": shape, "vals": list(range(1, n + 1)),
                     "layout": layout, "resize": False, "check": True}, **kw)
    def u(name, shape):
        n = int(np.prod(shape)) if shape else 1
        return {"op": "update", "t": "main", "name": name, "shape": shape, "vals": list(range(5, n + 5)), "resize": False}
    alpha = [s(0, [2]), s(0, [3, 1]), s(1, [2, 3], ["...", "n"]), s(1, [1, 2], ["...", "n"]), s(0, [1, 2, 3], ["...", "n", 3]),
             s(1, [2], resize=True), u(0, [2]), u(0, [1]), u(1, [2, 2]),
             {"op": "pop", "t": "main", "name": 0}, {"op": "resize", "t": "main", "ax": 0, "size": 4, "const": 9},
             {"op": "resize", "t": "main", "ax": 0, "size": 1, "const": 0},
             {"op": "expand", "t": "main", "k": 1}, {"op": "reduce", "t": "main", "k": 1},
             {"op": "broadcast", "t": "main", "shape": [2, 1]}, {"op": "broadcast", "t": "main", "shape": [3]},
             {"op": "copy"}]
    for app in (False, True):
        for L in range(1, maxlen + 1):
            for ops in itertools.product(alpha, repeat=L):
                yield {"app": app, "ops": [dict(o) for o in ops]}


def corpus():
    """witnesses of the *_refuted lemmas of Proofs/CollectionProofs.v, replayed on the implementation"""
    def s(name, shape, layout=None, t="main"):
        n = int(np.prod(shape)) if shape else 1
        return {"op": "set", "t": t, "name": name, "shape": shape, "vals": [0] * n, "layout": layout,
                "resize": False, "check": True}
    def u(name, shape):
        n = int(np.prod(shape)) if shape else 1
        return {"op": "update", "t": "main", "name": name, "shape": shape, "vals": [0] * n, "resize": False}
    def v(name, shape, layout, rs=False):
        n = int(np.prod(shape)) if shape else 1
        return {"op": "set", "t": "main", "name": name, "shape": shape, "vals": list(range(1, n + 1)),
                "layout": layout, "resize": rs, "check": True}
    return [
        {"app": False, "ops": [{"op": "broadcast", "t": "main", "shape": [3]}, s(2, [3, 2], ["n", "..."])]},
        {"app": False, "ops": [s(0, [2]), s(1, [2]), u(0, [3])]},
        {"app": False, "ops": [s(0, [3], ["...", "n"]), s(1, [3], ["...", "n"]), u(0, [5])]},
        {"app": False, "ops": [{"op": "set", "t": "main", "name": 0, "shape": [], "vals": [7], "layout": None,
                                "resize": False, "check": True},
                               {"op": "update", "t": "main", "name": 0, "shape": [], "vals": [8], "resize": False}]},
        {"app": False, "ops": [s(0, [2, 3], ["...", "n"]), {"op": "pop", "t": "main", "name": 0}]},
        {"app": False, "ops": [s(0, [2]), {"op": "link", "app": False}, s(0, [2], t="child"),
                               {"op": "pop", "t": "main", "name": 0}, s(0, [3])]},
    ] + [
        # named axis carried by no other array: set(resize=True) must store exactly what is inserted
        {"app": app, "ops": [s(1, [3, 1]), v(0, [1, 1, 5], ["...", "n"]), v(0, [1, 1, 7], None, rs=True)]}
        for app in (False, True)
    ] + [
        {"app": app, "ops": [s(1, [2, 1]), v(0, [1, 1, 3], ["...", "n"]), {"op": "pop", "t": "main", "name": 0},
                             v(2, [2, 1, 6], ["...", "n"], rs=True)]}
        for app in (False, True)
    ] + [
        # an existing name set again with another explicit layout: the new layout is in force
        {"app": app, "ops": [v(0, [2, 3], ["..."]), v(0, [2, 3], ["...", "n"]), v(1, [2, 3], ["...", "n"]),
                             v(0, [3, 2], ["n", "..."]), v(0, [2, 3], ["...", None]),
                             {"op": "resize", "t": "main", "ax": 0, "size": 5, "const": 0}]}
        for app in (False, True)
    ] + [
        # copy, then pop / re-layout on one side: the other side keeps every observable
        {"app": app, "ops": [v(0, [2, 3], ["...", "n"]), v(1, [2], ["..."]), {"op": "copy", "keep": keep},
                             {"op": "pop", "t": "main", "name": 0}, v(1, [2, 1], ["...", None])]}
        for app in (False, True) for keep in ("original", "copy")
    ] + [
        # control: another array carries the axis -> centre pad / crop
        {"app": app, "ops": [v(0, [1, 5], ["...", "n"]), v(1, [1, 3], ["...", "n"], rs=True),
                             v(2, [2, 6], ["...", "n"], rs=True)]}
        for app in (False, True)
    ]


# ------------------------------------------------------------------ analysis
def shrink_py(case, sig):
    """drop calls while the first oracle failure keeps the same signature"""
    cur = case
    changed = True
    while changed:
        changed = False
        for i in range(len(cur["ops"])):
            cand = {"app": cur["app"], "ops": cur["ops"][:i] + cur["ops"][i + 1:]}
            try:
                ff = first_failure(cand)
            except Exception:
                continue
            if ff is not None and ff[1] == sig:
                cur = {"app": cand["app"], "ops": cand["ops"][:ff[0] + 1]}
                changed = True
                break
    return cur


def shrink_coq(ctx, case, rounds=10):
    """drop calls while model and implementation still disagree"""
    cur = case
    for rd in range(rounds):
        cands = []
        for i in range(len(cur["ops"])):
            cand = {"app": cur["app"], "ops": cur["ops"][:i] + cur["ops"][i + 1:]}
            try:
                cands.append((cand, run_impl(cand)))
            except Exception:
                pass
        if not cands:
            break
        verdicts, _ = ctx.run_bool_cases("shr%d" % rd, HEADER, [term(c, r.obs) for c, r in cands], chunk=4)
        nxt = [c for (c, r), v in zip(cands, verdicts) if v is False]
        if not nxt:
            break
        cur = nxt[0]
    return cur


def describe(case):
    def d(o):
        x = {k: v for k, v in o.items() if k != "vals"}
        return x
    return {"expand_axis": -1 if case["app"] else 0, "calls": [d(o) for o in case["ops"]]}


def report_oracle(ctx, case, sig, agrees):
    small = shrink_py(case, sig)
    r = run_impl(small)
    ctx.report("ArrayCollection violates the C16 invariant after a call history: %s (%s)" % (
        sig["why"], "the faithful model shows the same behaviour" if agrees else "model and implementation also disagree"),
        {"case": small, "history": describe(small), "observations": r.obs, "oracle": r.oracle},
        found_input=True, signature=sig)


# ------------------------------------------------------------------ StateMatrix wrappers
def statematrix_cases(ctx, n):
    """copy / resize / expand / reduce / stack / unstack against directly computed expectations"""
    from epgpy.statematrix import StateMatrix
    rng = ctx.rng
    bad = []
    for ci in range(n):
        shape = [rng.choice([1, 2, 3]) for _ in range(rng.choice([1, 1, 2]))]
        ns = rng.choice([0, 1, 2])
        full = shape + [2 * ns + 1, 3]
        init = np.array(rand_vals(rng, full), dtype=float).reshape(full)
        eq = np.zeros(shape + [1, 3])
        eq[..., 0, 2] = np.array(rand_vals(rng, shape)).reshape(shape)
        case = {"shape": shape, "nstate": ns, "init": init.tolist(), "eq": eq.tolist()}
        def mk():
            return StateMatrix(init, equilibrium=eq, check=False)
        try:
            sm = mk()
            eq_full = centre_resized(eq.astype(complex), 2 * ns + 1, len(shape), 0)
            if sm.states.shape != tuple(full) or not np.array_equal(sm.states, init) or \
                    not np.array_equal(sm.equilibrium, np.broadcast_to(eq_full, full)):
                bad.append((case, "init"))
            # copy: equal, independent
            cp = sm.copy()
            if not np.array_equal(cp.states, sm.states) or np.shares_memory(cp.states, sm.states) or \
                    np.shares_memory(cp.equilibrium, sm.equilibrium):
                bad.append((case, "copy"))
            cp.states[...] += 1
            if not np.array_equal(sm.states, init):
                bad.append((case, "copy-independence"))
            # resize
            n2 = rng.choice([0, 1, 2, 3])
            sm2 = mk()
            sm2.resize(n2)
            ref = centre_resized(init.astype(complex), 2 * n2 + 1, len(shape), 0)
            refeq = centre_resized(eq_full, 2 * n2 + 1, len(shape), 0)
            if sm2.nstate != n2 or not np.array_equal(sm2.states, ref) or \
                    not np.array_equal(sm2.equilibrium, np.broadcast_to(refeq, ref.shape)):
                bad.append((dict(case, resize=n2), "resize"))
            # expand / reduce
            k = rng.choice([1, 2])
            sm3 = mk()
            sm3.expand(len(shape) + k)
            exp_shape = shape + [1] * k
            if list(sm3.shape) != exp_shape or not np.array_equal(sm3.states, init.reshape(exp_shape + full[-2:])):
                bad.append((dict(case, expand=k), "expand"))
            sm3.reduce(len(shape))
            if list(sm3.shape) != shape or not np.array_equal(sm3.states, init):
                bad.append((dict(case, expand=k), "reduce"))
            # stack / unstack
            init_b = init + 100
            smb = StateMatrix(init_b, equilibrium=eq, check=False)
            axis = rng.randrange(len(shape) + 1)
            st = mk().stack([smb], axis=axis)
            ref = np.stack([init, init_b], axis=axis)
            if not np.array_equal(st.states, ref) or list(st.shape) != list(ref.shape[:-2]) or \
                    not np.array_equal(st.equilibrium, np.stack([np.broadcast_to(eq_full, full)] * 2, axis=axis)):
                bad.append((dict(case, axis=axis), "stack"))
            parts = list(st.unstack(axis=axis))
            if len(parts) != 2 or not np.array_equal(parts[0].states, init) or not np.array_equal(parts[1].states, init_b) \
                    or not np.array_equal(parts[0].equilibrium, np.broadcast_to(eq_full, full)):
                bad.append((dict(case, axis=axis), "unstack"))
            # copies are independent also through the linked "system" collection: a shape change of one
            # matrix must not reach the other's system collection
            sm4 = mk()
            cp4 = sm4.copy()
            s_sys, c_sys = tuple(sm4.system.shape), tuple(cp4.system.shape)
            cp4.expand(len(shape) + 2)
            if cp4.system is sm4.system or tuple(sm4.system.shape) != s_sys or tuple(cp4.system.shape) != tuple(cp4.shape):
                bad.append((case, "copy-linked-collection-shared"))
            c_sys = tuple(cp4.system.shape)
            sm4.expand(len(shape) + 1)
            if tuple(cp4.system.shape) != c_sys or tuple(sm4.system.shape) != tuple(sm4.shape):
                bad.append((case, "copy-linked-collection-shared"))
            # a pop / re-layout on a copy must not reach the original (and conversely)
            c5 = np.array(rand_vals(rng, [1] * len(shape) + [2 * ns + 1, 2]), dtype=float).reshape([1] * len(shape) + [2 * ns + 1, 2])
            sm5 = StateMatrix(init, equilibrium=eq, coords=c5, check=False)
            cp5 = sm5.copy()
            cp5.arrays.pop("coords")
            ok5 = sm5.coords is not None and same_array(np.asarray(sm5.coords), c5) and cp5.coords is None
            cp6 = sm5.copy()
            sm5.arrays.set("coords", np.zeros((2 * ns + 1, 1)), layout=["nstate", ...])
            ok5 = ok5 and cp6.coords is not None and same_array(np.asarray(cp6.coords), c5)
            if not ok5:
                bad.append((dict(case, coords=c5.tolist()), "copy-shares-layouts"))
            # stack / unstack of matrices carrying coords, any axis, compared slice by slice with the inputs
            kd = rng.choice([1, 2, 3])
            nsm = rng.choice([2, 2, 3])
            ins = []
            for j in range(nsm):
                stj = init + 100 * j
                cj = np.array(rand_vals(rng, shape + [2 * ns + 1, kd]), dtype=float).reshape(shape + [2 * ns + 1, kd])
                ins.append((stj, cj))
            sms = [StateMatrix(a, equilibrium=eq, coords=c, check=False) for a, c in ins]
            axis_c = rng.randrange(1, len(shape) + 1) if rng.random() < 0.7 else 0
            cc = dict(case, axis=axis_c, kdim=kd, count=nsm, coords=[c.tolist() for _, c in ins])
            stc = sms[0].stack(sms[1:], axis=axis_c)
            ok = list(stc.shape) == shape[:axis_c] + [nsm] + shape[axis_c:] and stc.coords is not None \
                and tuple(np.asarray(stc.coords).shape) == tuple(shape[:axis_c] + [nsm] + shape[axis_c:] + [2 * ns + 1, kd])
            for j, (a, c) in enumerate(ins):
                ok = ok and np.array_equal(np.take(stc.states, j, axis=axis_c), a) \
                    and np.array_equal(np.take(np.asarray(stc.coords), j, axis=axis_c), c) \
                    and np.array_equal(np.take(stc.equilibrium, j, axis=axis_c), np.broadcast_to(eq_full, full))
            if not ok:
                bad.append((cc, "stack-coords"))
            parts = list(stc.unstack(axis=axis_c))
            if len(parts) != nsm or any(not np.array_equal(q.states, a) or q.coords is None
                                        or not np.array_equal(np.asarray(q.coords), c) for q, (a, c) in zip(parts, ins)):
                bad.append((cc, "unstack-coords"))
            # copy(coords=<another kdim>): 'kdim' is carried by coords only -> stored exactly as given;
            # copy(states=<another nstate>): 'nstate' is shared with equilibrium -> centre resized to it
            lead = [1] * len(shape)
            k1, k2 = rng.choice([1, 2, 3]), rng.choice([1, 2, 3, 4])
            c1 = np.array(rand_vals(rng, lead + [2 * ns + 1, k1]), dtype=float).reshape(lead + [2 * ns + 1, k1])
            c2 = np.array(rand_vals(rng, lead + [2 * ns + 1, k2]), dtype=float).reshape(lead + [2 * ns + 1, k2])
            smc = StateMatrix(init, equilibrium=eq, coords=c1, check=False)
            cpc = smc.copy(coords=c2)
            exp_c = assigned_in_place(c1, c2)          # update(): in place when the value broadcasts into the array
            exp_c = c2 if exp_c is None else exp_c
            if not same_array(np.asarray(cpc.coords), exp_c) or cpc.kdim != exp_c.shape[-1] \
                    or not same_array(np.asarray(smc.coords), c1) or not np.array_equal(cpc.states, init):
                bad.append((dict(case, kdim=[k1, k2], coords=c2.tolist()), "copy-coords"))
            n3 = rng.choice([0, 1, 2, 3])
            st3 = np.array(rand_vals(rng, shape + [2 * n3 + 1, 3]), dtype=float).reshape(shape + [2 * n3 + 1, 3])
            cps = mk().copy(st3)
            exp_s = assigned_in_place(init.astype(complex), st3)
            if exp_s is None:
                exp_s = centre_resized(st3.astype(complex), 2 * ns + 1, len(shape), 0)
            if not same_array(np.asarray(cps.states), exp_s):
                bad.append((dict(case, nstate_new=n3, states=st3.tolist()), "copy-states"))
        except Exception as e:
            bad.append((case, "raises-%s: %s" % (type(e).__name__, str(e)[:100])))
        ctx.count(("sm", case["shape"], ns, ci), nontrivial=True)
    for case, why in bad[:3]:
        ctx.report("StateMatrix wrapper disagrees with the directly computed expectation: %s" % why,
                   {"statematrix_case": case, "why": why}, found_input=True,
                   signature={"op": "StateMatrix", "why": why.split(":")[0]})
    return len(bad)


# ------------------------------------------------------------------ main entry points
def run(ctx):
    proved = ctx.prove(gen=False)
    quick = ctx.tier == "quick"
    cases = corpus()
    for i in range(150 if quick else 3000):
        cases.append(gen_history(ctx.rng, ctx.rng.randrange(2, 9) if quick else ctx.rng.randrange(2, 13),
                                 allow_other_layouts=(i % 4 != 0)))
    for i in range(50 if quick else 1000):
        cases.append(gen_named_history(ctx.rng, ctx.rng.randrange(2, 7)))
    for i in range(40 if quick else 800):
        cases.append(gen_copy_history(ctx.rng, ctx.rng.randrange(1, 5)))
    if not quick:
        cases += list(exhaustive_histories(3))
    else:
        ex = list(exhaustive_histories(2))
        cases += ctx.rng.sample(ex, 60)
    runs, terms = [], []
    kinds = {}
    all_cases, cases = cases, []
    for c in all_cases:
        r = run_impl(c)
        if r.outside:
            continue
        cases.append(c)
        runs.append(r)
        terms.append(term(c, r.obs))
        ctx.count(c, nontrivial=len(c["ops"]) >= 2)
        ctx.sample(describe(c))
        for o, ob in zip(c["ops"], r.obs):
            key = o["op"] + ("!" + ob["res"][1] if ob["res"][0] == "err" else "")
            kinds[key] = kinds.get(key, 0) + 1
    ctx.notes["call_kinds"] = kinds
    verdicts, errors = ctx.run_bool_cases("corr", HEADER, terms, chunk=12 if quick else 40)
    for e in errors[:2]:
        ctx.report("correspondence shard failed to evaluate",
                   {"theorem_or_correspondence": "C16 correspondence (Cases)", "coq_output": e}, found_input=False)
    seen = set()
    n_dis = 0
    n_oracle = 0
    for c, r, v in zip(cases, runs, verdicts):
        ff = first_failure(c, r)
        if v is False:
            n_dis += 1
            if n_dis > 3:
                continue
            small = shrink_coq(ctx, c)
            ff2 = first_failure(small)
            if ff2 is not None:
                report_oracle(ctx, small, ff2[1], agrees=False)
            else:
                rs = run_impl(small)
                ctx.report("model and implementation disagree on a call history (the invariant holds on the observed states)",
                           {"case": small, "history": describe(small), "observations": rs.obs,
                            "theorem_or_correspondence": "C16 correspondence Model/Collection.v vs ArrayCollection"},
                           found_input=False, signature={"corr": [o["op"] for o in small["ops"]]})
        elif ff is not None:
            n_oracle += 1
            key = json.dumps(ff[1], sort_keys=True)
            if key not in seen:
                seen.add(key)
                report_oracle(ctx, c, ff[1], agrees=True)
    ctx.notes["histories"] = len(cases)
    ctx.notes["histories_outside_model_domain_skipped"] = len(all_cases) - len(cases)
    ctx.notes["disagreements"] = n_dis
    ctx.notes["histories_where_oracle_fails"] = n_oracle
    ctx.notes["oracle_failure_signatures"] = sorted(seen)
    ctx.notes["statematrix_wrapper_failures"] = statematrix_cases(ctx, 25 if quick else 300)
    ctx.cov["trusted_base"] += [
        "hand-written model Model/NdArray.v, Model/Collection.v tied to ArrayCollection by exact correspondence of "
        "return/raise, .shape, .axes and every get(name) (shape and integer values) after every call of generated histories",
        "python oracle inv_violation (the invariant Inv evaluated on the implementation) and centre_resized",
    ]
    if not proved:
        ctx.report("proof obligations of C16 no longer check: %s" % ctx.failed_obligations,
                   {"theorem_or_correspondence": ctx.failed_obligations}, found_input=False)


def replay(ctx, rp):
    if "statematrix_case" in rp:
        print("replay: StateMatrix wrapper case: %s (%s)" % (rp["statematrix_case"], rp.get("why")))
        return 1
    case = rp["case"]
    r = run_impl(case)
    for o, ob, why in zip(case["ops"], r.obs, r.oracle):
        print("call %s -> %s shape=%s axes=%s oracle=%s" % (
            {k: v for k, v in o.items() if k != "vals"}, ob["res"][0] if ob["res"][0] == "ok" else ob["res"],
            ob["shape"], ob["axes"], why))
    ff = first_failure(case, r)
    verdicts, errors = ctx.run_bool_cases("replay", HEADER, [term(case, r.obs)], chunk=1)
    ctx.cleanup_cases()
    print("replay: model %s the implementation" % ("agrees with" if verdicts[0] else "DISAGREES with"))
    if ff is not None:
        print("replay: VIOLATION reproduced: %s" % json.dumps(ff[1], sort_keys=True))
        return 1
    print("replay: the invariant holds on every observed state")
    return 0 if verdicts[0] else 1
