"""C17 — CRLB, its gradient and confidence intervals match their defining formulas.

proofs      : Props/C17.v (generic field with conjugation; inverse = section hypothesis, checked per evaluation)
translator  : translator/stats_tables.py -> Gen/StatsTables.v (einsum menu, Hessian-branch switches, t table)
t table     : one Interval proof per TSTAT_INTERVAL entry, generated per run (Cases/C17_ttab_*.v, Qed)
tie         : epgpy.stats.crlb / crlb_split / confint vs the model evaluated in Coq over exact Gaussian rationals
              (tolerance 1e-9*(1+|ref|), compared inside Coq); log10 variants by the Interval tactic;
              central differences of the implementation's own cost (supporting evidence);
              Sequence.crlb / Sequence.confint vs stats.* applied to Sequence.jacobian / hessian
"""
import os, re, math, warnings
from fractions import Fraction
import numpy as np
from vlib import core

REPO = os.environ.get("EPGPY_REPO", "/repo")
FINDING_SIG = {"function": "confint", "arg": "hess"}
TOL = "(1 # 1000000000)"

HEADER = """From Coq Require Import List ZArith QArith Qcanon Bool.
From EPG Require Import Scalar QI State StatsTables Stats.
Import ListNotations.
Notation F := QIF (only parsing).
"""

THEADER = """From Coq Require Import Reals List ZArith QArith Qreals.
From Coquelicot Require Import Coquelicot.
From Interval Require Import Tactic.
From EPG Require Import StatsTables Stats.
Import ListNotations.
Local Open Scope R_scope.
Definition dflt : Q * nat * Q := (0%Q, 0%nat, 0%Q).
Ltac t_entry i :=
  let e := eval vm_compute in (nth i tstat_table dflt) in
  change (tstat_entry_ok e);
  cbv [tstat_entry_ok tstat_ok t_norm t_kernel t_gratio Q2R Qnum Qden fst snd Z.of_nat Pos.of_succ_nat Pos.succ
       Nat.odd Nat.even Nat.div2 negb];
  integral with (i_prec 60, i_fuel 2000, i_degree 12).
"""

LHEADER = """From Coq Require Import Reals.
From Coquelicot Require Import Coquelicot.
From Interval Require Import Tactic.
From EPG Require Import Stats.
Local Open Scope R_scope.
Ltac tie n := tryif assert_succeeds (solve [unfold crlb_log_cost, crlb_log_grad; interval with (i_prec 90)]) then idtac "TIE-OK" n else idtac "TIE-FAIL" n.
"""


# ---------------------------------------------------------------- literals
def cq(z):
    return core.qi(complex(z))


def rq(x):
    f = core.frac(float(x))
    return "(qr %s %d)" % (core.zlit(f.numerator), f.denominator)


def rq_frac(f):
    return "(qr %s %d)" % (core.zlit(f.numerator), f.denominator)


def cvec(v):
    return core.clist([cq(x) for x in v])


def cmat(m):
    return core.clist([cvec(r) for r in m])


def cten(t):
    return core.clist([cmat(m) for m in t])


def rvec(v):
    return core.clist([rq(x) for x in v])


def rlit(q):
    q = Fraction(q)
    s = "(%d / %d)" % (abs(q.numerator), q.denominator) if q.denominator != 1 else "%d" % abs(q.numerator)
    return "(- %s)" % s if q < 0 else s


def tolist_c(a):
    a = np.asarray(a)
    if a.ndim == 0:
        z = complex(a)
        return [z.real, z.imag]
    return [tolist_c(x) for x in a]


def fromlist_c(l):
    a = np.array(l, dtype=float)
    return a[..., 0] + 1j * a[..., 1]


# ---------------------------------------------------------------- numpy oracles of the defining formulas
def spec_fisher(J, s):
    return (np.swapaxes(J.conj(), -1, -2) @ J).real / s


def spec_crlb(J, W, s):
    B = np.linalg.inv(spec_fisher(J, s))
    w = np.ones(J.shape[-1]) if W is None else np.asarray(W, float)
    return float(np.sum(w * np.diagonal(B)))


def spec_grad(J, H, W, s):
    B = np.linalg.inv(spec_fisher(J, s))
    w = np.ones(J.shape[-1]) if W is None else np.asarray(W, float)
    out = []
    for x in range(H.shape[-1]):
        dJ = H[..., x]
        dI = (dJ.conj().T @ J + J.conj().T @ dJ).real / s
        out.append(-float(np.sum(w * np.diagonal(B @ dI @ B))))
    return np.array(out)


def spec_confint_var(obs, pred, J, H):
    n, p = J.shape
    res = obs - pred
    sse = float(np.sum(res * res.conj()).real)
    A = (J.conj().T @ J).real
    if H is not None:
        A = A - np.einsum("nqp,n->pq", H.conj(), res).real
    return np.diagonal(np.linalg.inv(A)) * sse / (n - p)


def code_hmle(J, H, res):
    """what stats.confint inverts today (only used to keep generated cases well conditioned)"""
    A = (J.conj().T @ J).real
    if H is None:
        return A
    return A + (H.conj().sum(0).T * res.sum()).real


# ---------------------------------------------------------------- generators
def rint_c(rng, shape, cplx=True, lo=-3, hi=3, den=1):
    a = np.array([rng.randint(lo * den, hi * den) for _ in range(int(np.prod(shape)) or 1)], float).reshape(shape) / den
    if cplx:
        b = np.array([rng.randint(lo * den, hi * den) for _ in range(int(np.prod(shape)) or 1)], float).reshape(shape) / den
        return a + 1j * b
    return a


def gen_jac(rng, batch, n, p, cplx):
    for _ in range(200):
        den = rng.choice([1, 1, 2, 4])
        J = rint_c(rng, batch + (n, p), cplx, den=den)
        I = spec_fisher(J, 1.0)
        if np.all(np.linalg.cond(I) < 1e4):
            return J
    raise RuntimeError("no well-conditioned Jacobian found")


def gen_crlb_case(rng, i):
    batch = [(), (), (2,), (2, 3)][i % 4]
    n, p = rng.randint(3, 6), rng.randint(1, 3)
    cplx = rng.random() < 0.8
    J = gen_jac(rng, batch, n, p, cplx)
    nx = rng.randint(1, 3)
    H = rint_c(rng, batch + (n, p, nx), cplx) if rng.random() < 0.75 else None
    wk = rng.choice(["none", "vec", "vec", "batch"])
    if wk == "none":
        W = None
    elif wk == "vec" or not batch:
        W = np.array([rng.choice([0.5, 1, 2, 3, 0.25, 1.5]) for _ in range(p)])
    else:
        W = np.array([rng.choice([0.5, 1, 2, 3]) for _ in range(int(np.prod(batch)) * p)]).reshape(batch + (p,))
    s = rng.choice([1, 1, 2, 0.5, 4.0, 0.25, 3])
    lg = rng.random() < 0.4
    if i % 8 in (2, 3, 5, 7):      # weighted AND log10, sigma2 != 1, distinct weights per parameter (incl. batched complex J)
        lg = True
        s = s if s != 1 else rng.choice([2, 0.5, 3])
        if W is None or (np.ndim(W) == 1 and len(set(np.asarray(W).tolist())) < p):
            W = np.array([0.5, 2.0, 3.0, 0.25][:p][::rng.choice([1, -1])])
    return {"kind": "crlb", "batch": batch, "n": n, "p": p, "nx": nx, "J": J, "H": H, "W": W, "sigma2": s,
            "log": lg, "cplx": cplx}


SCALE_EXPS = [-40, -33, -27, -20, -17, -13, -7, 0, 7, 13, 20, 27, 33, 40]      # 2**-40 ~ 1e-12 ... 2**40 ~ 1e12


def gen_scaled_case(rng, i):
    """a well-conditioned case whose batch elements are scaled by powers of two (J, H by 2**a_b, sigma2 = 2**e):
    binary64 arithmetic commutes with these scalings, cost/split/gradient scale by exactly 2**(e - 2 a_b)"""
    c = gen_crlb_case(rng, i)
    c["log"] = False
    a = np.array([rng.choice(SCALE_EXPS) for _ in range(int(np.prod(c["batch"])) or 1)], dtype=int).reshape(c["batch"])
    e = rng.choice(SCALE_EXPS)
    if i % 3 == 0:      # the small-magnitude corner: tiny signal and/or large noise variance
        a = -np.abs(a) - (17 if c["p"] == 3 else 25 if c["p"] == 2 else 50) * (rng.random() < 0.5)
        e = abs(e)
    sc = np.ldexp(1.0, a)
    c["J"] = c["J"] * sc[..., None, None]
    if c["H"] is not None:
        c["H"] = c["H"] * sc[..., None, None, None]
    c["sigma2"] = float(np.ldexp(1.0, e))
    c["kexp"] = (2 * a - e)           # value * 2**kexp is the value of the unscaled problem with sigma2 = 1
    c["scaled"] = True
    return c


def norm_factor(c, b):
    if "kexp" not in c or c["kexp"] is None:
        return Fraction(1)
    k = int(np.asarray(c["kexp"])[b])
    return Fraction(2) ** k


def gen_confint_case(rng, i):
    batch = [(), (), (2,), (2, 3)][i % 4]
    p = rng.randint(1, 3)
    n = p + rng.randint(1, 4)
    cplx = rng.random() < 0.8
    for _ in range(300):
        J = gen_jac(rng, batch, n, p, cplx)
        obs, pred = rint_c(rng, batch + (n,), cplx), rint_c(rng, batch + (n,), cplx, den=2)
        H = None
        if i % 2 == 1:
            H = rint_c(rng, batch + (n, p, p), cplx, lo=-1, hi=1, den=2)
            H = (H + np.swapaxes(H, -1, -2)) / 2
        ok = True
        for b in np.ndindex(*batch):
            res = obs[b] - pred[b]
            mats = [code_hmle(J[b], None if H is None else H[b], res)]
            if H is not None:
                mats.append((J[b].conj().T @ J[b]).real - np.einsum("nqp,n->pq", H[b].conj(), res).real)
            if any(np.linalg.cond(m) > 1e4 for m in mats) or abs(np.sum(res * res.conj())) == 0:
                ok = False
            # keep the variances away from 0 (sign decisions must be robust)
            for m in mats:
                if ok and np.min(np.abs(np.diagonal(np.linalg.inv(m)))) < 1e-3:
                    ok = False
        if ok:
            break
    else:
        raise RuntimeError("no well-conditioned confint case found")
    level = 0.95 if (n - p > 9 or rng.random() < 0.7) else 0.99
    return {"kind": "confint", "batch": batch, "n": n, "p": p, "J": J, "H": H, "obs": obs, "pred": pred,
            "level": level, "cplx": cplx}


def case_json(c):
    d = {k: v for k, v in c.items() if k not in ("J", "H", "W", "obs", "pred", "kexp")}
    d["batch"] = list(c["batch"])
    if c.get("kexp") is not None:
        d["kexp"] = np.asarray(c["kexp"]).tolist()
    for k in ("J", "H", "obs", "pred"):
        if k in c:
            d[k] = None if c[k] is None else tolist_c(c[k])
    if "W" in c:
        d["W"] = None if c["W"] is None else np.asarray(c["W"]).tolist()
    return d


def case_from_json(d):
    c = dict(d)
    c["batch"] = tuple(d["batch"])
    for k in ("J", "H", "obs", "pred"):
        if k in d:
            c[k] = None if d[k] is None else fromlist_c(d[k])
            if c[k] is not None and not d.get("cplx", True):
                c[k] = c[k].real.copy()
    if "W" in d:
        c["W"] = None if d["W"] is None else np.array(d["W"])
    if d.get("kexp") is not None:
        c["kexp"] = np.array(d["kexp"], dtype=int)
    return c


# ---------------------------------------------------------------- implementation drivers
def run_crlb_impl(c):
    from epgpy import stats
    J, H, W, s = c["J"], c["H"], c["W"], c["sigma2"]
    out = {}
    with warnings.catch_warnings():
        warnings.simplefilter("ignore")
        out["cost"] = np.asarray(stats.crlb(J.copy(), W=W, sigma2=s))
        out["split"] = np.asarray(stats.crlb_split(J.copy(), W=W, sigma2=s))
        if H is not None:
            c2, g = stats.crlb(J.copy(), H.copy(), W=W, sigma2=s)
            out["cost2"], out["grad"] = np.asarray(c2), np.asarray(g)
        if c["log"]:
            out["cost_log"] = np.asarray(stats.crlb(J.copy(), W=W, sigma2=s, log=True))
            out["split_log"] = np.asarray(stats.crlb_split(J.copy(), W=W, sigma2=s, log=True))
            if H is not None:
                cl, gl = stats.crlb(J.copy(), H.copy(), W=W, sigma2=s, log=True)
                out["cost2_log"], out["grad_log"] = np.asarray(cl), np.asarray(gl)
    return out


def run_confint_impl(c):
    from epgpy import stats
    with warnings.catch_warnings():
        warnings.simplefilter("ignore")
        ci, cb = stats.confint(c["obs"].copy(), c["pred"].copy(), c["J"].copy(), None if c["H"] is None else c["H"].copy(),
                               conflevel=c["level"])
        t = stats.get_tstat_interval(c["level"], c["n"] - c["p"])
    return {"cints": np.asarray(ci), "cband": np.asarray(cb), "tval": float(t)}


def Wb(c, b):
    if c["W"] is None:
        return None
    return np.broadcast_to(c["W"], c["batch"] + (c["p"],))[b]


# ---------------------------------------------------------------- Gallina terms
def crlb_term(c, out, b):
    """model evaluated on the very input of the implementation; for scaled cases both sides are multiplied by the
    exact power of two k that brings the values back to order one (the tolerance has an absolute floor)"""
    n, p, nx = c["n"], c["p"], c["nx"]
    J = np.asarray(c["J"][b], complex)
    W = Wb(c, b)
    k = norm_factor(c, b)
    kv = lambda x: rq_frac(core.frac(float(x)) * k)
    lets = "let J : mat F := %s in let W : option (vec F) := %s in let s : F := %s in let k : F := %s in " % (
        cmat(J), "None" if W is None else "(Some %s)" % rvec(W), rq(c["sigma2"]), rq_frac(k))
    parts = ["inv_ok_b (F:=F) minv_adj %d (fisher (F:=F) %d %d s J)" % (p, n, p),
             "qc_close %s %s (k * crlb (F:=F) minv_adj %d %d J W s)%%K" % (TOL, kv(out["cost"][b]), n, p),
             "all2 (qc_close %s) %s (map (kmul k) (crlb_split (F:=F) minv_adj %d %d J W s))" % (
                 TOL, core.clist([kv(out["split"][(a,) + b]) for a in range(p)]), n, p)]
    if c["H"] is not None:
        H = np.asarray(c["H"][b], complex)
        parts.append("qc_close %s %s (k * crlb (F:=F) minv_adj %d %d J W s)%%K" % (TOL, kv(out["cost2"][b]), n, p))
        parts.append("all2 (qc_close %s) %s (map (kmul k) (crlb_grad (F:=F) minv_adj %d %d %d J %s W s))" % (
            TOL, core.clist([kv(x) for x in out["grad"][b]]), n, p, nx, cten(H)))
    return "(" + lets + " && ".join(parts) + ")"


def nonfinite_outputs(c, out):
    """crlb / crlb_split / gradient must be finite numbers on a full-rank, well-conditioned problem"""
    for key in ("cost", "split", "cost2", "grad", "cost_log", "split_log", "cost2_log", "grad_log"):
        if key in out and not np.all(np.isfinite(out[key])):
            bad = np.argwhere(~np.isfinite(np.asarray(out[key])))[0]
            b = tuple(int(x) for x in (bad[1:1 + len(c["batch"])] if key.startswith("split") else bad[:len(c["batch"])]))
            J = np.asarray(c["J"][b], complex)
            nrm = np.sqrt(np.sum(np.abs(J) ** 2, axis=0))
            Bn = np.linalg.inv(((J / nrm).conj().T @ (J / nrm)).real)
            w = np.ones(c["p"]) if Wb(c, b) is None else Wb(c, b)
            ref = float(np.sum(w * np.diagonal(Bn) / nrm ** 2) * c["sigma2"])
            return "stats.%s returns %r for batch element %s; Re(J^H J)/sigma2 has full rank (condition number %.3g after column normalisation), defining formula tr(W inv(Re(J^H J)/sigma2)) = %r" % (
                "crlb_split" if key.startswith("split") else "crlb", np.asarray(out[key]).tolist(), b,
                np.linalg.cond(np.linalg.inv(Bn)), ref)
    return None


def confint_term(c, out, b, spec=False, switches=None):
    """faithful model (switches from Gen) or, with spec=True, the property's formula (switches false false)"""
    n, p = c["n"], c["p"]
    J = np.asarray(c["J"][b], complex)
    H = None if c["H"] is None else np.asarray(c["H"][b], complex)
    if spec:
        sw = "false false"
    elif switches is None or switches[0] is None:
        sw = "confint_hess_outer confint_hess_plus"      # as generated in Gen/StatsTables.v
    else:
        sw = "%s %s" % (core.coq_bool(switches[0]), core.coq_bool(switches[1]))   # as read from the source on this run
    lvl = Fraction(repr(c["level"]))
    tf = core.frac(out["tval"])
    lets = "let J : mat F := %s in let H : option (ten3 F) := %s in let obs : vec F := %s in let pred : vec F := %s in " % (
        cmat(J), "None" if H is None else "(Some %s)" % cten(H), cvec(np.asarray(c["obs"][b], complex)),
        cvec(np.asarray(c["pred"][b], complex)))
    items = []
    for name, arr, cnt in (("confint_var", out["cints"][b], p), ("confint_predvar", out["cband"][b], n)):
        for a in range(cnt):
            v = float(arr[a])
            mv = "(vget (%s (F:=F) minv_adj %s %d %d obs pred J H) %d)" % (name, sw, n, p, a)
            # The property is a statement about real numbers: half-width = t * sqrt(variance).  A finite result v
            # must satisfy |v^2 - t^2 var| <= tol (1 + |t^2 var|)  (v^2 >= 0, so var >= -tol follows);  NaN is the
            # result exactly when the variance is not positive beyond that same tolerance.  When the exact variance
            # is 0 (a Jacobian row in the kernel of an indefinite covariance) the binary64 residue may have either
            # sign, so the implementation legitimately returns a tiny number, 0 or NaN there.
            if math.isnan(v):
                items.append("(negb (qc_pos %s) || qc_close %s (qr 0 1) (tq * tq * %s)%%K)" % (mv, TOL, mv))
            else:
                sq = core.frac(v) ** 2
                items.append("qc_close %s %s (tq * tq * %s)%%K" % (TOL, rq_frac(sq), mv))
    body = "inv_ok_b (F:=F) minv_adj %d (confint_info (F:=F) %s %d %d J H (residual (F:=F) %d obs pred)) && %s" % (
        p, sw, n, p, n, " && ".join(items))
    return ("(match tstat_lookup (%d # %d) %d with Some t => Qeq_bool t %s && (let tq : F := (Q2Qc t, Q2Qc 0) in %s %s) | None => false end)"
            % (lvl.numerator, lvl.denominator, n - p, core.qlit(tf), lets, body))


# ---------------------------------------------------------------- t table by Interval
def run_ttable(ctx, nentries):
    idx = list(range(nentries))
    nsh = min(core.NPROC, max(1, nentries))
    files, members = [], {}
    for s in range(nsh):
        mine = idx[s::nsh]
        if not mine:
            continue
        path = os.path.join(core.CASES, "%s_p%d_ttab_%d.v" % (ctx.pid, os.getpid(), s))
        with open(path, "w") as f:
            f.write(THEADER)
            f.write("Goal length tstat_table = %d%%nat. Proof. reflexivity. Qed.\n" % nentries)
            for i in mine:
                f.write("Lemma ttab_%d : tstat_entry_ok (nth %d tstat_table dflt).\nProof. t_entry %d%%nat. Qed.\n" % (i, i, i))
                f.write("Goal True. idtac \"TT-OK\" %d. exact I. Qed.\n" % i)
        files.append(path)
        members[path] = mine
    res = core.coqc_many(files, timeout=240)
    ctx._case_files += files
    ok, bad = set(), {}
    for path in files:
        rc, out = res[path]
        done = {int(m) for m in re.findall(r"TT-OK (\d+)", out)}
        ok |= done
        if rc != 0:
            # first lemma not marked done is the one that failed; later ones were not reached: run them one by one
            rest = [i for i in members[path] if i not in done]
            if "length tstat_table" in out and "ttab_" not in out and not done:
                bad[-1] = out[-600:]
            singles = []
            for i in rest:
                p1 = os.path.join(core.CASES, "%s_p%d_ttab1_%d.v" % (ctx.pid, os.getpid(), i))
                with open(p1, "w") as f:
                    f.write(THEADER + "Lemma ttab_%d : tstat_entry_ok (nth %d tstat_table dflt).\nProof. t_entry %d%%nat. Qed.\n" % (i, i, i))
                singles.append((i, p1))
            r1 = core.coqc_many([p for _, p in singles], timeout=60)
            ctx._case_files += [p for _, p in singles]
            for i, p1 in singles:
                if r1[p1][0] == 0:
                    ok.add(i)
                else:
                    bad[i] = r1[p1][1][-600:]
    return ok, bad


# ---------------------------------------------------------------- log10 variants by Interval
def log_goals(c, out):
    goals = []

    def close(term, ref):
        ref = Fraction(*float(ref).as_integer_ratio())
        tol = Fraction(1, 10 ** 9) * (1 + abs(ref))
        return "Rabs (%s - %s) <= %s" % (term, rlit(ref), rlit(tol))
    for b in np.ndindex(*c["batch"]):
        cost = Fraction(*float(out["cost"][b]).as_integer_ratio())
        conj = [close("crlb_log_cost %s" % rlit(cost), out["cost_log"][b])]
        for a in range(c["p"]):
            conj.append(close("crlb_log_cost %s" % rlit(Fraction(*float(out["split"][(a,) + b]).as_integer_ratio())),
                              out["split_log"][(a,) + b]))
        if c["H"] is not None:
            conj.append(close("crlb_log_cost %s" % rlit(cost), out["cost2_log"][b]))
            for x in range(c["nx"]):
                g = Fraction(*float(out["grad"][b][x]).as_integer_ratio())
                conj.append(close("crlb_log_grad %s %s" % (rlit(cost), rlit(g)), out["grad_log"][b][x]))
        goals.append(" /\\\n  ".join(conj))
    return goals


def run_log_tie(ctx, goals_meta):
    if not goals_meta:
        return 0, []
    nsh = min(core.NPROC, max(1, len(goals_meta) // 3))
    files = []
    for s in range(nsh):
        path = os.path.join(core.CASES, "%s_p%d_logtie_%d.v" % (ctx.pid, os.getpid(), s))
        with open(path, "w") as f:
            f.write(LHEADER)
            for k in range(s, len(goals_meta), nsh):
                f.write("Goal %s.\nProof. repeat split; tie %d%%nat. Abort.\n" % (goals_meta[k][0], k))
        files.append(path)
    res = core.coqc_many(files)
    ctx._case_files += files
    okc, failc = {}, {}
    for path in files:
        rc, out = res[path]
        if rc != 0:
            ctx.report("log10 Interval tie shard failed to compile", {"theorem_or_correspondence": "C17 log10 tie", "coq_output": out[-1500:]}, found_input=False)
            continue
        for m in re.findall(r"TIE-OK (\d+)", out):
            okc[int(m)] = okc.get(int(m), 0) + 1
        for m in re.findall(r"TIE-FAIL (\d+)", out):
            failc[int(m)] = failc.get(int(m), 0) + 1
    bad = [k for k in range(len(goals_meta)) if failc.get(k) or not okc.get(k)]
    return len(goals_meta) - len(bad), bad


# ---------------------------------------------------------------- oracles on the implementation (failing-input search)
def crlb_oracle_disagrees(c, out):
    why = nonfinite_outputs(c, out)
    if why:
        return why
    if c.get("scaled"):
        # same comparison on the values brought back to order one by the exact power of two
        for b in np.ndindex(*c["batch"]):
            k = float(norm_factor(c, b))
            J = np.asarray(c["J"][b], complex)
            W = Wb(c, b)
            ref = spec_crlb(J, W, c["sigma2"]) * k
            if not abs(float(out["cost"][b]) * k - ref) <= 1e-8 * (1 + abs(ref)):
                return "crlb cost %r, defining formula tr(W inv(Re(J^H J)/sigma2)) = %r (batch %s)" % (float(out["cost"][b]), ref / k, b)
            B = np.linalg.inv(spec_fisher(J, c["sigma2"])) * k
            w = np.ones(c["p"]) if W is None else W
            for a in range(c["p"]):
                if not abs(float(out["split"][(a,) + b]) * k - w[a] * B[a, a]) <= 1e-8 * (1 + abs(B[a, a] * w[a])):
                    return "crlb_split[%d] %r, diagonal of the inverse Fisher matrix %r (batch %s)" % (a, float(out["split"][(a,) + b]), w[a] * B[a, a] / k, b)
            if c["H"] is not None:
                g = spec_grad(J, np.asarray(c["H"][b], complex), W, c["sigma2"]) * k
                if not np.all(np.abs(out["grad"][b] * k - g) <= 1e-8 * (1 + np.abs(g))):
                    return "crlb gradient %r, exact derivative %r (batch %s)" % (out["grad"][b].tolist(), (g / k).tolist(), b)
        return None
    for b in np.ndindex(*c["batch"]):
        J = np.asarray(c["J"][b], complex)
        W = Wb(c, b)
        ref = spec_crlb(J, W, c["sigma2"])
        if not abs(float(out["cost"][b]) - ref) <= 1e-8 * (1 + abs(ref)):
            return "crlb cost %r, defining formula tr(W inv(Re(J^H J)/sigma2)) = %r (batch %s)" % (float(out["cost"][b]), ref, b)
        B = np.linalg.inv(spec_fisher(J, c["sigma2"]))
        w = np.ones(c["p"]) if W is None else W
        for a in range(c["p"]):
            if not abs(float(out["split"][(a,) + b]) - w[a] * B[a, a]) <= 1e-8 * (1 + abs(B[a, a] * w[a])):
                return "crlb_split[%d] %r, diagonal of the inverse Fisher matrix %r (batch %s)" % (a, float(out["split"][(a,) + b]), w[a] * B[a, a], b)
        if c["H"] is not None:
            g = spec_grad(J, np.asarray(c["H"][b], complex), W, c["sigma2"])
            if not np.all(np.abs(out["grad"][b] - g) <= 1e-8 * (1 + np.abs(g))):
                return "crlb gradient %r, exact derivative %r (batch %s)" % (out["grad"][b].tolist(), g.tolist(), b)
        if c["log"]:
            if not abs(float(out["cost_log"][b]) - math.log10(ref)) <= 1e-8 * (1 + abs(math.log10(ref))):
                return "log10 cost %r, log10 of the defining formula %r" % (float(out["cost_log"][b]), math.log10(ref))
            sl = np.array([float(out["split_log"][(a,) + b]) for a in range(c["p"])])
            exp = np.log10(w * np.diagonal(B))
            if not np.all(np.abs(sl - exp) <= 1e-8 * (1 + np.abs(exp))):
                return "crlb_split(log=True) %r, log10 of the weighted diagonal of the inverse Fisher matrix %r (W=%r, batch %s)" % (
                    sl.tolist(), exp.tolist(), None if W is None else np.asarray(W).tolist(), b)
            if not abs(float(np.sum(10.0 ** sl)) - ref) <= 1e-8 * (1 + abs(ref)):
                return "sum(10**crlb_split(log=True)) = %r but crlb(J, W) = %r (batch %s)" % (float(np.sum(10.0 ** sl)), ref, b)
            if c["H"] is not None:
                gl = g / ref / math.log(10)
                if not np.all(np.abs(out["grad_log"][b] - gl) <= 1e-8 * (1 + np.abs(gl))):
                    return "log10 gradient %r, exact derivative %r" % (out["grad_log"][b].tolist(), gl.tolist())
    return None


def central_difference_disagrees(c, out):
    """gradient vs central differences of the implementation's own cost along J + h*H[..., x]"""
    from epgpy import stats
    if c["H"] is None:
        return None
    h = 1e-6
    for x in range(c["nx"]):
        with warnings.catch_warnings():
            warnings.simplefilter("ignore")
            cp = np.asarray(stats.crlb(c["J"] + h * c["H"][..., x], W=c["W"], sigma2=c["sigma2"]))
            cm = np.asarray(stats.crlb(c["J"] - h * c["H"][..., x], W=c["W"], sigma2=c["sigma2"]))
        fd = (cp - cm) / (2 * h)
        g = out["grad"][..., x]
        if not np.all(np.abs(fd - g) <= 1e-5 * (np.abs(g) + np.abs(out["cost"]) + 1)):
            return "gradient[%d] %r vs central difference of crlb itself %r" % (x, np.asarray(g).tolist(), np.asarray(fd).tolist())
    return None


def confint_oracle_disagrees(c, out, with_hess_only=False):
    from epgpy import stats
    t = stats.TSTAT_INTERVAL.get((c["level"], c["n"] - c["p"]))
    for b in np.ndindex(*c["batch"]):
        H = None if c["H"] is None else np.asarray(c["H"][b], complex)
        var = spec_confint_var(np.asarray(c["obs"][b], complex), np.asarray(c["pred"][b], complex), np.asarray(c["J"][b], complex), H)
        got = np.asarray(out["cints"][b], float) ** 2
        ref = t * t * var
        # finite: close to the formula; NaN: only where the variance is not positive beyond the tolerance
        bad = (np.isnan(got) & (ref > 1e-8 * (1 + np.abs(ref)))) | (~np.isnan(got) & ~(np.abs(got - ref) <= 1e-8 * (1 + np.abs(ref))))
        if np.any(bad):
            return "confint half-widths %r; defining formula t*sqrt(diag(SSE/dof*inv(Re(J^H J)%s))) = %r (batch %s)" % (
                np.asarray(out["cints"][b]).tolist(), " - sum_n res_n H_n" if H is not None else "",
                (t * np.sqrt(np.where(var >= 0, var, np.nan))).tolist(), b)
    return None


WITNESS = {"kind": "confint", "batch": [], "n": 2, "p": 1, "level": 0.95, "cplx": True,
           "J": [[[1.0, 0.0]], [[1.0, 0.0]]], "H": [[[[1.0, 0.0]]], [[[0.0, 0.0]]]],
           "obs": [[1.0, 0.0], [2.0, 0.0]], "pred": [[0.0, 0.0], [0.0, 0.0]]}


def replay_witness():
    """the witness of C17_confint_hessian_term_refuted on the implementation"""
    c = case_from_json(WITNESS)
    out = run_confint_impl(c)
    why = confint_oracle_disagrees(c, out)
    return c, out, why


# ---------------------------------------------------------------- Sequence wrappers
def sequence_checks(ctx):
    from epgpy.sequence import Sequence, operators
    from epgpy import stats
    excit, adc = operators.T(90, 90), operators.ADC
    refoc = operators.T("alpha", 0)
    shift = operators.S(1, duration=5)
    relax = operators.E(5, "T1", "T2")
    seqs = [
        ("mse5", Sequence([excit] + [shift, relax, refoc, shift, relax, adc] * 5), ["alpha", "T2"], dict(alpha=150, T1=1e3, T2=30)),
        ("ssfp4", Sequence([operators.T("alpha", 90), operators.E(8, "T1", "T2"), adc, operators.S(1)] * 4), ["alpha", "T1"],
         dict(alpha=[40, 25], T1=800, T2=60)),
    ]
    nbad = 0
    for name, seq, variables, vals in seqs:
        with warnings.catch_warnings():
            warnings.simplefilter("ignore")
            try:
                sig, jac = seq.jacobian(variables)(**vals)
                _, jac2, hes2 = seq.hessian(variables, variables)(**vals)
                checks = []
                for W, s2, lg in ((None, 1, False), ([1, 2], 2.0, False), ([0.5, 3], 0.5, True)):
                    a = seq.crlb(variables, weights=W, sigma2=s2, log=lg)(**vals)
                    checks.append(("crlb W=%s sigma2=%s log=%s" % (W, s2, lg), [a], [stats.crlb(jac, W=W, sigma2=s2, log=lg)]))
                    a = seq.crlb(variables, gradient=True, weights=W, sigma2=s2, log=lg)(**vals)
                    checks.append(("crlb+gradient W=%s sigma2=%s log=%s" % (W, s2, lg), list(a), list(stats.crlb(jac2, H=hes2, W=W, sigma2=s2, log=lg))))
                _, jac3, hes3 = seq.hessian(variables, [variables[0]])(**vals)
                a = seq.crlb(variables, gradient=[variables[0]])(**vals)
                checks.append(("crlb gradient=[%s]" % variables[0], list(a), list(stats.crlb(jac3, H=hes3))))
                # gradient variables in the caller's (here: reverse alphabetical) order
                gv = sorted(variables + [v for v in vals if v not in variables], reverse=True)[:2]
                _, jac4, hes4 = seq.hessian(variables, gv)(**vals)
                a = seq.crlb(variables, gradient=gv)(**vals)
                checks.append(("crlb gradient=%s" % gv, list(a), list(stats.crlb(jac4, H=hes4))))
                obs = sig.real + 0.01 * np.cos(np.arange(sig.shape[-1]))
                for lvl in (0.95, 0.99) if sig.shape[-1] - len(variables) <= 9 else (0.95,):
                    ci, cb = seq.confint(obs, variables, conflevel=lvl, return_cband=True)(**vals)
                    checks.append(("confint level=%s" % lvl, [ci, cb], list(stats.confint(obs, sig, jac, conflevel=lvl))))
                # shapes: cost has the batch shape of the values, gradient one trailing axis per gradient variable
                cst, grd = seq.crlb(variables, gradient=True)(**vals)
                shp_ok = np.shape(cst) == jac.shape[:-2] and np.shape(grd) == jac.shape[:-2] + (len(variables),)
                if not shp_ok:
                    checks.append(("shapes", [np.zeros(1)], [np.ones(1)]))
            except Exception as e:
                ctx.report("Sequence.crlb/confint raised %s: %s" % (type(e).__name__, str(e)[:200]), {"sequence": name},
                           found_input=True, signature={"function": "Sequence", "raises": type(e).__name__})
                nbad += 1
                continue
        for what, got, ref in checks:
            ctx.count(("seq", name, what), nontrivial=True)
            same = len(got) == len(ref) and all(np.shape(g) == np.shape(r) and np.allclose(g, r, rtol=1e-12, atol=0, equal_nan=True)
                                                for g, r in zip(got, ref))
            if not same:
                nbad += 1
                ctx.report("Sequence.%s differs from stats.* applied to the sequence's own Jacobian/Hessian (%s)" % (what, name),
                           {"sequence": name, "what": what, "got": [np.asarray(g).tolist() for g in got],
                            "expected": [np.asarray(r).tolist() for r in ref]}, found_input=True,
                           signature={"function": "Sequence", "what": what.split(" ")[0]})
    return nbad


# ---------------------------------------------------------------- main
def run(ctx):
    proved = ctx.prove(gen=True)
    quick = ctx.tier == "quick"

    # ---- switches as read from the source on this run
    try:
        from translator import stats_tables
        prims, outer, plus, entries = stats_tables.extract(REPO)
        ctx.notes["confint_hess_switches"] = {"outer": outer, "plus": plus}
    except Exception as e:
        prims, outer, plus, entries = None, None, None, None
        ctx.notes["stats_tables_error"] = str(e)[:300]

    # ---- t table (Interval proofs, per run)
    nent = len(entries) if entries else 108
    tok, tbad = run_ttable(ctx, nent)
    ctx.cov["obligations"] += nent
    ctx.cov["discharged"] += len(tok)
    ctx.notes["ttable"] = {"entries": nent, "proved": len(tok), "failed": sorted(tbad)}
    for i, msg in sorted(tbad.items()):
        ent = entries[i] if entries and 0 <= i < len(entries) else None
        ctx.report("TSTAT_INTERVAL entry %s is not the Student-t quantile: |2 c_nu Int_0^t (1+x^2/nu)^(-(nu+1)/2) dx - level| <= 1e-8 not provable"
                   % (ent,), {"ttable_entry": ent, "index": i, "coq_output": msg,
                              "theorem_or_correspondence": "tstat_entry_ok (Interval)"},
                   found_input=ent is not None, signature={"function": "get_tstat_interval", "entry": list(ent[:2]) if ent else None})

    # ---- the refutation witness on the implementation (finding switch)
    try:
        wc, wout, wwhy = replay_witness()
    except Exception as e:
        wc, wout, wwhy = None, None, "confint raised %s: %s" % (type(e).__name__, e)
    ctx.notes["hessian_witness"] = wwhy or "implementation agrees with the defining formula on the witness"
    if wwhy:
        ctx.report("confint(..., hess): the residual-weighted Hessian term is contracted over the wrong index / enters with the wrong sign: " + wwhy,
                   {"case": WITNESS, "implementation": {"cints": np.asarray(wout["cints"]).tolist()} if wout else None,
                    "theorem": "C17_confint_hessian_term_refuted", "switches": {"outer": outer, "plus": plus}},
                   found_input=True, signature=FINDING_SIG)

    # ---- correspondence: crlb / crlb_split / gradient
    ncr = 48 if quick else 600
    ncf = 40 if quick else 400
    terms, meta, logmeta = [], [], []
    shapes = {}
    nsc = 30 if quick else 400
    ctx.cov["scaled_cases"] = nsc
    for i in range(ncr + nsc):
        c = gen_crlb_case(ctx.rng, i) if i < ncr else gen_scaled_case(ctx.rng, i - ncr)
        try:
            out = run_crlb_impl(c)
        except Exception as e:
            ctx.report("stats.crlb raised %s on a valid input: %s" % (type(e).__name__, str(e)[:200]), {"case": case_json(c)},
                       found_input=True, signature={"function": "crlb", "raises": type(e).__name__})
            continue
        ctx.count(("crlb", case_json(c)), nontrivial=True)
        shapes[str((c["batch"], c["n"], c["p"]))] = shapes.get(str((c["batch"], c["n"], c["p"])), 0) + 1
        if i < 2:
            ctx.sample({"crlb_case": {k: v for k, v in case_json(c).items() if k in ("batch", "n", "p", "nx", "sigma2", "log", "W")}})
        expected = c["batch"]
        if np.shape(out["cost"]) != expected or np.shape(out["split"]) != (c["p"],) + expected or \
                (c["H"] is not None and np.shape(out["grad"]) != expected + (c["nx"],)):
            ctx.report("crlb/crlb_split output shapes %s %s for batch shape %s" % (np.shape(out["cost"]), np.shape(out["split"]), expected),
                       {"case": case_json(c)}, found_input=True, signature={"function": "crlb", "why": "shape"})
            continue
        why = nonfinite_outputs(c, out)
        if why:
            ctx.report(why, {"case": case_json(c)}, found_input=True, signature={"function": "crlb", "why": "not finite"})
            continue
        for b in np.ndindex(*c["batch"]):
            terms.append(crlb_term(c, out, b))
            meta.append((c, out, b))
        why = None if c.get("scaled") else central_difference_disagrees(c, out)
        ctx.cov["central_difference_runs"] = ctx.cov.get("central_difference_runs", 0) + (c["H"] is not None and not c.get("scaled"))
        if why:
            ctx.report("crlb gradient is not the derivative of crlb: " + why, {"case": case_json(c)}, found_input=True,
                       signature={"function": "crlb", "arg": "H"})
        if c["log"]:
            for g in log_goals(c, out):
                logmeta.append((g, c, out))
            why = crlb_oracle_disagrees(c, out)      # log10 variants against the defining formula (numpy)
            if why:
                ctx.report("log10 variant of crlb / crlb_split deviates from its defining formula: " + why, {"case": case_json(c)},
                           found_input=True, signature={"function": "crlb", "arg": "log"})
    for i in range(ncf):
        c = gen_confint_case(ctx.rng, i)
        try:
            out = run_confint_impl(c)
        except Exception as e:
            ctx.report("stats.confint raised %s on a valid input: %s" % (type(e).__name__, str(e)[:200]), {"case": case_json(c)},
                       found_input=True, signature={"function": "confint", "raises": type(e).__name__})
            continue
        ctx.count(("confint", case_json(c)), nontrivial=True)
        if i < 2:
            ctx.sample({"confint_case": {k: v for k, v in case_json(c).items() if k in ("batch", "n", "p", "level")}, "hess": c["H"] is not None})
        if np.shape(out["cints"]) != c["batch"] + (c["p"],) or np.shape(out["cband"]) != c["batch"] + (c["n"],):
            ctx.report("confint output shapes %s %s" % (np.shape(out["cints"]), np.shape(out["cband"])), {"case": case_json(c)},
                       found_input=True, signature={"function": "confint", "why": "shape"})
            continue
        for b in np.ndindex(*c["batch"]):
            terms.append(confint_term(c, out, b, switches=(outer, plus)))
            meta.append((c, out, b))
    ctx.cov["shape_distribution"] = shapes
    verdicts, errors = ctx.run_bool_cases("corr", HEADER, terms, chunk=12)
    for e in errors:
        ctx.report("correspondence shard failed to evaluate", {"theorem_or_correspondence": "C17 correspondence (Cases)", "coq_output": e}, found_input=False)
    reported = set()
    nagree = 0
    for (c, out, b), v in zip(meta, verdicts):
        if v:
            nagree += 1
        if v is False and id(c) not in reported:
            reported.add(id(c))
            why = crlb_oracle_disagrees(c, out) if c["kind"] == "crlb" else confint_oracle_disagrees(c, out)
            if why and c["kind"] == "confint" and c["H"] is not None:
                sig = FINDING_SIG
            else:
                sig = {"function": c["kind"], "corr": "model"}
            if why:
                ctx.report("stats.%s deviates from its defining formula: %s" % (c["kind"], why), {"case": case_json(c)},
                           found_input=True, signature=sig)
            else:
                ctx.report("model and implementation disagree on stats.%s (the numpy oracle of the defining formula agrees with the implementation)" % c["kind"],
                           {"case": case_json(c), "theorem_or_correspondence": "C17 correspondence Model/Stats.v vs epgpy.stats"},
                           found_input=False, signature=sig)
    ctx.cov["correspondence_terms"] = len(terms)
    ctx.cov["correspondence_agree"] = nagree

    # ---- the defining formula of the Hessian term on the random Hessian cases (numpy oracle; finding detector)
    nh = nhbad = 0
    for (c, out, b) in meta:
        if c["kind"] == "confint" and c["H"] is not None and b == tuple(0 for _ in c["batch"]):
            nh += 1
            why = confint_oracle_disagrees(c, out)
            if why:
                nhbad += 1
                if nhbad == 1:
                    ctx.report("confint(..., hess) deviates from SSE/dof*inv(Re(J^H J) - sum_n res_n H_n): " + why, {"case": case_json(c)},
                               found_input=True, signature=FINDING_SIG)
    ctx.notes["confint_hessian_cases"] = {"run": nh, "deviating_from_property_formula": nhbad}

    # ---- log10 variants (Interval)
    nlog, badlog = run_log_tie(ctx, logmeta)
    ctx.cov["interval_log10_goals"] = nlog
    for k in badlog[:3]:
        g, c, out = logmeta[k]
        why = crlb_oracle_disagrees(c, out)
        ctx.report("log10 variant of crlb/crlb_split/gradient is not log10(cost), grad/cost/ln10: %s" % (why or "Interval goal not provable"),
                   {"case": case_json(c), "theorem_or_correspondence": "C17 log10 Interval tie"}, found_input=bool(why),
                   signature={"function": "crlb", "arg": "log"})

    # ---- Sequence wrappers
    sequence_checks(ctx)

    ctx.cov["trusted_base"] += [
        "translator/stats_tables.py (Python ast -> Gen/StatsTables.v: crlb / crlb_split / confint normalised to value trees (locals substituted, helpers inlined, if/conditional expressions as truth tables, in-place operations kept distinct, dead-code and aliasing guards) and compared with the reference texts the model is written for; Hessian-branch switches; TSTAT literals)",
        "hand-written model Model/Stats.v tied to epgpy.stats by correspondence over exact Gaussian rationals (tolerance 1e-9 relative, compared in Coq)",
        "numpy.linalg.inv modelled as a parameter with hypothesis A*inv A = I = inv A*A; for every evaluated case the hypothesis is checked (inv_ok_b) on the executed adjugate inverse",
        "numpy.sqrt / log10 are not modelled: half-widths are compared through their squares, log10 through the Interval tactic",
        "Student-t density constant Gamma((nu+1)/2)/(sqrt(nu pi) Gamma(nu/2)) in closed form (t_norm) is part of the specification",
        "Coquelicot + Interval (RInt, verified integration); axioms of the real-number theorems as printed by Print Assumptions; Interval proofs additionally use the primitive 63-bit integer / float declarations of the standard library",
    ]
    if not proved:
        # obligations broke (translator menu, generated table, proofs): the searches above are the failing-input search
        if not any(v[1] for v in ctx.violations):
            ctx.report("proof obligations of C17 no longer check: %s" % ctx.failed_obligations,
                       {"theorem_or_correspondence": ctx.failed_obligations}, found_input=False)
        elif ctx.failed_obligations:
            ctx.notes["failed_obligations_with_failing_input"] = ctx.failed_obligations


def replay(ctx, rp):
    if "case" in rp:
        c = case_from_json(rp["case"])
        if c["kind"] == "confint":
            out = run_confint_impl(c)
            why = confint_oracle_disagrees(c, out)
        else:
            out = run_crlb_impl(c)
            why = crlb_oracle_disagrees(c, out) or central_difference_disagrees(c, out)
        print("replay:", ("VIOLATION reproduced: " + why) if why else "implementation agrees with the defining formula")
        return 1 if why else 0
    if "ttable_entry" in rp and rp["ttable_entry"]:
        lvl, nu, t = rp["ttable_entry"]
        try:
            from scipy import stats as st
            ref = st.t.interval(lvl, nu)[1]
            bad = abs(ref - t) > 1e-9 * abs(ref)
            print("replay: table %r vs scipy %r" % (t, ref))
            return 1 if bad else 0
        except Exception:
            print("replay: scipy not available; re-run ./check C17 for the Interval proof of this entry")
            return 1
    print("replay: not an input replay (%s)" % rp.get("what"))
    return 1
