"""C18 — Shaped RF pulses equal the ordered product of hard pulses and evolutions.

(a) structural correspondence: the operator list RFPulse(...) really builds (types, flip angles, phases,
    durations, E/P parameters; ValueError or not) against Model/RFPulse.v evaluated in Coq over exact
    rationals (waveform samples are dyadic Pythagorean complex numbers, so |v| is rational);
(b) effect: RFPulse applied to a state matrix against the product of epg.T / epg.E applied by hand,
    total duration, phase offset vs rotated samples, encode_phase vs modify;
(c) estimate_rf / estimate_alpha mutual inverses (compared through cos alpha), boundary values, and the
    closed form proved in Coq checked with the Interval tactic.
"""
import os
import math, os
from fractions import Fraction as F
import numpy as np
from vlib import core

EPS = F(1, 10 ** 12)

HEADER = """From Coq Require Import List ZArith QArith Qcanon.
From EPG Require Import Scalar State Ops RFPulse.
Import ListNotations.
Open Scope Z_scope.
Notation PPhi := (@PPhi QcNum). Notation PT := (@PT QcNum). Notation PE := (@PE QcNum). Notation PP := (@PP QcNum).
Notation DScalar := (@DScalar QcNum). Notation DList := (@DList QcNum).
Definition eps : Qc := qq 1 1000000000000.
Definition case_ok (m obs : option (list (pop QcNum))) (dsum : Qc) : bool :=
  ops_close QcNum eps m obs &&
  match m with Some ops => close QcNum eps (total_duration QcNum ops) dsum | None => true end.
Definition enc_ok (m : option (list (pop QcNum))) (D grad gamma x : Qc) (rw : option Qc) (obs : option (list (pop QcNum))) : bool :=
  match m with Some ops => ops_close QcNum eps (Some (encode_phase QcNum ops D grad gamma x rw)) obs | None => false end.
"""

TRIPLES = [(3, 4, 5), (4, 3, 5), (5, 12, 13), (12, 5, 13), (8, 15, 17), (7, 24, 25), (1, 0, 1), (0, 1, 1)]


# ------------------------------------------------------------------ literals
def fr(x):
    """exact rational of a float / int / Fraction / 'a/b' string"""
    if isinstance(x, F):
        return x
    if isinstance(x, str):
        return F(x)
    if isinstance(x, (int, np.integer)):
        return F(int(x))
    return F(*float(x).as_integer_ratio())


def q(x):
    f = fr(x)
    return "(qq %s %d)" % (core.zlit(f.numerator), f.denominator)


def qopt(x):
    return "None" if x is None else "(Some %s)" % q(x)


def fl(x):
    return None if x is None else float(fr(x))


def s_(x):
    return None if x is None else str(fr(x))


# ------------------------------------------------------------------ generator
def gen_sample(rng, zero_p=0.1):
    """dyadic complex value with rational modulus: returns (re, im, mag) as Fractions"""
    if rng.random() < zero_p:
        return F(0), F(0), F(0)
    a, b, c = rng.choice(TRIPLES)
    D = 1
    while D < c:
        D *= 2
    D *= rng.choice([1, 1, 2])
    m = F(rng.choice([1, 2, 3, 4]), 4)
    sx, sy = rng.choice([1, -1]), rng.choice([1, -1])
    return F(sx * a, D) * m, F(sy * b, D) * m, F(c, D) * m


def gen_case(rng):
    n = rng.choice([1, 1, 2, 3, 4, 5, 6, 7, 8])
    mode = rng.choice(["rf", "rf", "rf", "both", "alpha"])
    fam = rng.choice(["ok"] * 12 + ["empty", "big", "badlen", "negdur", "none"])
    c = {"kind": "struct", "family": fam}
    abs_sum = F(1)
    if mode == "alpha":
        # constant-phase waveform s_i * u (the only branch of estimate_rf that runs without scipy)
        ua, ub, uc = rng.choice([(1, 0, 1), (1, 0, 1), (0, 1, 1), (3, 4, 5), (4, 3, 5)])
        D = 1
        while D < uc:
            D *= 2
        u = (F(ua, D), F(ub, D), F(uc, D))
        while True:
            ss = [F(rng.choice([-4, -2, -1, 1, 2, 3, 4, 4]), 4) for _ in range(n)]
            if ua == 1 and ub == 0 and rng.random() < 0.3:
                ss[rng.randrange(n)] = F(0)          # zero sample: np.angle(0) = 0 keeps the phase constant only for u = 1
            if sum(ss) != 0:
                break
        samples = [(s * u[0], s * u[1], abs(s) * u[2]) for s in ss]
        abs_sum = abs(sum(ss)) * u[2]
        c["const_phase"] = {"u": [str(x) for x in u], "ss": [str(s) for s in ss]}
    else:
        samples = [gen_sample(rng) for _ in range(n)]
    if fam == "empty":
        samples, n, mode = [], 0, "both"
    if fam == "big" and mode != "alpha":
        samples[rng.randrange(n)] = (F(3, 2), F(0), F(3, 2))
    c["samples"] = [[str(x) for x in s] for s in samples]
    c["abs_sum"] = str(abs_sum)
    # durations
    if rng.random() < 0.5:
        d = F(rng.choice([1, 2, 3, 4, 6]), rng.choice([1, 2, 4, 8]))
        dur = {"scalar": str(d * max(n, 1) if rng.random() < 0.7 else d)}
        if fam == "negdur":
            dur = {"scalar": "-1"}
    else:
        ds = [F(rng.choice([0, 1, 1, 2, 3, 4, 8]), 4) for _ in range(n)]
        if fam == "badlen":
            ds = ds + [F(1)] if rng.random() < 0.5 or n < 2 else ds[:-1]
        if fam == "negdur" and n:
            ds[rng.randrange(n)] = F(-1, 2)
        dur = {"list": [str(x) for x in ds]}
    c["duration"] = dur
    c["rf"] = None if mode == "alpha" else str(F(rng.choice([0, 1, 1, 2, 3, 4, 6, 8, -2]), 4))
    c["alpha"] = None if mode == "rf" else str(F(rng.choice([30, 45, 90, 120, 179, 10])))
    if fam == "none":
        c["rf"] = c["alpha"] = None
    c["phi"] = rng.choice([None, None, "0", "30", "-45", "181/2", "90"])
    ev = rng.random()
    c["T1"] = rng.choice(["1000", "500"]) if ev < 0.45 else None
    c["T2"] = rng.choice(["100", "50"]) if 0.2 < ev < 0.6 else None
    c["g"] = rng.choice(["0", "1/4", "-1/2"]) if 0.35 < ev < 0.75 else None
    return c


# ------------------------------------------------------------------ implementation driver
def values_of(c):
    return np.array([complex(float(F(s[0])), float(F(s[1]))) for s in c["samples"]], dtype=complex)


def duration_of(c):
    d = c["duration"]
    if "scalar" in d:
        return float(F(d["scalar"]))
    return [float(F(x)) for x in d["list"]]


def build_pulse(c):
    from epgpy import rfpulse
    kw = {}
    for k in ("T1", "T2", "g"):
        if c.get(k) is not None:
            kw[k] = fl(c[k])
    return rfpulse.RFPulse(values_of(c), duration_of(c), rf=fl(c["rf"]), alpha=fl(c["alpha"]), phi=fl(c["phi"]), **kw)


def scal(x, j=None):
    a = np.ravel(np.asarray(x))
    if j is not None and a.size > 1:
        return float(a[j])
    if a.size != 1:
        raise ValueError("attribute is not a scalar: %r" % (x,))
    return float(a[0])


def observe_ops(ops, j=None):
    """operator objects -> list of ('T', alpha, phi, duration) ... read from the objects' attributes"""
    out = []
    for o in ops:
        k = type(o).__name__
        if k == "Phi":
            out.append(("Phi", scal(o.phi)))
            assert scal(o.duration) == 0
        elif k == "T":
            out.append(("T", scal(o.alpha), scal(o.phi), scal(o.duration)))
        elif k == "E":
            out.append(("E", scal(o.tau), scal(o.T1), scal(o.T2), scal(o.g, j)))
            assert scal(o.duration) == 0
        elif k == "P":
            out.append(("P", scal(o.tau), scal(o.g, j)))
            assert scal(o.duration) == 0
        else:
            out.append(("?" + k,))
    return out


def c_obs(obs):
    if obs is None:
        return "None"
    names = {"Phi": "PPhi", "T": "PT", "E": "PE", "P": "PP"}
    items = []
    for o in obs:
        if o[0] not in names:
            return None
        items.append("%s %s" % (names[o[0]], " ".join(q(x) for x in o[1:])))
    return "(Some %s)" % core.clist(items)


def c_model_call(c):
    """Gallina term: rfpulse QcNum vals dur rf alpha phi T1 T2 g abs_sum; the sample phase is what
    np.angle(v, deg=True) returns (external numerics), the modulus is the exact rational one"""
    vals = values_of(c)
    phases = np.angle(vals, deg=True) if len(vals) else []
    items = ["(%s, %s)" % (q(F(s[2])), q(float(p))) for s, p in zip(c["samples"], phases)]
    d = c["duration"]
    dur = "(DScalar %s)" % q(F(d["scalar"])) if "scalar" in d else "(DList %s)" % core.clist([q(F(x)) for x in d["list"]])
    return "(rfpulse QcNum %s %s %s %s %s %s %s %s %s)" % (
        core.clist(items), dur, qopt(c["rf"]), qopt(c["alpha"]), qopt(c["phi"]), qopt(c["T1"]), qopt(c["T2"]),
        qopt(c["g"]), q(F(c["abs_sum"])))


def run_struct_case(c):
    """returns (obs or None, dsum, pulse or None, problem or None)"""
    try:
        p = build_pulse(c)
    except ValueError:
        return None, 0.0, None, None
    except Exception as e:
        if not c["samples"] and isinstance(e, IndexError):
            return None, 0.0, None, None
        return None, 0.0, None, "RFPulse raised %s: %s" % (type(e).__name__, str(e)[:200])
    obs = observe_ops(p.operators)
    dsum = sum(scal(o.duration) for o in p.operators)
    return obs, dsum, p, None


def numerics_ok(c):
    """np.abs / np.angle / np.abs(np.sum) agree with the exact values used by the model"""
    vals = values_of(c)
    for s, v in zip(c["samples"], vals):
        if abs(abs(v) - float(F(s[2]))) > 1e-15 * (1 + abs(v)):
            return "np.abs(%r) = %r, exact modulus %s" % (v, abs(v), s[2])
        ref = math.degrees(math.atan2(v.imag, v.real))
        if abs(float(np.angle(v, deg=True)) - ref) > 1e-12:
            return "np.angle(%r, deg=True) differs from atan2" % (v,)
    if c["rf"] is None and c["alpha"] is not None and len(vals):
        if abs(abs(np.sum(vals)) - float(F(c["abs_sum"]))) > 1e-14:
            return "np.abs(np.sum(values)) differs from the exact |sum|"
    return None


# ------------------------------------------------------------------ (b) effect checks (Python, tolerance 1e-10)
def some_state(rng, shape=None):
    import epgpy as epg
    sm = epg.StateMatrix() if shape is None else epg.StateMatrix(shape=shape)
    for op in [epg.T(rng.choice([35, 70]), rng.choice([10, 80])), epg.S(1), epg.E(3, 700, 60, 0.02),
               epg.T(rng.choice([50, 110]), -20), epg.S(1)]:
        sm = op(sm)
    return sm


def by_hand(c, sm, T1=None, T2=None, g=None, values=None, phi="case"):
    """ordered product of epg.Phi / epg.T / epg.E applied one by one"""
    import epgpy as epg
    vals = values_of(c) if values is None else values
    n = len(vals)
    d = duration_of(c)
    durs = [d / n] * n if np.isscalar(d) else d
    phi = fl(c["phi"]) if phi == "case" else phi
    if c["rf"] is not None:
        rf = fl(c["rf"])
    else:
        rf = fl(c["alpha"]) / 180 / abs(np.sum(vals))
    if phi:
        sm = epg.Phi(-phi)(sm)
    for v, du in zip(vals, durs):
        sm = epg.T(180 * abs(v) * rf, np.angle(v, deg=True))(sm)
        if not (T1 is None and T2 is None and g is None) and du > 0:
            sm = epg.E(du, 1e10 if T1 is None else T1, 1e10 if T2 is None else T2, 0 if g is None else g)(sm)
    if phi:
        sm = epg.Phi(phi)(sm)
    return sm


def maxdiff(a, b):
    a, b = np.asarray(a.states), np.asarray(b.states)
    if a.shape != b.shape:
        try:
            a, b = np.broadcast_arrays(a, b)
        except ValueError:
            return float("inf")
    return float(np.abs(a - b).max())


def effect_case(c, rng_seed):
    """returns list of (what, signature) problems"""
    import random
    import epgpy as epg
    from epgpy import rfpulse, functions, utils
    rng = random.Random(rng_seed)
    probs = []
    vals = values_of(c)
    n = len(vals)
    arr = c.get("array_params")
    kw = {}
    for k in ("T1", "T2", "g"):
        if c.get(k) is not None:
            kw[k] = fl(c[k])
    if arr:
        kw = {k: np.array(v, float) for k, v in arr.items()}
    p = rfpulse.RFPulse(vals, duration_of(c), rf=fl(c["rf"]), alpha=fl(c["alpha"]), phi=fl(c["phi"]), **kw)
    sm0 = some_state(rng)
    # 1. ordered product
    ref = by_hand(c, sm0, kw.get("T1"), kw.get("T2"), kw.get("g"))
    e = maxdiff(p(sm0), ref)
    if not e <= 1e-10:
        probs.append(("RFPulse(...)(sm) differs from the ordered product of T / E applied by hand by %.3g" % e,
                      {"check": "ordered-product"}))
    # simulate() on the pulse
    try:
        f0 = epg.simulate([p, epg.ADC], init=sm0)
        e = float(np.abs(np.ravel(f0) - np.ravel(ref.F0)).max())
        if not e <= 1e-10:
            probs.append(("simulate([pulse, ADC]) differs from the by-hand product by %.3g" % e, {"check": "simulate"}))
    except Exception as ex:
        probs.append(("simulate([pulse, ADC]) raised %s: %s" % (type(ex).__name__, str(ex)[:150]), {"check": "simulate-raises"}))
    # 2. total duration
    d = duration_of(c)
    total = d if np.isscalar(d) else float(sum(d))
    t, _ = epg.simulate([p, epg.ADC], adc_time=True)
    if abs(float(np.ravel(t)[0]) - total) > 1e-12 * (1 + total):
        probs.append(("ADC time after the pulse is %r, pulse duration %r" % (t, total), {"check": "adc-time"}))
    if np.ndim(p.duration) != 0 or abs(float(p.duration) - total) > 1e-12 * (1 + total):
        probs.append(("RFPulse(values, per-sample durations).duration is %r instead of the total %r "
                      "(consequences: T(..)*pulse raises TypeError / adds element-wise, encode_phase(rewind=...) fails)"
                      % (p.duration, total), {"function": "RFPulse.__init__", "input": "per-sample durations"}))
    # 3. phase offset = samples multiplied by exp(i phi)
    o = fl(c["phi"])
    if o:
        # (rf passed explicitly: rotating a zero sample of a constant-phase waveform would send estimate_rf to scipy)
        p2 = rfpulse.RFPulse(vals * np.exp(1j * np.pi * o / 180), duration_of(c), rf=p.rf, alpha=fl(c["alpha"]), phi=None, **kw)
        e = maxdiff(p(sm0), p2(sm0))
        if not e <= 1e-10:
            probs.append(("phase offset %s differs from samples multiplied by exp(i phi) by %.3g" % (o, e), {"check": "phase-offset"}))
    # 4. encode_phase = modify with the frequency map (only meaningful when the pulse has no array parameters)
    if not arr:
        grad, fov, npt = rng.choice([5.0, 10.0]), rng.choice([20.0, 30.0]), rng.choice([3, 5])
        gam = rng.choice([None, "1H", "23Na", "23Na", 10000.0])
        gval = {None: 42576.0, "1H": 42576.0, "23Na": 11262.0}.get(gam, gam)      # kHz/T, independent of epgpy.utils
        gkw = {} if gam is None else {"gamma": {"1H": utils.gamma_1H, "23Na": utils.gamma_23Na}.get(gam, gam)}
        if rng.random() < 0.4:
            positions = np.array(sorted(rng.sample([-0.5, -0.3, -0.1, 0.0, 0.2, 0.45, 0.5], npt))) * fov
            fovarg = positions
        else:
            positions = fov * np.linspace(-0.5, 0.5, npt)
            fovarg = fov
        enc = rfpulse.encode_phase(p, grad, fovarg, npoint=npt, **gkw)
        # frequency map (kHz) = gradient (mT/m) * 1e-6 * gamma (kHz/T) * position (mm), computed here
        freqs = grad * 1e-6 * gval * positions
        freqs = np.expand_dims(freqs, tuple(range(len(p.shape))))
        mod = functions.modify(p, g=freqs, expand=False)
        a, b = enc(sm0), mod(sm0)
        e = maxdiff(a, b)
        if not e <= 1e-10:
            probs.append(("encode_phase(gradient=%r, positions=%r, gamma=%r) differs from modify(pulse, g=gradient*1e-6*gamma*positions) by %.3g"
                          % (grad, [float(x) for x in positions], gam, e), {"check": "encode-phase"}))
        # by hand: every T of positive duration followed by P(duration, freqs)
        sm = sm0
        for op in p.operators:
            sm = op(sm)
            if type(op).__name__ == "T" and scal(op.duration) > 0:
                sm = epg.P(scal(op.duration), freqs)(sm)
        e = maxdiff(a, sm)
        if not e <= 1e-10:
            probs.append(("encode_phase differs from T / P applied by hand by %.3g" % e, {"check": "encode-phase-by-hand"}))
    return probs


# ------------------------------------------------------------------ (c) estimate_rf / estimate_alpha
def estimate_checks(ctx, n):
    from epgpy import rfpulse
    rng = ctx.rng
    goals, meta = [], []
    for i in range(n + 1):
        m = rng.randint(1, 8)
        ua, ub, uc = rng.choice([(1, 0, 1), (0, 1, 1), (3, 4, 5), (-4, 3, 5), (5, -12, 13)])
        while True:
            ss = [F(rng.choice([-3, -2, -1, 1, 2, 3, 4, 4, 4]), 4) for _ in range(m)]
            if sum(ss) != 0:
                break
        if i == n:   # corpus: witness of the alpha = 180 boundary found by the thorough tier
            (ua, ub, uc), ss = (-4, 3, 5), [F(x, 4) for x in (3, 1, -3, 1, -2, 3, 4)]
        D = 1
        while D < uc:
            D *= 2
        u = complex(ua / D, ub / D)
        vals = np.array([float(s) * u for s in ss], dtype=complex)
        S = sum(ss) * F(uc, D)                       # signed sum of amplitudes along u
        alphas = [rng.choice([1e-3, 5.0, 30.0, 45.0, 60.0, 90.0, 120.0, 150.0, 179.0, 179.999]), 180.0, 0.0]
        for alpha in alphas:
            case = {"kind": "estimate", "values": [[v.real, v.imag] for v in vals], "alpha": alpha}
            ctx.count(("est", i, alpha))
            try:
                rf = float(rfpulse.estimate_rf(vals, alpha))
                a2 = float(rfpulse.estimate_alpha(vals, rf))
                rf2 = float(rfpulse.estimate_rf(vals, a2)) if 0 < alpha < 180 else None
            except Exception as e:
                report_once(ctx, "estimate_rf/estimate_alpha raised %s on a constant-phase waveform: %s" % (type(e).__name__, str(e)[:150]),
                            {"case": case}, True, {"function": "estimate", "raises": type(e).__name__})
                continue
            if alpha == 0.0 and abs(a2) > 1e-9:
                report_once(ctx, "estimate_alpha(values, rf=0) returns %r instead of 0" % a2,
                            {"case": case, "rf": rf, "returned": a2}, True, {"function": "estimate_alpha", "input": "rf=0"})
                continue
            if alpha == 180.0 and abs(a2 - 180.0) > 1e-5:
                report_once(ctx, "estimate_alpha(values, estimate_rf(values, 180)) returns %r instead of 180" % a2,
                            {"case": case, "rf": rf, "returned": a2}, True, {"function": "estimate_alpha", "input": "alpha=180"})
                continue
            if abs(math.cos(math.radians(a2)) - math.cos(math.radians(alpha))) > 1e-9:
                report_once(ctx, "cos(estimate_alpha(values, estimate_rf(values, %r))) = %r, expected %r" % (alpha, math.cos(math.radians(a2)), math.cos(math.radians(alpha))),
                            {"case": case, "rf": rf, "returned": a2}, True, {"function": "estimate_inverse"})
                continue
            if rf2 is not None and abs(rf2 - rf) > 1e-6 * (1 + abs(rf)) * (1 + 1 / math.sin(math.radians(alpha))):
                ctx.report("estimate_rf(values, estimate_alpha(values, rf)) = %r, rf = %r" % (rf2, rf), {"case": case}, found_input=True,
                           signature={"function": "estimate_inverse_rf"})
            if (1.0 <= alpha <= 179.0 or alpha in (0.0, 180.0)) and len(goals) < 3 * n:
                # closed form proved in Coq (estimate_alpha_cp): cos(alpha_out) = cos(PI/180 * (rf * 180 * S)); checked by Interval
                goals.append("Goal Rabs (cos (PI / 180 * %s) - cos (PI / 180 * (%s * 180 * %s))) <= 1 / 1000000000.\nProof. tie %d%%nat. Abort." % (
                    rlit(fr(a2)), rlit(fr(rf)), rlit(S), len(goals)))
                meta.append(case)
    # regression cases (former findings, fixed by 4cedc70 / 8b5ca87): must pass now
    z = float(rfpulse.estimate_alpha(np.array([0.5, 0.25j]), 0))
    ctx.count(("est", "rf0"))
    if abs(z) > 1e-9:
        report_once(ctx, "estimate_alpha(values, rf=0) returns %r instead of 0" % z,
                    {"case": {"kind": "estimate_rf0", "values": [[0.5, 0], [0, 0.25]]}, "returned": z}, True,
                    {"function": "estimate_alpha", "input": "rf=0"})
    import epgpy as epg
    ctx.count(("dur", "per-sample"))
    for durs in ([1, 2, 0.5, 4], np.array([1, 2, 0.5, 4.0])):
        case = {"kind": "duration_regression", "durations": [float(x) for x in durs]}
        try:
            pp = rfpulse.RFPulse([0.375 + 0.5j, 0.5, -0.25j, 0], durs, rf=0.5)
            m = epg.T(10, 0, duration=1) * pp
            enc = rfpulse.encode_phase(pp, 10, 20, npoint=5, rewind=True)
            ok = np.ndim(pp.duration) == 0 and float(pp.duration) == 7.5 and np.ndim(m.duration) == 0 and float(m.duration) == 8.5 \
                and scal(enc.operators[-1].tau) == 3.75
            why = "RFPulse.duration %r, (T*pulse).duration %r, rewinder tau %r" % (pp.duration, m.duration, enc.operators[-1].tau)
        except Exception as e:
            ok, why = False, "%s: %s" % (type(e).__name__, str(e)[:150])
        if not ok:
            report_once(ctx, "per-sample durations: expected total 7.5 / 8.5 / rewinder 3.75, got " + why, {"case": case}, True,
                        {"function": "RFPulse.__init__", "input": "per-sample durations"})
    return goals, meta


def rlit(x):
    x = F(x)
    if x.denominator == 1:
        return "(%d)" % x.numerator if x.numerator >= 0 else "(- %d)" % (-x.numerator)
    return "(%d / %d)" % (x.numerator, x.denominator) if x.numerator >= 0 else "(- (%d / %d))" % (-x.numerator, x.denominator)


TIE_HEADER = """From Coq Require Import Reals.
From Coquelicot Require Import Coquelicot.
From Interval Require Import Tactic.
Local Open Scope R_scope.
Ltac tie n := tryif assert_succeeds (solve [interval with (i_prec 90)]) then idtac "TIE-OK" n else idtac "TIE-FAIL" n.
"""


def run_ties(ctx, goals, meta, what):
    import re
    if not goals:
        return 0
    nsh = min(core.NPROC, max(1, len(goals) // 6))
    files = []
    for s in range(nsh):
        path = os.path.join(core.CASES, "%s_p%d_tie_%d.v" % (ctx.pid, os.getpid(), s))
        with open(path, "w") as f:
            f.write(TIE_HEADER + "\n".join(goals[s::nsh]) + "\n")
        files.append(path)
    res = core.coqc_many(files)
    ctx._case_files += files
    ok, fail = set(), set()
    for path in files:
        rc, out = res[path]
        if rc != 0:
            ctx.report("interval shard failed to compile", {"theorem_or_correspondence": what, "coq_output": out[-1500:]}, found_input=False)
            continue
        ok |= {int(m) for m in re.findall(r"TIE-OK (\d+)", out)}
        fail |= {int(m) for m in re.findall(r"TIE-FAIL (\d+)", out)}
    for i in sorted(set(range(len(goals))) - ok):
        ctx.report("%s: implementation value outside 1e-9 of the closed form proved in Coq" % what,
                   {"case": meta[i], "goal": goals[i]}, found_input=True, signature={"function": "estimate_alpha", "tie": "closed-form"})
    ctx.cov["interval_tie_points"] = ctx.cov.get("interval_tie_points", 0) + len(ok)
    return len(ok)


# ------------------------------------------------------------------ main
def report_once(ctx, what, replay, found_input, signature):
    """one replay file per signature; further hits are only counted"""
    key = repr(sorted(signature.items())) if isinstance(signature, dict) else repr(signature)
    seen = ctx.notes.setdefault("hits_per_signature", {})
    seen[key] = seen.get(key, 0) + 1
    if seen[key] == 1:
        ctx.report(what, replay, found_input=found_input, signature=signature)


def struct_terms(ctx, cases):
    """-> (terms, kept) ; reports implementation exceptions / numerics problems"""
    terms, kept = [], []
    for c in cases:
        why = numerics_ok(c)
        if why:
            ctx.notes.setdefault("numerics_skipped", []).append(why)
            continue
        obs, dsum, p, prob = run_struct_case(c)
        if prob:
            report_once(ctx, prob, {"case": c}, True, {"function": "RFPulse", "raises": prob.split()[2]})
            continue
        cobs = c_obs(obs)
        if cobs is None:
            ctx.report("RFPulse contains an operator that is not Phi/T/E/P: %r" % (obs,), {"case": c}, found_input=True,
                       signature={"function": "RFPulse", "operator": "unexpected"})
            continue
        term = "(case_ok %s %s %s)" % (c_model_call(c), cobs, q(dsum))
        terms.append(term)
        kept.append((c, "struct", obs))
        ctx.count(c, nontrivial=obs is not None and len(obs) >= 2)
        ctx.sample({"n": len(c["samples"]), "duration": c["duration"], "rf": c["rf"], "alpha": c["alpha"], "phi": c["phi"],
                    "T1": c["T1"], "T2": c["T2"], "g": c["g"], "operators": None if obs is None else [o[0] for o in obs]})
        # encode_phase on the same pulse (scalar-duration pulses; rewind needs pulse.duration)
        if p is not None and np.ndim(p.duration) == 0 and ctx.rng.random() < 0.6:
            from epgpy import rfpulse, utils
            grad, fov, npt = ctx.rng.choice([4.0, 10.0]), ctx.rng.choice([16.0, 24.0]), ctx.rng.choice([3, 5])
            rw = ctx.rng.choice([None, True, 0.25])
            j = ctx.rng.randrange(npt)
            # gyromagnetic ratio: default (1H), explicit 1H, 23Na, an arbitrary value; fov scalar or explicit positions
            gam = ctx.rng.choice([None, None, "1H", "23Na", "23Na", 10000.0, 6536.0])
            gval = {None: utils.gamma_1H, "1H": utils.gamma_1H, "23Na": utils.gamma_23Na}.get(gam, gam)
            gkw = {} if gam is None else {"gamma": gval}
            if ctx.rng.random() < 0.4:
                positions = [float(fov) * t for t in sorted(ctx.rng.sample([-0.5, -0.375, -0.25, 0.0, 0.125, 0.25, 0.5], npt))]
                fovarg = np.array(positions)
            else:
                positions = [float(t) for t in utils.spatial_range(fov, npt)]
                fovarg = fov
            try:
                enc = rfpulse.encode_phase(p, grad, fovarg, npoint=npt, rewind=rw, **gkw)
                eobs = observe_ops(enc.operators, j)
            except Exception as e:
                ctx.report("encode_phase raised %s: %s" % (type(e).__name__, str(e)[:150]), {"case": c, "encode": [grad, positions, npt, rw, gam]},
                           found_input=True, signature={"function": "encode_phase", "raises": type(e).__name__})
                continue
            x = positions[j]
            rwq = "None" if rw is None else "(Some %s)" % q(0.5 if rw is True else rw)
            terms.append("(enc_ok %s %s %s %s %s %s %s)" % (c_model_call(c), q(float(p.duration)), q(grad), q(float(gval)), q(x), rwq, c_obs(eobs)))
            kept.append((dict(c, encode=[grad, positions, npt, rw, j, gam]), "encode", eobs))
            ctx.count((c, "enc", grad, tuple(positions), rw, j, gam))
    return terms, kept


def run(ctx):
    proved = ctx.prove(gen=True)
    quick = ctx.tier == "quick"
    rng = ctx.rng
    # (a) structural correspondence, model evaluated in Coq over Qc
    cases = [gen_case(rng) for _ in range(160 if quick else 2500)]
    terms, kept = struct_terms(ctx, cases)
    verdicts, errors = ctx.run_bool_cases("corr", HEADER, terms, chunk=25)
    for e in errors:
        ctx.report("correspondence shard failed to evaluate", {"theorem_or_correspondence": "C18 correspondence (Cases)", "coq_output": e}, found_input=False)
    fam = {}
    for (c, kind, obs), v in zip(kept, verdicts):
        fam[c["family"]] = fam.get(c["family"], 0) + 1
        if v is False:
            # the implementation's operator list is not the one of the model: show it on the effect if possible
            report_once(ctx, "RFPulse operator list (%s) differs from Model/RFPulse.v: observed %r" % (kind, obs),
                        {"case": c, "observed": obs, "theorem_or_correspondence": "C18 correspondence Model/RFPulse.v vs epgpy.rfpulse"},
                        True, {"function": "make_pulse_sequence" if kind == "struct" else "encode_phase", "check": "operator-list"})
    ctx.cov["families"] = fam
    # (b) effect
    ne = 0
    for c in cases:
        if c["family"] != "ok" or numerics_ok(c):
            continue
        if ne >= (60 if quick else 600):
            break
        ne += 1
        if rng.random() < 0.25 and (c["T1"] or c["T2"] or c["g"]):
            c = dict(c, kind="effect", array_params={"T1": [800.0, 1200.0, 400.0], "T2": [60.0, 90.0, 30.0], "g": [0.0, 0.1, -0.2]})
        seed = rng.randrange(10 ** 9)
        try:
            probs = effect_case(c, seed)
        except Exception as e:
            probs = [("effect check raised %s: %s" % (type(e).__name__, str(e)[:200]), {"check": "raises", "type": type(e).__name__})]
        ctx.count((c, "effect"))
        for what, sig in probs:
            report_once(ctx, what, {"case": dict(c, kind="effect"), "seed": seed}, True, sig)
    ctx.cov["effect_cases"] = ne
    # constant phase, no relaxation: the single rotation by the target angle
    const_phase_effect(ctx, 20 if quick else 200)
    # (c) estimate_rf / estimate_alpha
    goals, meta = estimate_checks(ctx, 10 if quick else 60)
    nt = run_ties(ctx, goals, meta, "estimate_alpha closed form (estimate_alpha_cp)")
    ctx.cov["trusted_base"] += [
        "translator /verif/translator (Gen/Transition.v, Gen/Evolution.v: T_op, Phi_op, E_op, P_op), tied to epgpy by the Interval tie of C01",
        "hand-written model Model/RFPulse.v tied to epgpy.rfpulse by the correspondence over Qc (tolerance 1e-12 relative)",
        "external numerics: np.abs, np.angle(deg=True), np.abs(np.sum(values)) of the samples (checked against exact moduli / atan2 to 1e-12)",
        "np.clip modelled as Rmin (Rmax z (-1)) 1; np.arccos as Coq's acos; epg.T / epg.E / epg.P operators themselves (C01)",
        "Coquelicot + Interval libraries; axioms as printed by Print Assumptions (classical reals, functional extensionality, classic)",
        "effect checks (b) and estimate checks (c) are random testing with tolerance 1e-10 / 1e-9; Interval tie at %d points" % nt]
    if not proved:
        if not any(v[1] for v in ctx.violations):
            ctx.report("proof obligations of C18 no longer check: %s" % ctx.failed_obligations,
                       {"theorem_or_correspondence": ctx.failed_obligations}, found_input=False)


def const_phase_effect(ctx, n):
    import epgpy as epg
    from epgpy import rfpulse
    rng = ctx.rng
    for _ in range(n):
        m = rng.randint(1, 8)
        ph = rng.choice([0.0, 90.0, 30.0, -120.0])
        while True:
            ss = [rng.choice([-0.5, -0.25, 0.25, 0.5, 0.75, 1.0, 1.0]) for _ in range(m)]
            if abs(sum(ss)) > 1e-9:
                break
        vals = np.array(ss) * np.exp(1j * np.pi * ph / 180)
        alpha = rng.choice([20.0, 60.0, 90.0, 150.0])
        case = {"kind": "const_phase", "ss": ss, "phase": ph, "alpha": alpha}
        ctx.count(("cp", tuple(ss), ph, alpha))
        try:
            p = rfpulse.RFPulse(vals, 1.0, alpha=alpha)
            a = p(epg.StateMatrix())
            b = epg.T(alpha if sum(ss) > 0 else -alpha, ph)(epg.StateMatrix())
            e = maxdiff(a, b)
        except Exception as ex:
            report_once(ctx, "constant-phase RFPulse(alpha=...) raised %s: %s" % (type(ex).__name__, str(ex)[:150]), {"case": case}, True,
                        {"function": "RFPulse", "check": "const-phase-raises"})
            continue
        if not e <= 1e-10:
            report_once(ctx, "constant-phase pulse without relaxation differs from the single rotation T(alpha, phase) by %.3g" % e, {"case": case},
                        True, {"check": "const-phase-single-rotation"})
        if abs(p.alpha - alpha) > 0 or abs(rfpulse.estimate_alpha(vals, p.rf) - alpha) > 1e-6:
            report_once(ctx, "constant-phase pulse: estimate_alpha(values, pulse.rf) = %r, target %r" % (rfpulse.estimate_alpha(vals, p.rf), alpha),
                        {"case": case}, True, {"function": "estimate_inverse"})


def replay(ctx, rp):
    c = rp.get("case")
    if not c:
        print("replay: not an input replay (%s)" % rp.get("what"))
        return 1
    k = c.get("kind")
    if k in ("struct", "effect") and "encode" not in c:
        probs = []
        if k == "effect" or c.get("family") == "ok":
            try:
                probs = effect_case(c, rp.get("seed", 0))
            except Exception as e:
                probs = [("effect check raised %s: %s" % (type(e).__name__, e), None)]
        obs, dsum, p, prob = run_struct_case(c)
        print("replay: operators", obs)
        for what, _ in probs:
            print("replay:", what)
        if prob:
            print("replay:", prob)
        if not probs and not prob and k == "struct":
            terms = ["(case_ok %s %s %s)" % (c_model_call(c), c_obs(obs), q(dsum))]
            v, err = ctx.run_bool_cases("replay", HEADER, terms, chunk=1)
            ctx.cleanup_cases()
            print("replay: model agrees with the observed operator list:", v[0])
            return 0 if v[0] else 1
        return 1 if (probs or prob) else 0
    if k == "struct":
        grad, positions, npt, rw, j, gam = c["encode"]
        from epgpy import rfpulse, utils
        p = build_pulse(c)
        gkw = {} if gam is None else {"gamma": {"1H": utils.gamma_1H, "23Na": utils.gamma_23Na}.get(gam, gam)}
        try:
            enc = rfpulse.encode_phase(p, grad, np.array(positions), npoint=npt, rewind=rw, **gkw)
            print("replay: encode_phase operators", observe_ops(enc.operators, j))
        except Exception as e:
            print("replay: encode_phase raised", type(e).__name__, e)
        return 1
    if k in ("estimate", "estimate_rf0"):
        from epgpy import rfpulse
        vals = np.array([complex(a, b) for a, b in c.get("values", [[0.5, 0], [0, 0.25]])])
        alpha = c.get("alpha", 0.0)
        rf = float(rfpulse.estimate_rf(vals, alpha)) if k == "estimate" else 0.0
        a2 = float(rfpulse.estimate_alpha(vals, rf))
        print("replay: estimate_rf(values, %r) = %r; estimate_alpha(values, %r) = %r" % (alpha, rf, rf, a2))
        bad = abs(math.cos(math.radians(a2)) - math.cos(math.radians(alpha))) > 1e-9
        return 1 if bad else 0
    if k == "duration_regression":
        import epgpy as epg
        from epgpy import rfpulse
        pp = rfpulse.RFPulse([0.375 + 0.5j, 0.5, -0.25j, 0], c["durations"], rf=0.5)
        print("replay: RFPulse.duration =", pp.duration)
        return 0 if np.ndim(pp.duration) == 0 and float(pp.duration) == 7.5 else 1
    if k == "const_phase":
        import epgpy as epg
        from epgpy import rfpulse
        vals = np.array(c["ss"]) * np.exp(1j * np.pi * c["phase"] / 180)
        p = rfpulse.RFPulse(vals, 1.0, alpha=c["alpha"])
        e = maxdiff(p(epg.StateMatrix()), epg.T(c["alpha"] if sum(c["ss"]) > 0 else -c["alpha"], c["phase"])(epg.StateMatrix()))
        print("replay: difference to the single rotation %.3g" % e)
        return 1 if e > 1e-10 else 0
    print("replay: unknown case kind", k)
    return 1
