"""C19 — differentiation is non-intrusive and independent of what else is derived."""
import copy
import numpy as np
from vlib import core, dprog, prog


def strip(p):
    q = copy.deepcopy(p)
    for o in q["ops"]:
        if o["op"] == "dop":
            o["order1_arg"], o["order1"], o["order2_arg"], o["order2"] = None, {}, None, {}
    return q


def restrict(p, var):
    """same program, only the declarations of `var` kept (as a coefficient map), first order only"""
    q = copy.deepcopy(p)
    for o in q["ops"]:
        if o["op"] == "dop":
            o["order2_arg"], o["order2"] = None, {}
            if var in o["order1"]:
                o["order1"] = {var: dict(o["order1"][var])}
                o["order1_arg"] = {var: dict(o["order1"][var])}
            else:
                o["order1_arg"], o["order1"] = None, {}
    return q


def rename(p, var, new):
    q = restrict(p, var)
    for o in q["ops"]:
        if o["op"] == "dop" and var in o["order1"]:
            o["order1"] = {new: o["order1"][var]}
            o["order1_arg"] = {new: dict(o["order1"][new])}
    return q


def run(ctx):
    proved = ctx.prove(gen=False)
    quick = ctx.tier == "quick"
    n = 60 if quick else 1500
    terms, kept = [], []
    for i in range(n):
        p = dprog.gen_dprogram(ctx.rng, with_order2=(i % 3 == 0), plain=("spoil", "wait", "pd"))
        try:
            snaps = dprog.run_impl_d(p)
            plain = dprog.run_impl_d(strip(p))
        except Exception as e:
            ctx.report("implementation raised %s: %s" % (type(e).__name__, str(e)[:200]), {"dcase": repr(p)}, found_input=True,
                       signature={"raises": type(e).__name__})
            continue
        ctx.count(repr(p), nontrivial=any(o["op"] == "dop" and o["order1"] for o in p["ops"]))
        ctx.sample({"program": dprog.signature(p)})
        # (1) non-intrusive on the implementation: zeroth-order states identical with and without differentiation
        for a, b in zip(snaps, plain):
            if a[0] != b[0]:
                ctx.report("activating differentiation changed the simulated state matrix", {"dcase": repr(p)}, found_input=True,
                           signature={"why": "intrusive"})
                break
        # (2) independence / renaming on the implementation: each variable alone, and renamed
        vars_ = sorted({v for o in p["ops"] if o["op"] == "dop" for v in o["order1"]})
        final1 = snaps[-1][1]
        for v in vars_[:2]:
            try:
                alone = dprog.run_impl_d(restrict(p, v))[-1][1]
                ren = dprog.run_impl_d(rename(p, v, "zz"))[-1][1]
            except Exception as e:
                ctx.report("restricted program raised %s" % e, {"dcase": repr(p), "var": v}, found_input=True, signature={"raises": "restrict"})
                continue
            if alone.get(v) != final1.get(v) or ren.get("zz") != final1.get(v):
                ctx.report("partial of %s differs when derived alone / renamed" % v, {"dcase": repr(p), "var": v}, found_input=True,
                           signature={"why": "dependent"})
        # (3) model correspondence (ties the theorems' model to diff.py)
        terms.append(dprog.term(p, snaps))
        kept.append(p)
    verdicts, errors = ctx.run_bool_cases("corr", dprog.HEADER, terms, chunk=6)
    for e in errors:
        ctx.report("correspondence shard failed to evaluate", {"theorem_or_correspondence": "C19 correspondence (Model/Diff.v)", "coq_output": e}, found_input=False)
    nb = 0
    for p, v in zip(kept, verdicts):
        if v is False and nb < 3:
            nb += 1
            ctx.report("bookkeeping model and diff.py disagree", {"dcase": repr(p), "theorem_or_correspondence": "C19 correspondence Model/Diff.v vs epgpy/diff.py"}, found_input=False)
    ctx.cov["trusted_base"] += ["hand-written model Model/Diff.v tied to epgpy/diff.py by exact correspondence of sm.order1 / sm.order2 after every operator"]
    if not proved:
        ctx.report("proof obligations of C19 no longer check: %s" % ctx.failed_obligations, {"theorem_or_correspondence": ctx.failed_obligations}, found_input=False)


def replay(ctx, rp):
    print("replay:", rp.get("what"))
    return 1
