"""C19 — differentiation is non-intrusive and independent of what else is derived."""
import copy
import numpy as np
from vlib import core, dprog, prog


def strip(p):
    q = copy.deepcopy(p)
    for o in q["ops"]:
        if o["op"] == "dop":
            o["order1_arg"], o["order1"], o["order2_arg"], o["order2"] = None, {}, None, {}
    return q


def restrict(p, var):
    """same program, only the declarations of `var` kept (as a coefficient map), first order only"""
    q = copy.deepcopy(p)
    for o in q["ops"]:
        if o["op"] == "dop":
            o["order2_arg"], o["order2"] = None, {}
            if var in o["order1"]:
                o["order1"] = {var: dict(o["order1"][var])}
                o["order1_arg"] = {var: dict(o["order1"][var])}
            else:
                o["order1_arg"], o["order1"] = None, {}
    return q


def rename(p, var, new):
    q = restrict(p, var)
    for o in q["ops"]:
        if o["op"] == "dop" and var in o["order1"]:
            o["order1"] = {new: o["order1"][var]}
            o["order1_arg"] = {new: dict(o["order1"][new])}
    return q


def branch_stream(ctx, n):
    """one prepared state (carrying partials) used for TWO continuations applied the default way op(sm): in one the
    variable v is derived alone, in the other together with every other declared variable; each branch must give the
    partial of v that a fresh linear run of prefix + continuation gives, in whichever order the branches are taken"""
    import epgpy as epg
    for i in range(n):
        p = dprog.gen_dprogram(ctx.rng, with_order2=(i % 3 == 0), plain=())
        ops = p["ops"]
        if len(ops) < 3:
            continue
        cut = ctx.rng.randint(1, len(ops) - 1)
        pre, suf = ops[:cut], ops[cut:]
        vs = sorted({v for o in pre if o["op"] == "dop" for v in o["order1"]})
        if not vs:
            continue
        v = ctx.rng.choice(vs)
        sufA = restrict({"pd": p["pd"], "ops": suf}, v)["ops"]
        order = ctx.rng.choice(["AB", "BA"])

        def go(sm, seq, inplace):
            for o in seq:
                sm = dprog.build(o)(sm, inplace=True) if inplace else dprog.build(o)(sm)
            return sm
        try:
            sm0 = go(epg.StateMatrix(density=p["pd"]), pre, False)
            before = dprog.snap_d(sm0)
            res = {}
            for br in order:
                res[br] = dprog.snap_d(go(sm0, sufA if br == "A" else suf, False))
            after = dprog.snap_d(sm0)
            refA = dprog.snap_d(go(epg.StateMatrix(density=p["pd"]), pre + sufA, True))
            refB = dprog.snap_d(go(epg.StateMatrix(density=p["pd"]), pre + suf, True))
        except Exception as e:
            ctx.report("branching from a prepared state raised %s: %s" % (type(e).__name__, str(e)[:200]), {"dcase": repr(p), "cut": cut, "var": v, "order": order},
                       found_input=True, signature={"raises": type(e).__name__, "site": "branch"})
            continue
        ctx.count(("branch", repr(p), cut, v, order), nontrivial=True)
        if before != after:
            ctx.report("applying operators to a prepared state changed that state or its partials", {"dcase": repr(p), "cut": cut, "var": v, "order": order},
                       found_input=True, signature={"why": "branch-input-changed"})
        elif res["A"][0] != res["B"][0] or res["A"][1].get(v) != refA[1].get(v) or res["B"][1].get(v) != refB[1].get(v) or refA[1].get(v) != refB[1].get(v):
            ctx.report("partial of %s differs between a branch deriving it alone, a branch deriving it with other variables, and fresh linear runs" % v,
                       {"dcase": repr(p), "cut": cut, "var": v, "order": order}, found_input=True, signature={"why": "branch-dependent"})


def run(ctx):
    proved = ctx.prove(gen=False)
    quick = ctx.tier == "quick"
    n = 60 if quick else 1500
    terms, kept = [], []
    for i in range(n):
        p = dprog.gen_dprogram(ctx.rng, with_order2=(i % 3 == 0), plain=("spoil", "wait", "pd", "reset"))
        try:
            snaps = dprog.run_impl_d(p)
            plain = dprog.run_impl_d(strip(p))
        except Exception as e:
            ctx.report("implementation raised %s: %s" % (type(e).__name__, str(e)[:200]), {"dcase": repr(p)}, found_input=True,
                       signature={"raises": type(e).__name__})
            continue
        ctx.count(repr(p), nontrivial=any(o["op"] == "dop" and o["order1"] for o in p["ops"]))
        ctx.sample({"program": dprog.signature(p)})
        # (1) non-intrusive on the implementation: zeroth-order states identical with and without differentiation
        for a, b in zip(snaps, plain):
            if a[0] != b[0]:
                ctx.report("activating differentiation changed the simulated state matrix", {"dcase": repr(p)}, found_input=True,
                           signature={"why": "intrusive"})
                break
        # (2) independence / renaming on the implementation: each variable alone, and renamed
        vars_ = sorted({v for o in p["ops"] if o["op"] == "dop" for v in o["order1"]})
        final1 = snaps[-1][1]
        for v in vars_[:2]:
            try:
                alone = dprog.run_impl_d(restrict(p, v))[-1][1]
                ren = dprog.run_impl_d(rename(p, v, "zz"))[-1][1]
            except Exception as e:
                ctx.report("restricted program raised %s" % e, {"dcase": repr(p), "var": v}, found_input=True, signature={"raises": "restrict"})
                continue
            if alone.get(v) != final1.get(v) or ren.get("zz") != final1.get(v):
                ctx.report("partial of %s differs when derived alone / renamed" % v, {"dcase": repr(p), "var": v}, found_input=True,
                           signature={"why": "dependent"})
        # (3) model correspondence (ties the theorems' model to diff.py)
        terms.append(dprog.term(p, snaps))
        kept.append(p)
    branch_stream(ctx, 40 if quick else 1000)
    verdicts, errors = ctx.run_bool_cases("corr", dprog.HEADER, terms, chunk=6)
    for e in errors:
        ctx.report("correspondence shard failed to evaluate", {"theorem_or_correspondence": "C19 correspondence (Model/Diff.v)", "coq_output": e}, found_input=False)
    nb = 0
    for p, v in zip(kept, verdicts):
        if v is False and nb < 3:
            nb += 1
            ctx.report("bookkeeping model and diff.py disagree", {"dcase": repr(p), "theorem_or_correspondence": "C19 correspondence Model/Diff.v vs epgpy/diff.py"}, found_input=False)
    ctx.cov["trusted_base"] += ["hand-written model Model/Diff.v tied to epgpy/diff.py by exact correspondence of sm.order1 / sm.order2 after every operator"]
    if not proved:
        ctx.report("proof obligations of C19 no longer check: %s" % ctx.failed_obligations, {"theorem_or_correspondence": ctx.failed_obligations}, found_input=False)


def replay(ctx, rp):
    print("replay:", rp.get("what"))
    return 1
