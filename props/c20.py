"""C20 -- invalid inputs are rejected with an error, never simulated.

Malformed-input stream: for each class of invalid input many members (magnitudes, positions
inside array arguments, batch shapes, python scalar / list / ndarray forms) plus the adjacent
valid boundary values are run through the REAL constructors / calls; the guards of
Model/Validate.v are evaluated on the abstract description of the same input inside Coq and
the verdicts (raised / not raised and the exception class) are compared.

A case is a JSON-able dict {"class", "variant", "spec", "expect"}:
  expect = "invalid"  member of a documented invalid class -> the implementation must raise
  expect = "valid"    boundary-valid input                -> the implementation must not raise
  expect = "model"    outside both (tolerance zone, documented design exceptions, classes the
                      property does not name): only model == implementation is checked
"""
import warnings, itertools
import numpy as np
from fractions import Fraction
from vlib import core

HEADER = """From Coq Require Import List ZArith QArith Qcanon String.
From EPG Require Import Scalar QI Validate.
Import ListNotations.
"""

EXN = {"ValueError", "TypeError", "AttributeError", "RuntimeError", "IndexError"}
# 2 pi gamma_1H 1e-3 (utils.get_wavenumber), rational approximation good to 1e-9 relative:
# used only to decide |k| <= 1e-8, the generated cases stay far from that threshold
C_GAMMA = Fraction(2 * np.pi * 42.576 * 1e3 * 1e-3).limit_denominator(10 ** 9)


# ------------------------------------------------------------------ Gallina literals
def q(x):
    f = core.frac(x)
    return "(%s # %d)%%Q" % (core.zlit(f.numerator), f.denominator)


def ql(xs):
    return core.clist([q(x) for x in xs])


def nat(n):
    return "%d%%nat" % n


def natl(xs):
    return core.clist([nat(x) for x in xs])


def c(z):
    return core.qi(complex(z[0], z[1]) if isinstance(z, (list, tuple)) else z)


def cl(zs):
    return core.clist([c(z) for z in zs])


def st(s):
    return '"%s"%%string' % s


def stl(xs):
    return core.clist([st(x) for x in xs])


def opt(x, f):
    return "None" if x is None else "(Some %s)" % f(x)


def pair(a, b):
    return "(%s, %s)" % (a, b)


def durarg(d):
    """d: None | True | [data]"""
    if d is None:
        return "DNone"
    if d is True:
        return "DTrue"
    return "(DVal %s)" % ql(d)


# ------------------------------------------------------------------ python objects from specs
def mk(shape, data, form="np", dtype=None):
    """array-like from flat data: form 'py' python scalar / nested list, 'np' ndarray"""
    if dtype == "int":
        data = [int(x) for x in data]
    elif dtype == "complex":
        data = [complex(x[0], x[1]) for x in data]
    else:
        data = [float(x) for x in data]
    arr = np.array(data).reshape(shape) if len(shape) else np.array(data[0])
    if form == "py":
        return arr.tolist()
    if form == "np0" and not len(shape):
        return arr[()]  # numpy scalar
    return arr


def observe(thunk):
    with warnings.catch_warnings():
        warnings.simplefilter("ignore")
        with np.errstate(all="ignore"):
            try:
                thunk()
                return None
            except Exception as e:  # noqa
                return type(e).__name__


def verdict(exc):
    if exc is None:
        return "Accept"
    return "(Reject %s)" % (exc if exc in EXN else "OtherError")


def dy(rng, lo=-8, hi=8, den=4, nz=False):
    while True:
        v = rng.randint(lo * den, hi * den) / den
        if not nz or v != 0:
            return v


def shape_of(rng, maxdim=2, maxn=3):
    return [rng.randint(1, maxn) for _ in range(rng.randint(1, maxdim))]


def size(shape):
    n = 1
    for s in shape:
        n *= s
    return n


FORMS = ["py", "np"]


def case(cls, variant, spec, expect):
    return {"class": cls, "variant": variant, "spec": spec, "expect": expect}


# ================================================================== 1. durations
DUR_OPS = ["T", "Phi", "E", "P", "R", "S", "D", "X", "PD", "Wait", "ScalarOp", "MatrixOp", "MultiOperator",
           "G", "C", "Offset"]


def make_with_duration(op, dur, tau=1.0):
    import epgpy as epg
    from epgpy import opscalar, opmatrix
    if op == "T":
        return epg.T(30, 10, duration=dur)
    if op == "Phi":
        return epg.Phi(30, duration=dur)
    if op == "E":
        return epg.E(tau, 100, 10, duration=dur)
    if op == "P":
        return epg.P(tau, 0.5, duration=dur)
    if op == "R":
        return epg.R(0.5, 0.25, duration=dur)
    if op == "S":
        return epg.S(1, duration=dur)
    if op == "D":
        return epg.D(tau, 1.0, duration=dur)
    if op == "X":
        return epg.X(tau, 0.125, duration=dur)
    if op == "PD":
        return epg.PD(2.0, duration=dur)
    if op == "Wait":
        return epg.Wait(dur)
    if op == "Offset":
        return epg.Offset(dur)
    if op == "ScalarOp":
        return opscalar.ScalarOp([1j, -1j, 0.5], duration=dur)
    if op == "MatrixOp":
        return opmatrix.MatrixOp(np.eye(3), duration=dur)
    if op == "MultiOperator":
        return epg.MultiOperator([epg.T(30, 0), epg.Wait(1)], duration=dur)
    if op == "G":
        return epg.G(tau, 1.0, duration=dur)
    if op == "C":
        return epg.C(tau, duration=dur)
    raise ValueError(op)


def gen_duration(rng, n):
    out = []
    for i in range(n):
        op = rng.choice(DUR_OPS)
        kind = rng.choice(["neg", "neg", "neg", "zero", "nonneg", "tau_true", "tau_unguarded"])
        if op in ("Wait", "Offset") and rng.random() < 0.5:
            shape = []
        else:
            shape = rng.choice([[], [], [1], [3], [2, 2], [1, 4], [2, 1, 3]])
        if op == "Offset" and shape:
            shape = []  # abs() of a python list is a TypeError, Offset takes scalars / arrays
        nn = size(shape)
        form = rng.choice(["py", "np", "np0"])
        if kind in ("tau_true", "tau_unguarded"):
            op = rng.choice(["E", "P", "D", "X"])
            if op == "X":
                shape = []
            nn = size(shape)
            data = [abs(dy(rng)) for _ in range(nn)]
            neg = rng.random() < 0.7
            if neg:
                data[rng.randrange(nn)] = -abs(dy(rng, nz=True)) * rng.choice([1, 2 ** -20, 2 ** 20])
            spec = {"op": op, "tau_shape": shape, "tau": data, "form": form, "dur": kind == "tau_true"}
            if kind == "tau_true":
                out.append(case("duration", "tau_as_duration_" + ("neg" if neg else "nonneg"), spec,
                                "invalid" if neg else "valid"))
            else:
                out.append(case("duration", "tau_unguarded_" + ("neg" if neg else "nonneg"), spec,
                                "model" if neg else "valid"))
            continue
        if kind == "neg":
            data = [abs(dy(rng)) for _ in range(nn)]
            pos = rng.randrange(nn)
            data[pos] = -abs(dy(rng, nz=True)) * rng.choice([1, 2 ** -30, 2 ** -10, 2 ** 30])
            if rng.random() < 0.3:
                data[rng.randrange(nn)] = -1.0
            variant = "negative_%s_%dd" % ("scalar" if not shape else "entry", len(shape))
            exp = "invalid"
        elif kind == "zero":
            data = [rng.choice([0.0, -0.0]) for _ in range(nn)]
            variant, exp = "zero_%dd" % len(shape), "valid"
        else:
            data = [abs(dy(rng)) * rng.choice([1, 2 ** -30]) for _ in range(nn)]
            variant, exp = "nonnegative_%dd" % len(shape), "valid"
        if op == "Offset":
            exp = "model"
            variant = "offset_" + variant
        out.append(case("duration", variant, {"op": op, "shape": shape, "data": data, "form": form}, exp))
    return out


def build_duration(spec, QK):
    op = spec["op"]
    if "tau" in spec:
        tau = mk(spec["tau_shape"], spec["tau"], spec["form"])
        thunk = lambda: make_with_duration(op, True if spec["dur"] else None, tau=tau)
        term = "timed_op_ok %s %s" % ("DTrue" if spec["dur"] else "DNone", ql(spec["tau"]))
        return thunk, term
    dur = mk(spec["shape"], spec["data"], spec["form"])
    thunk = lambda: make_with_duration(op, dur)
    if op == "Offset":
        return thunk, "offset_ok %s" % ql(spec["data"])
    if op == "Wait":
        return thunk, "wait_ok %s" % ql(spec["data"])
    return thunk, "duration_ok (Some %s)" % ql(spec["data"])


# ================================================================== 2. times of G / C
def gen_time(rng, n):
    out = []
    for i in range(n):
        op = rng.choice(["G", "C"])
        tshape = rng.choice([[], [], [1], [2], [3], [4]]) if op == "G" else rng.choice([[], [1], [3], [2, 2]])
        nn = size(tshape)
        kind = rng.choice(["neg", "neg", "zero", "pos"])
        if kind == "neg":
            tau = [abs(dy(rng)) for _ in range(nn)]
            tau[rng.randrange(nn)] = -abs(dy(rng, nz=True)) * rng.choice([1, 2 ** -20, 2 ** 10])
            exp, variant = "invalid", "negative_tau_%dd" % len(tshape)
        elif kind == "zero":
            tau = [0.0] * nn
            exp, variant = "model", "tau_zero_is_zero_shift"
        else:
            tau = [abs(dy(rng, nz=True)) for _ in range(nn)]
            exp, variant = "valid", "positive_tau_%dd" % len(tshape)
        spec = {"op": op, "tau_shape": tshape, "tau": tau, "form": rng.choice(FORMS),
                "dur": rng.choice([None, True, [1.0], [-1.0]])}
        if op == "G":
            if tshape:
                spec["g_shape"], spec["g"] = [], [dy(rng, nz=True)]
            else:
                gs = rng.choice([[], [1], [2], [3], [2, 3]])
                spec["g_shape"], spec["g"] = gs, [dy(rng, nz=True) for _ in range(size(gs))]
        if spec["dur"] == [-1.0] and exp == "valid":
            exp, variant = "invalid", "negative_duration"
        if spec["dur"] is True and kind == "neg":
            pass
        if op == "C" and tshape and spec["form"] == "py":
            variant += "_pylist"
        out.append(case("time", op + "_" + variant, spec, exp))
    return out


def build_time(spec, QK):
    import epgpy as epg
    tau = mk(spec["tau_shape"], spec["tau"], spec["form"])
    d = spec["dur"]
    dur = d if d in (None, True) else d[0]
    if spec["op"] == "G":
        g = mk(spec["g_shape"], spec["g"], spec["form"])
        thunk = lambda: epg.G(tau, g, duration=dur)
        term = "G_ok %s %s %s %s %s %s" % (q(C_GAMMA), natl(spec["tau_shape"]), ql(spec["tau"]),
                                          natl(spec["g_shape"]), ql(spec["g"]), durarg(d))
    else:
        thunk = lambda: epg.C(tau, duration=dur)
        term = "C_ok %s %s %s" % (natl(spec["tau_shape"]), ql(spec["tau"]), durarg(d))
    return thunk, term


# ================================================================== 3./4. zero shifts, number of components
def karg(spec):
    if spec["kind"] == "int":
        return "(KInt (%d)%%Z)" % spec["data"][0]
    return "(KArr %s %s %s)" % (core.coq_bool(spec["kind"] == "float"), natl(spec["shape"]), ql(spec["data"]))


def mk_k(spec):
    if spec["kind"] == "int":
        return int(spec["data"][0])
    if spec["kind"] == "npint":
        return mk(spec["shape"], spec["data"], spec["form"] if spec["shape"] else "np0", dtype="int") \
            if spec["shape"] else np.int64(spec["data"][0])
    return mk(spec["shape"], spec["data"], spec["form"])


def gen_shift(rng, n):
    out = []
    for i in range(n):
        kind = rng.choice(["zero", "zero", "tiny", "partial", "kdim_bad", "kdim_bad", "kdim_ok", "nonzero", "G_dim"])
        form = rng.choice(FORMS)
        if kind == "G_dim":
            ng = rng.choice([3, 4, 4, 5, 7])
            batch = rng.choice([[], [2], [1, 3]])
            spec = {"op": "G", "tau_shape": [], "tau": [abs(dy(rng, nz=True))], "g_shape": batch + [ng],
                    "g": [dy(rng, nz=True) for _ in range(size(batch) * ng)], "form": form, "dur": None}
            out.append(case("kdim", "gradient_%d_components" % ng, spec, "valid" if ng <= 3 else "invalid"))
            continue
        if kind == "zero":
            k = rng.choice(["int", "float", "float", "npint"])
            shape = [] if k == "int" else rng.choice([[], [1], [2], [3], [4], [2, 1], [3, 2], [2, 2, 3]])
            data = [0] * size(shape)
            if k == "float":
                data = [rng.choice([0.0, -0.0]) for _ in data]
            spec = {"kind": k, "shape": shape, "data": data, "form": form}
            out.append(case("zero_shift", "exact_zero_%s_%dd" % (k, len(shape)), spec, "invalid"))
        elif kind == "tiny":
            shape = rng.choice([[], [2], [2, 3]])
            mag = rng.choice([2.0 ** -30, 2.0 ** -40, 2.0 ** -20, 2.0 ** -24])   # 9e-10, 9e-13 | 9.5e-7, 6e-8
            data = [rng.choice([-1, 1]) * mag * rng.choice([1, 0.5]) for _ in range(size(shape))]
            spec = {"kind": "float", "shape": shape, "data": data, "form": form}
            out.append(case("zero_shift", "within_or_near_tolerance", spec, "model"))
        elif kind == "partial":
            kd = rng.choice([1, 2, 3])
            nb = rng.choice([2, 3])
            k = rng.choice(["float", "npint"])
            data = [rng.choice([-2, -1, 1, 2, 3]) for _ in range(nb * kd)]
            b = rng.randrange(nb)
            data[b * kd:(b + 1) * kd] = [0] * kd
            spec = {"kind": k, "shape": [nb, kd], "data": data, "form": form}
            out.append(case("zero_shift", "zero_row_in_batch", spec, "invalid"))
        elif kind in ("kdim_bad", "kdim_ok"):
            kd = rng.choice([5, 5, 6, 8]) if kind == "kdim_bad" else rng.choice([1, 2, 3, 4, 4, 4])
            batch = rng.choice([[], [1], [2], [3, 2]])
            k = rng.choice(["float", "npint"])
            data = [rng.choice([-2, -1, 1, 2, 3]) * (1 if k == "npint" else 0.5) for _ in range(size(batch) * kd)]
            spec = {"kind": k, "shape": batch + [kd], "data": data, "form": form}
            out.append(case("kdim", "%d_components_batch%dd" % (kd, len(batch)), spec,
                            "invalid" if kd > 4 else "valid"))
        else:
            k = rng.choice(["int", "float", "npint"])
            shape = []
            v = rng.choice([-3, -1, 1, 2]) if k != "float" else rng.choice([-1.5, 2.0 ** -20, 1.0, 2.0 ** -23])
            spec = {"kind": k, "shape": shape, "data": [v], "form": form}
            out.append(case("zero_shift", "smallest_nonzero_%s" % k, spec, "valid"))
    return out


def build_shift(spec, QK):
    import epgpy as epg
    if spec.get("op") == "G":
        return build_time(spec, QK)
    k = mk_k(spec)
    return (lambda: epg.S(k)), "S_ok %s None" % karg(spec)


# ================================================================== 5. float shift without a grid
def gen_grid(rng, n):
    out = []
    for i in range(n):
        kd = rng.choice([1, 1, 2, 3, 4])
        nb = rng.choice([1, 1, 2, 3])
        kfloat = rng.random() < 0.75
        pre = rng.choice(["fresh", "fresh", "int_nd", "float"])
        if kfloat:
            data = [rng.choice([-1.5, -0.5, 0.5, 1.0, 1.5, 2.5]) for _ in range(nb * kd)]
            shape = [nb, kd] if (nb > 1 or kd > 1 or rng.random() < 0.5) else []
            kind = "float"
        else:
            data = [rng.choice([-2, -1, 1, 2]) for _ in range(nb * kd)]
            if nb == 1 and kd == 1 and rng.random() < 0.5:
                shape, kind = [], "int"
            else:
                shape, kind = [nb, kd], "npint"
        grid = rng.choice(["none", "none", "op", "sm"])
        spec = {"kind": kind, "shape": shape, "data": data, "form": rng.choice(FORMS), "pre": pre,
                "grid": grid, "sm_batch": nb if rng.random() < 0.5 else 1}
        needs = kfloat or pre == "float"
        if kfloat:
            exp = "invalid" if grid == "none" else "valid"
            variant = "float_k_%s_grid_%s_kdim%d_batch%d" % (pre, grid, kd, nb)
        else:
            exp = "model" if needs else "valid"
            variant = "int_k_%s_grid_%s" % (pre, grid)
        out.append(case("float_nogrid", variant, spec, exp))
    return out


def build_grid(spec, QK):
    import epgpy as epg
    k = mk_k(spec)
    opts = {"kgrid": 0.5} if spec["grid"] == "sm" else {}
    okw = {"kgrid": 0.5} if spec["grid"] == "op" else {}
    b = spec["sm_batch"]

    def thunk_pre():
        sm = epg.StateMatrix(shape=(b,), **opts)
        sm = epg.T(90, 0)(sm)
        if spec["pre"] == "int_nd":
            sm = epg.S(np.array([[1, 0]]))(sm)
        elif spec["pre"] == "float":
            sm = epg.S(0.5, kgrid=0.5)(sm)   # grid carried by this operator only
        return sm
    sm0 = thunk_pre()   # a failure here is a harness problem, not an observation
    thunk = lambda: epg.S(k, **okw)(sm0)
    coords = {"fresh": "CNone", "int_nd": "CInt", "float": "CFloat"}[spec["pre"]]
    g = lambda on: "(Some %s)" % q(0.5) if on else "None"
    term = "S_ok %s None >> S_apply_ok %s %s %s %s" % (karg(spec), karg(spec), coords,
                                                        g(spec["grid"] == "sm"), g(spec["grid"] == "op"))
    return thunk, term


# ================================================================== 6. state matrices
def wf_block(rng, n):
    """well-formed (2n+1) x 3 block of complex dyadic numbers, as [re, im] pairs"""
    N = 2 * n + 1
    rows = [[0j, 0j, 0j] for _ in range(N)]
    cd = lambda: complex(dy(rng, -2, 2, 2), dy(rng, -2, 2, 2))
    for k in range(0, n + 1):
        fp, fpm = cd(), cd()
        z = cd() if k > 0 else complex(dy(rng, -2, 2, 2))
        rows[n + k][0] = fp
        rows[n - k][1] = fp.conjugate()
        if k > 0:
            rows[n - k][0] = fpm
            rows[n + k][1] = fpm.conjugate()
        rows[n + k][2] = z
        rows[n - k][2] = z.conjugate()
    return rows


def flat_c(blocks):
    return [[z.real, z.imag] for blk in blocks for row in blk for z in row]


DELTAS = {"large": [1.0, 0.5, 2.0 ** -8, 4.0], "mid": [2.0 ** -17, 2.0 ** -19, 2.0 ** -22],
          "tiny": [2.0 ** -40, 2.0 ** -34]}


def delta(rng, mag):
    m = rng.choice(DELTAS[mag])
    return rng.choice([complex(m, 0), complex(-m, 0), complex(0, m), complex(0, -m), complex(m, -m)])


def gen_states(rng, n):
    out = []
    for i in range(n):
        kind = rng.choice(["shape", "shape", "asym", "asym", "asym", "tol", "valid"])
        form = rng.choice(FORMS)
        arg = rng.choice(["init", "init", "equilibrium", "simulate_init"])
        if kind == "shape":
            sh = rng.choice([[], [2], [4], [1], [2, 3], [4, 3], [3, 2], [3, 4], [1, 1, 2], [2, 2, 3], [2, 3, 4],
                             [3, 2, 4, 3], [0, 3], [2, 3, 1]])
            data = [[dy(rng, -1, 1, 2), 0.0] for _ in range(size(sh))]
            v = "not_3_columns" if (not sh or sh[-1] != 3) else "even_state_count"
            if len(sh) == 1:
                v = "vector_not_size_3"
            if not sh:
                v = "zero_dimensional"
            out.append(case("states", v + "_%dd" % len(sh), {"shape": sh, "data": data, "form": form, "arg": arg},
                            "invalid"))
            continue
        nst = rng.choice([0, 0, 1, 2, 3])
        batch = rng.choice([[], [], [1], [2], [2, 2]]) if nst or rng.random() < 0.5 else None
        nb = size(batch) if batch is not None else 1
        blocks = [wf_block(rng, nst) for _ in range(nb)]
        sh = [3] if batch is None else batch + [2 * nst + 1, 3]
        exp, variant = "valid", "well_formed_n%d_batch%d" % (nst, nb)
        if kind in ("asym", "tol"):
            mag = rng.choice(["large", "large", "mid"]) if kind == "asym" else "tiny"
            b, r = rng.randrange(nb), rng.randrange(2 * nst + 1)
            col = rng.choice([0, 1, 2, 2])
            d = delta(rng, mag)
            if col == 2 and r == nst and d.imag == 0:
                d = complex(0, d.real)          # a real change of Z0 keeps the symmetry
            blocks[b][r][col] += d
            exp = "invalid" if mag == "large" else "model"
            variant = "%s_col%d_%s_n%d_batch%d" % ("asym", col, mag, nst, nb)
        out.append(case("states", variant, {"shape": sh, "data": flat_c(blocks), "form": form, "arg": arg}, exp))
    return out


def build_states(spec, QK):
    import epgpy as epg
    arr = mk(spec["shape"], spec["data"], spec["form"], dtype="complex") if size(spec["shape"]) or spec["shape"] \
        else mk([], spec["data"], spec["form"], dtype="complex")
    if size(spec["shape"]) == 0:
        arr = np.zeros(spec["shape"], dtype=complex)
    a = spec["arg"]
    if a == "init":
        thunk = lambda: epg.StateMatrix(arr)
    elif a == "equilibrium":
        thunk = lambda: epg.StateMatrix(equilibrium=arr)
    else:
        thunk = lambda: epg.simulate([epg.T(30, 0), epg.ADC], init=arr)
    return thunk, "states_ok %s %s" % (natl(spec["shape"]), cl(spec["data"]))


# ================================================================== 7./8. operator coefficients
def wf_scalar(rng):
    a = complex(dy(rng, -2, 2, 2), dy(rng, -2, 2, 2))
    return [a, a.conjugate(), complex(dy(rng, -2, 2, 2))]


def wf_matrix(rng):
    cd = lambda: complex(dy(rng, -2, 2, 2), dy(rng, -2, 2, 2))
    m00, m01, m02, m20 = cd(), cd(), cd(), cd()
    return [[m00, m01, m02], [m01.conjugate(), m00.conjugate(), m02.conjugate()],
            [m20, m20.conjugate(), complex(dy(rng, -2, 2, 2))]]


def gen_coef(rng, n, which):
    out = []
    inner = [3] if which == "scalar" else [3, 3]
    for i in range(n):
        kind = rng.choice(["shape", "asym", "asym", "asym", "tol", "valid", "arr0_bad", "nobroadcast"])
        form = rng.choice(FORMS)
        if kind == "shape":
            if which == "scalar":
                sh = rng.choice([[], [2], [4], [2, 2], [3, 4], [2, 3, 2], [1], [3, 1]])
            else:
                sh = rng.choice([[], [3], [9], [3, 2], [2, 3], [2, 2, 3], [2, 3, 2], [3, 3, 4], [4, 4], [1, 3]])
            data = [[dy(rng, -1, 1, 2), 0.0] for _ in range(size(sh))]
            out.append(case(which + "_coef", "bad_shape_%dd" % len(sh),
                            {"shape": sh, "data": data, "form": form, "arr0": None}, "invalid"))
            continue
        batch = rng.choice([[], [], [1], [2], [3], [2, 2]])
        nb = size(batch)
        mkone = (lambda: [wf_scalar(rng)]) if which == "scalar" else (lambda: wf_matrix(rng))
        blocks = [mkone() for _ in range(nb)]
        spec = {"shape": batch + inner, "form": form, "arr0": None}
        exp, variant = "valid", "well_formed_batch%dd" % len(batch)
        target = blocks
        if kind in ("arr0_bad", "nobroadcast") or rng.random() < 0.3:
            b0 = batch if kind != "nobroadcast" else rng.choice([[nb + 1], [2, nb + 2], [nb + 3] + batch[1:]])
            if kind == "nobroadcast" and not batch:
                b0 = []
            blocks0 = [mkone() for _ in range(size(b0))]
            spec["arr0"] = {"shape": b0 + inner}
            if kind == "nobroadcast" and batch and nb > 1:
                exp, variant = "invalid", "arr_arrzero_not_broadcastable"
            elif kind == "nobroadcast":
                variant = "arr_arrzero_broadcast_ok"
            if kind == "arr0_bad":
                target = blocks0
        else:
            blocks0 = None
        if kind in ("asym", "tol", "arr0_bad"):
            mag = "tiny" if kind == "tol" else rng.choice(["large", "large", "mid"])
            b = rng.randrange(len(target))
            blk = target[b]
            r, col = rng.randrange(len(blk)), rng.randrange(3)
            d = delta(rng, mag)
            if (which == "scalar" and col == 2 and d.imag == 0) or (which == "matrix" and r == 2 and col == 2 and d.imag == 0):
                d = complex(0, d.real)
            blk[r][col] += d
            exp = "invalid" if mag == "large" else "model"
            variant = "asym_%s_%s_pos%d_%d_batch%dd" % ("arrzero" if target is blocks0 else "arr", mag, r, col, len(batch))
        spec["data"] = flat_c(blocks)
        if blocks0 is not None:
            spec["arr0"]["data"] = flat_c(blocks0)
        out.append(case(which + "_coef", variant, spec, exp))
    return out


def build_coef(which):
    def build(spec, QK):
        from epgpy import opscalar, opmatrix
        arr = mk(spec["shape"], spec["data"], spec["form"], dtype="complex") if size(spec["shape"]) else \
            np.zeros(spec["shape"], dtype=complex)
        if not spec["shape"]:
            arr = mk([], spec["data"], spec["form"], dtype="complex")
        a0 = spec["arr0"]
        arr0 = None if a0 is None else mk(a0["shape"], a0["data"], spec["form"], dtype="complex")
        ctor = opscalar.ScalarOp if which == "scalar" else opmatrix.MatrixOp
        t0 = "None" if a0 is None else "(Some (%s, %s))" % (natl(a0["shape"]), cl(a0["data"]))
        term = "%s_coef_ok (%s, %s) %s" % (which, natl(spec["shape"]), cl(spec["data"]), t0)
        return (lambda: ctor(arr, arr0)), term
    return build


# ================================================================== 9. operator / state shapes
def gen_broadcast(rng, n):
    out = []
    for i in range(n):
        kind = rng.choice(["prepare", "prepare", "prepare", "not_sm", "multi", "multi", "simulate"])
        if kind == "not_sm":
            what = rng.choice(["list", "none", "ndarray", "tuple", "float"])
            out.append(case("broadcast", "not_a_statematrix_" + what, {"call": "not_sm", "what": what,
                            "op_shape": shape_of(rng)}, "invalid"))
            continue
        if kind == "prepare":
            ssm = shape_of(rng, 3, 4)
            sop = list(ssm[:rng.randint(1, len(ssm))]) if rng.random() < 0.5 else ssm + shape_of(rng, 1, 3)
            sop = [d if rng.random() < 0.7 else 1 for d in sop]
            exp, variant = "valid", "compatible_sm%dd_op%dd" % (len(ssm), len(sop))
            if rng.random() < 0.6:
                cand = [a for a in range(min(len(ssm), len(sop))) if ssm[a] > 1]
                if cand:
                    ax = rng.choice(cand)
                    sop[ax] = ssm[ax] + rng.choice([1, 2])
                    exp = "invalid"
                    variant = "mismatch_axis%d_of_%d_%s" % (ax, len(sop), "trailing" if ax == len(sop) - 1 else "inner")
            out.append(case("broadcast", variant, {"call": "prepare", "sm_shape": ssm, "op_shape": sop,
                            "op": rng.choice(["T", "E", "PD"])}, exp))
            continue
        # list of operator shapes, possibly with a non-operator item
        nops = rng.randint(2, 5)
        base = shape_of(rng, 2, 3)
        shapes = []
        for j in range(nops):
            s = [d if rng.random() < 0.6 else 1 for d in base[:rng.randint(1, len(base))]]
            shapes.append(s)
        exp, variant = "valid", "compatible_%d_ops" % nops
        r = rng.random()
        if r < 0.45:
            j = rng.randrange(nops)
            ax = rng.randrange(len(shapes[j]))
            others = [s for jj, s in enumerate(shapes) if jj != j and len(s) > ax and s[ax] > 1]
            if others:
                shapes[j][ax] = others[0][ax] + 1
                exp, variant = "invalid", "mismatch_item%d_axis%d" % (j, ax)
        elif r < 0.65 and kind == "multi":
            shapes[rng.randrange(nops)] = None
            exp, variant = "invalid", "non_operator_item"
        out.append(case("broadcast", kind + "_" + variant, {"call": kind, "shapes": shapes,
                        "nonop": rng.choice([3, "T", None, 2.5])}, exp))
    return out


def op_of_shape(shape, kind="T"):
    import epgpy as epg
    a = np.arange(1, size(shape) + 1, dtype=float).reshape(shape) * 7
    if kind == "E":
        return epg.E(a, 100, 10)
    if kind == "PD":
        return epg.PD(a, reset=False)
    return epg.T(a, 10)


def build_broadcast(spec, QK):
    import epgpy as epg
    call = spec["call"]
    if call == "not_sm":
        obj = {"list": [0, 0, 1], "none": None, "ndarray": np.array([[0, 0, 1.0]]), "tuple": (0, 0, 1), "float": 1.0}[spec["what"]]
        op = op_of_shape(spec["op_shape"])
        return (lambda: op(obj)), "prepare_ok false [1%%nat] %s" % natl(spec["op_shape"])
    if call == "prepare":
        op = op_of_shape(spec["op_shape"], spec["op"])
        sm = epg.StateMatrix(shape=tuple(spec["sm_shape"]))
        return (lambda: op(sm)), "prepare_ok true %s %s" % (natl(spec["sm_shape"]), natl(spec["op_shape"]))
    items = [spec["nonop"] if s is None else op_of_shape(s) for s in spec["shapes"]]
    if call == "multi":
        term = "multioperator_ok %s" % core.clist([opt(s, natl) for s in spec["shapes"]])
        return (lambda: epg.MultiOperator(items)), term
    term = "simulate_ok 64 %s" % core.clist(["(IOp %s)" % natl(s) for s in spec["shapes"]] + ["IProbe"])
    return (lambda: epg.simulate(items + [epg.ADC])), term


# ================================================================== 10. kinetic matrices
def kinetic(rng, n, dens):
    """n x n matrix with zero column sums and K @ dens = 0 (dens: powers of two)"""
    L = [[0.0] * n for _ in range(n)]
    for i in range(n):
        for j in range(i + 1, n):
            w = rng.choice([0.25, 0.5, 1.0, 2.0])
            L[i][j] -= w
            L[j][i] -= w
            L[i][i] += w
            L[j][j] += w
    return [[-L[i][j] / dens[j] for j in range(n)] for i in range(n)]


def asymmetric_kinetic(rng, nc):
    """valid kinetic matrix (zero column sums) that is not symmetric, with its equilibrium densities"""
    while True:
        dens = [rng.choice([0.5, 1.0, 2.0, 4.0]) for _ in range(nc)]
        K = kinetic(rng, nc, dens)
        if any(K[i][j] != K[j][i] for i in range(nc) for j in range(nc)):
            return K, dens


def transpose(K):
    return [list(r) for r in zip(*K)]


def column_sums(K):
    return [sum(core.frac(K[i][j]) for i in range(len(K))) for j in range(len(K))]


COLUMN_MODES = ["one_entry", "row_pair_zero_total", "zero_row_sums", "all_columns_zero_total", "all_columns",
                "every_batch_entry_zero_total"]


def break_columns(rng, mats, nc, mode):
    """make column sums non-zero; the *_zero_total modes keep the sum of ALL entries at zero"""
    d = rng.choice([1.0, -0.5, 2.0 ** -12, 16.0, 2.0 ** -20, -3.0])
    b, r = rng.randrange(len(mats)), rng.randrange(nc)
    if mode == "one_entry":
        mats[b][r][rng.randrange(nc)] += d
    elif mode == "row_pair_zero_total":
        c1, c2 = rng.sample(range(nc), 2)
        mats[b][r][c1] += d
        mats[b][r][c2] -= d
    elif mode == "zero_row_sums":
        mats[b] = transpose(asymmetric_kinetic(rng, nc)[0])       # e.g. [[-a, a], [b, -b]], a != b
    elif mode == "all_columns_zero_total":
        offs = [d * (j + 1) for j in range(nc - 1)]
        offs.append(-sum(offs))
        for j in range(nc):
            mats[b][(r + j) % nc][j] += offs[j]
    elif mode == "all_columns":
        for j in range(nc):
            mats[b][(r + j) % nc][j] += d
    else:
        for m in mats:
            c1, c2 = rng.sample(range(nc), 2)
            rr = rng.randrange(nc)
            m[rr][c1] += d
            m[rr][c2] -= d
    return mats


def gen_kinetic(rng, n):
    out = []
    for i in range(n):
        kind = rng.choice(["shape", "sum", "sum", "sum", "sumtol", "negrate", "valid", "valid_asym", "tau0",
                           "conserve", "conserve", "conserve_ok", "ctor_apply", "ctor_apply"])
        form = rng.choice(FORMS)
        nc = rng.choice([2, 2, 3, 4])
        batch = rng.choice([[], [], [2], [3], [2, 2]])
        dens = [rng.choice([0.5, 1.0, 2.0, 4.0]) for _ in range(nc)]
        tau = rng.choice([0.5, 1.0, 4.0])
        if kind == "negrate":
            v = rng.choice([-0.125, -2.0 ** -30, -4.0, 0.0, 0.25])
            out.append(case("kinetic", "scalar_rate_" + ("negative" if v < 0 else "nonnegative"),
                            {"call": "ctor", "tau": tau, "scalar": v, "dur": None}, "invalid" if v < 0 else "valid"))
            continue
        if kind == "shape":
            sh = rng.choice([[2], [3], [2, 3], [3, 2], [2, 2, 3], [2, 3, 2], [1, 2], [4, 3, 3, 2]])
            data = [0.0] * size(sh)
            out.append(case("kinetic", "not_square_%dd" % len(sh), {"call": "ctor", "tau": tau, "shape": sh,
                            "data": data, "form": form, "dur": None}, "invalid"))
            continue
        if kind in ("conserve", "conserve_ok"):
            K = kinetic(rng, nc, dens)
            d = list(dens)
            exp, variant = "valid", "conserving_n%d" % nc
            if kind == "conserve":
                mode = rng.choice(["entry", "entry", "scalar_density", "tiny"])
                if mode == "entry":
                    p = rng.randrange(nc)
                    d[p] = d[p] + rng.choice([1.0, -0.25, 2.0 ** -10, 8.0])
                    exp, variant = "invalid", "not_conserving_entry%d_n%d" % (p, nc)
                elif mode == "scalar_density":
                    d = [rng.choice([1.0, 2.0])]
                    rows = [sum(K[r]) for r in range(nc)]
                    bad = any(abs(x) > 1e-6 for x in rows)
                    exp, variant = ("invalid" if bad else "valid"), "scalar_density_n%d" % nc
                else:
                    p = rng.randrange(nc)
                    d[p] = d[p] + 2.0 ** -40
                    exp, variant = "model", "within_tolerance_n%d" % nc
            out.append(case("kinetic", variant, {"call": "apply", "tau": tau, "shape": [nc, nc],
                            "data": [x for r in K for x in r], "form": form, "dens": d}, exp))
            continue
        if kind == "ctor_apply":
            # construction AND application in one call: an invalid matrix must raise at one of the two
            sub = rng.choice(["zero_row_sums_equal_densities", "zero_row_sums_equal_densities", "row_pair_equal_densities",
                              "asymmetric_own_equilibrium", "asymmetric_other_densities"])
            K, kd = asymmetric_kinetic(rng, nc)
            d = list(kd)
            exp = "invalid"
            if sub == "zero_row_sums_equal_densities":
                K = transpose(K)                       # khi @ (1,..,1) = 0: only the column check can refuse it
                d = [rng.choice([1.0, 2.0])] * nc
            elif sub == "row_pair_equal_densities":
                K = kinetic(rng, nc, [1.0] * nc)       # symmetric, conserving for equal densities
                K = break_columns(rng, [K], nc, "row_pair_zero_total")[0]
                d = [1.0] * nc
            elif sub == "asymmetric_own_equilibrium":
                exp = "valid"
            else:
                p = rng.randrange(nc)
                d[p] = d[p] * rng.choice([2.0, 0.5, 1.0 + 2.0 ** -10])
            assert (exp == "valid") == all(x == 0 for x in column_sums(K)) or sub == "asymmetric_other_densities"
            out.append(case("kinetic", "construct_and_apply_%s_n%d" % (sub, nc),
                            {"call": "ctor_apply", "tau": tau, "shape": [nc, nc], "data": [x for r in K for x in r],
                             "form": form, "dens": d}, exp))
            continue
        if kind == "valid_asym":
            mats = [asymmetric_kinetic(rng, nc)[0] for _ in range(size(batch))]
        else:
            mats = [kinetic(rng, nc, dens) for _ in range(size(batch))]
        exp, variant = "valid", "%s_n%d_batch%dd" % ("valid_asymmetric" if kind == "valid_asym" else "valid", nc, len(batch))
        dur = None
        if kind in ("sum", "sumtol"):
            b, r, cc = rng.randrange(len(mats)), rng.randrange(nc), rng.randrange(nc)
            if kind == "sum":
                mode = rng.choice(COLUMN_MODES)
                mats = break_columns(rng, mats, nc, mode)
                worst = max(abs(x) for m in mats for x in column_sums(m))
                assert worst > 1e-7, (mode, mats)
                exp, variant = "invalid", "column_sums_%s_n%d_batch%dd" % (mode, nc, len(batch))
            else:
                mats[b][r][cc] += rng.choice([2.0 ** -40, -2.0 ** -34])
                exp, variant = "model", "column_sum_within_tolerance"
        elif kind == "tau0":
            tau = 0.0
            dur = rng.choice([None, True])
            variant = "tau_zero_%s_n%d" % ("batched" if batch else "unbatched", nc)
        out.append(case("kinetic", variant, {"call": "ctor", "tau": tau, "shape": batch + [nc, nc],
                        "data": [x for m in mats for r in m for x in r], "form": form, "dur": dur}, exp))
    return out


def build_kinetic(spec, QK):
    import epgpy as epg
    tau = spec["tau"]
    if "scalar" in spec:
        return (lambda: epg.X(tau, spec["scalar"])), "X_ok %s (KhiScalar %s) DNone" % (q(tau), q(spec["scalar"]))
    khi = mk(spec["shape"], spec["data"], spec["form"])
    if spec["call"] == "ctor":
        d = spec["dur"]
        term = "X_ok %s (KhiArr %s %s) %s" % (q(tau), natl(spec["shape"]), ql(spec["data"]), durarg(d))
        return (lambda: epg.X(tau, khi, duration=d)), term
    dens = spec["dens"]
    sm = epg.StateMatrix(density=dens if len(dens) > 1 else dens[0])
    term = "X_apply_ok %s %s %s" % (nat(spec["shape"][0]), ql(spec["data"]), ql(dens))
    if spec["call"] == "ctor_apply":
        term = "X_ok %s (KhiArr %s %s) DNone >> %s" % (q(tau), natl(spec["shape"]), ql(spec["data"]), term)
        return (lambda: epg.X(tau, khi)(sm)), term
    op = epg.X(tau, khi)
    return (lambda: op(sm)), term


# ================================================================== 11. diffusion dimensions
def gen_diffusion(rng, n):
    out = []
    for i in range(n):
        kind = rng.choice(["ctor", "ctor", "apply", "apply", "apply_k"])
        if kind == "ctor":
            sub = rng.choice(["vector", "nonsquare", "k_mismatch", "batch", "valid", "valid"])
            tsh = rng.choice([[], [], [2], [3]])
            ksh = None
            exp = "invalid"
            if sub == "vector":
                dsh = [rng.choice([1, 2, 3, 4])]
            elif sub == "nonsquare":
                a = rng.choice([1, 2, 3])
                dsh = rng.choice([[], [2], [3, 2]]) + rng.choice([[a, a + 1], [a + 2, a]])
            elif sub == "k_mismatch":
                m = rng.choice([1, 2, 3])
                j = rng.choice([x for x in [1, 2, 3, 4] if x != m])
                dsh = [m, m]
                ksh = rng.choice([[j], [2, j], [1, j]])
            elif sub == "batch":
                m = rng.choice([2, 3])
                dsh = [rng.choice([2, 3]), m, m]
                tsh = [dsh[0] + rng.choice([1, 2])]
            else:
                exp = "valid"
                m = rng.choice([None, 1, 2, 3])
                b = rng.choice([[], [2], [3]])
                dsh = [] if m is None else b + [m, m]
                tsh = rng.choice([[], b]) if b else tsh
                if m is None:
                    tsh = rng.choice([[], [2]])
                if rng.random() < 0.5:
                    j = m or rng.choice([1, 2, 3])
                    ksh = rng.choice([[j], [1, j]])
            variant = "ctor_" + sub + ("_with_k" if ksh else "")
            out.append(case("diffusion_dims", variant, {"call": "ctor", "tau_shape": tsh, "D_shape": dsh, "k_shape": ksh,
                            "form": rng.choice(FORMS)}, exp))
            continue
        kd_state = rng.choice([1, 1, 2, 3, 4])      # components of the state's coordinates
        nd = rng.random() < 0.5 or kd_state > 1       # n-d coordinates (else the implicit 1-D layout)
        kd = min(kd_state, 3)
        s_eff = kd_state if nd else 1

        def kdim_after(m_, kk_):     # D._apply: a higher-dimensional argument upgrades the coordinates
            return min(max(s_eff, m_ or 1, kk_ or 1), 3)
        if kind == "apply":
            m = rng.choice([None, 1, 2, 3, 4])
            ok = m is None or m == kdim_after(m, None)
            spec = {"call": "apply", "m": m, "kk": None, "kd_state": kd_state, "nd": nd}
            variant = "tensor_%s_on_state_kdim%d" % ("scalar" if m is None else "%dx%d" % (m, m), kd)
        else:
            kk = rng.choice([1, 2, 3, 4])
            ok = kk == kdim_after(None, kk)
            spec = {"call": "apply", "m": None, "kk": kk, "kd_state": kd_state, "nd": nd}
            variant = "shift_arg_%d_components_on_state_kdim%d" % (kk, kd)
        out.append(case("diffusion_dims", variant, spec, "valid" if ok else "invalid"))
    return out


def build_diffusion(spec, QK):
    import epgpy as epg
    if spec["call"] == "ctor":
        tau = mk(spec["tau_shape"], [1.0] * size(spec["tau_shape"]), spec["form"])
        Dm = mk(spec["D_shape"], [0.5] * size(spec["D_shape"]), spec["form"])
        ks = spec["k_shape"]
        k = None if ks is None else mk(ks, [1.0] * size(ks), spec["form"])
        term = "D_shape_ok %s %s %s" % (natl(spec["tau_shape"]), natl(spec["D_shape"]), opt(ks, natl))
        return (lambda: epg.D(tau, Dm, k)), term
    m, kk, kds = spec["m"], spec["kk"], spec["kd_state"]
    sm = epg.T(90, 0)(epg.StateMatrix())
    sm = epg.S(np.array([[1] * kds]))(sm) if spec["nd"] else epg.S(1)(sm)
    Dm = 1.0 if m is None else np.eye(m)
    k = None if kk is None else [1.0] * kk
    op = epg.D(5.0, Dm, k)
    term = "D_apply_ok %s %s %s" % (opt(m, nat), opt(kk, nat), nat(kds if spec["nd"] else 1))
    return (lambda: op(sm)), term


# ================================================================== 12. differentiation parameters / pairs
PARAMS = {"T": (["alpha", "phi"], [("alpha", "alpha"), ("alpha", "phi"), ("phi", "phi")]),
          "E": (["tau", "T1", "T2", "g"], [("tau", "tau"), ("T1", "T1"), ("T2", "T2"), ("g", "g"), ("T1", "tau"),
                                           ("T2", "tau"), ("g", "tau"), ("T2", "g")]),
          "P": (["tau", "g"], [("tau", "tau"), ("g", "g"), ("g", "tau")]),
          "Phi": (["phi"], [("phi", "phi")])}
UNKNOWN = ["foo", "T3", "Alpha", "x", "alpha ", "b1", "magnitude"]


def gen_partials(rng, n):
    out = []
    for i in range(n):
        op = rng.choice(list(PARAMS))
        params, pairs = PARAMS[op]
        unk = lambda: rng.choice([u for u in UNKNOWN if u not in params])
        kind = rng.choice(["first_unknown", "first_unknown", "first_valid", "second_unknown_pair", "second_unknown_pair", "second_valid",
                           "second_coef_unknown", "first_bad", "second_cross", "second_strlist", "second_no_first", "second_bad"])
        o2 = ["false"]
        exp = "valid"
        names = [rng.choice(params) for _ in range(rng.randint(1, 3))]
        names = list(dict.fromkeys(names))
        if kind.startswith("first"):
            form = rng.choice(["str", "list", "alias", "coef"])
            if kind == "first_unknown":
                pos = rng.randrange(len(names) + 1)
                names.insert(pos, unk())
                exp = "invalid"
            if kind == "first_bad":
                o1 = ["bad", rng.choice(["int", "tuple", "mixed"])]
                exp = "model"
            elif form == "str":
                o1 = ["str", names[0] if kind == "first_valid" else [x for x in names if x not in params][0]]
            elif form == "list":
                o1 = ["list", names]
            elif form == "alias":
                o1 = ["alias", [["v%d" % j, p] for j, p in enumerate(names)]]
            else:
                o1 = ["coef", [["v", names]] if rng.random() < 0.5 else [["v%d" % j, [p]] for j, p in enumerate(names)]]
            variant = "%s_%s" % (kind, o1[0])
            if rng.random() < 0.3 and kind != "first_bad":
                o2 = ["true"]      # order2=True on top: same order1 checks come first
                used = [o1[1]] if o1[0] == "str" else names
                if exp == "valid" and (o1[0] in ("alias", "coef") or set(used) != set(params)):
                    exp = "model"   # order2=True names every parameter pair: needs all of them as order1 variables
                variant += "_second_true"
        else:
            o1 = rng.choice([["true"], ["list", list(params)]])
            vars1 = list(params)
            if kind == "second_unknown_pair":
                good = [list(rng.choice(pairs)) for _ in range(rng.randint(0, 2))]
                good.insert(rng.randrange(len(good) + 1), [unk(), unk()])
                o2 = rng.choice([["pairs", good], ["dict", [[p, []] for p in good]]])
                exp = "invalid"
            elif kind == "second_valid":
                good = [list(rng.choice(pairs)) for _ in range(rng.randint(1, 3))]
                o2 = rng.choice([["pairs", good], ["dict", [[p, [rng.choice(params)]] for p in good]], ["true"],
                                 ["str", rng.choice(params)]])
            elif kind == "second_coef_unknown":
                good = [list(rng.choice(pairs)) for _ in range(rng.randint(1, 3))]
                good = [list(t) for t in dict.fromkeys(tuple(p) for p in good)]
                d = [[p, [rng.choice(params)]] for p in good]
                d[rng.randrange(len(d))][1].append(unk())
                o2 = ["dict", d]
                exp = "invalid"
            elif kind == "second_cross":
                p = [rng.choice(params), unk()]
                rng.shuffle(p)
                o2 = rng.choice([["pairs", [p]], ["dict", [[p, [rng.choice(params)]]]]])
                exp = "model"
            elif kind == "second_strlist":
                exp = "valid"
                if rng.random() < 0.4:
                    names.insert(rng.randrange(len(names) + 1), unk())
                    exp = "invalid"
                o2 = ["strlist", names]
            elif kind == "second_no_first":
                o1 = rng.choice([["false"], ["list", []]])
                o2 = ["pairs", [list(rng.choice(pairs))]]
                exp = "model"
            else:
                o2 = ["bad", "int_list"]
                exp = "model"
            variant = "%s_%s" % (kind, o2[0])
        out.append(case("partials", variant, {"op": op, "o1": o1, "o2": o2}, exp))
    return out


def py_o1(o1):
    t = o1[0]
    if t == "false":
        return False
    if t == "true":
        return True
    if t == "str":
        return o1[1]
    if t == "list":
        return list(o1[1])
    if t == "alias":
        return {v: p for v, p in o1[1]}
    if t == "coef":
        return {v: {p: 1.0 for p in ps} for v, ps in o1[1]}
    return {"int": 3, "tuple": ("alpha",), "mixed": {"a": 3}}[o1[1]]


def py_o2(o2):
    t = o2[0]
    if t == "false":
        return False
    if t == "true":
        return True
    if t == "str":
        return o2[1]
    if t == "strlist":
        return list(o2[1])
    if t == "pairs":
        return [tuple(p) for p in o2[1]]
    if t == "dict":
        return {tuple(p): {x: 1.0 for x in cs} for p, cs in o2[1]}
    return [3]


def coq_o1(o1):
    t = o1[0]
    if t in ("false", "true"):
        return "O1" + t.capitalize()
    if t == "str":
        return "(O1Str %s)" % st(o1[1])
    if t == "list":
        return "(O1List %s)" % stl(o1[1])
    if t == "alias":
        return "(O1Alias %s)" % core.clist([pair(st(v), st(p)) for v, p in dict((v, p) for v, p in o1[1]).items()])
    if t == "coef":
        return "(O1Coef %s)" % core.clist([pair(st(v), stl(list(dict.fromkeys(ps)))) for v, ps in o1[1]])
    return "O1Bad"


def coq_pair(p):
    # diff.Pair sorts the two names
    a, b = sorted(p)
    return pair(st(a), st(b))


def coq_o2(o2):
    t = o2[0]
    if t in ("false", "true"):
        return "O2" + t.capitalize()
    if t == "str":
        return "(O2Str %s)" % st(o2[1])
    if t == "strlist":
        return "(O2StrList %s)" % stl(o2[1])
    if t == "pairs":
        return "(O2Pairs %s)" % core.clist([coq_pair(p) for p in o2[1]])
    if t == "dict":
        return "(O2Dict %s)" % core.clist([pair(coq_pair(p), stl(cs)) for p, cs in o2[1]])
    return "O2Bad"


def build_partials(spec, QK):
    import epgpy as epg
    op = spec["op"]
    params, pairs = PARAMS[op]
    a1, a2 = py_o1(spec["o1"]), py_o2(spec["o2"])
    ctor = {"T": lambda **kw: epg.T(30, 10, **kw), "E": lambda **kw: epg.E(5, 100, 10, 0.5, **kw),
            "P": lambda **kw: epg.P(5, 0.5, **kw), "Phi": lambda **kw: epg.Phi(30, **kw)}[op]
    term = "parse_partials_ok %s %s %s %s" % (stl(params), core.clist([coq_pair(p) for p in pairs]),
                                                coq_o1(spec["o1"]), coq_o2(spec["o2"]))
    return (lambda: ctor(order1=a1, order2=a2)), term


# ================================================================== 13. sequences
def gen_tree(rng, depth, want_probe, bad):
    """nested item list as JSON: ["op", shape] | "probe" | ["multi", [...]] | ["list", [...]] | ["nonop", what]"""
    n = rng.randint(1, 4)
    items = []
    for j in range(n):
        r = rng.random()
        if depth > 0 and r < 0.25:
            items.append(["list", gen_tree(rng, depth - 1, False, None)])
        elif r < 0.35:
            items.append(["multi", [["op", [1]], ["op", rng.choice([[1], [2]])]]])
        else:
            items.append(["op", rng.choice([[1], [1], [2], [1, 1]])])
    return items


def insert_at_random(rng, tree, leaf):
    """insert leaf at a random position of a random (nested) python list of the tree"""
    lists = []

    def walk(l):
        lists.append(l)
        for it in l:
            if it[0] == "list":
                walk(it[1])
    walk(tree)
    l = rng.choice(lists)
    l.insert(rng.randrange(len(l) + 1), leaf)
    return lists.index(l)


NONOPS = ["int", "float", "str", "none", "tuple", "ndarray", "dict"]


PROBE_FORMS = ["none", "empty_list", "str", "list", "tuple", "probe_object", "adc_object", "callable",
               "list_with_none", "list_of_objects"]


def random_sim_options(rng):
    return {"probe": rng.choice(PROBE_FORMS), "adc_time": rng.random() < 0.5, "asarray": rng.random() < 0.5,
            "init": rng.choice(["none", "none", "list", "statematrix"]), "max_nstate": rng.choice([None, None, 0, 3]),
            "callback": rng.random() < 0.3, "squeeze": rng.choice([None, False]), "disp": rng.choice([None, False])}


def py_sim_options(o):
    import epgpy as epg
    kw = {}
    probe = {"none": None, "empty_list": [], "str": "F0", "list": ["F0", "Z0"], "tuple": ("F0",),
             "probe_object": epg.Probe("Z0"), "adc_object": epg.ADC, "callable": (lambda sm: sm.F0),
             "list_with_none": [None, "Z0"], "list_of_objects": [epg.Probe("F0"), epg.ADC]}[o["probe"]]
    if o["probe"] != "none" or o.get("explicit_none"):
        kw["probe"] = probe
    if o["adc_time"]:
        kw["adc_time"] = True
    if not o["asarray"]:
        kw["asarray"] = False
    if o["init"] == "list":
        kw["init"] = [0, 0, 1]
    elif o["init"] == "statematrix":
        kw["init"] = epg.StateMatrix([0.5j, -0.5j, 0.5])
    if o["max_nstate"] is not None:
        kw["max_nstate"] = o["max_nstate"]
    if o["callback"]:
        kw["callback"] = lambda sm: None
    for k in ("squeeze", "disp"):
        if o.get(k) is False:
            kw[k] = False
    return kw


def coq_sim_options(o):
    pr = {"none": "PrNone", "empty_list": "PrEmpty", "str": "PrStr", "list": "(PrList 2)", "tuple": "(PrTuple 1)",
          "probe_object": "PrObject", "adc_object": "PrObject", "callable": "PrCallable", "list_with_none": "(PrList 2)",
          "list_of_objects": "(PrList 2)"}[o["probe"]]
    return "(mkSimOpts %s %s %s %s %s %s)" % (pr, core.coq_bool(o["adc_time"]), core.coq_bool(o["asarray"]),
                                            core.coq_bool(o["init"] != "none"), opt(o["max_nstate"], nat),
                                            core.coq_bool(o["callback"]))


# probe-less sequences of every build, crossed with every form of probe= and adc_time (and their valid twins)
PROBELESS = {
    "flat": [["op", [1]], ["op", [1]]],
    "single_operator": [["op", [1]]],
    "nested": [["op", [1]], ["list", [["op", [2]], ["list", [["op", [1]]]]]]],
    "multioperator": [["multi", [["op", [1]], ["op", [1]]]], ["op", [1]]],
    "empty": [],
    "only_empty_lists": [["list", []], ["list", [["list", []]]]],
}


def gen_simulate_options_cross():
    import copy
    out = []
    for sname, tree in PROBELESS.items():
        for pf in PROBE_FORMS:
            for adc_time in (False, True):
                o = {"probe": pf, "adc_time": adc_time, "asarray": not adc_time, "init": "none", "max_nstate": None,
                     "callback": False, "explicit_none": pf == "none" and adc_time}
                out.append(case("sequence", "no_probe_%s_probe_arg_%s%s" % (sname, pf, "_adc_time" if adc_time else ""),
                                {"call": "simulate", "tree": copy.deepcopy(tree), "options": o}, "invalid"))
                twin = copy.deepcopy(tree) + ["probe"]
                if sname == "nested":
                    twin = copy.deepcopy(tree)
                    twin[1][1][1][1].append("probe")          # the probe sits two lists deep
                elif sname == "multioperator":
                    twin = [["multi", [["op", [1]], "probe"]], ["op", [1]]]
                out.append(case("sequence", "with_probe_%s_probe_arg_%s%s" % (sname, pf, "_adc_time" if adc_time else ""),
                                {"call": "simulate", "tree": twin, "options": dict(o)}, "valid"))
    return out


SEQ_VARS = ["a", "T1", "T2"]
SEQ_UNKNOWN = ["foo", "T3", "alpha", "Magnitude", "b1"]


def gen_derivative_requests(rng, n):
    """jacobian / hessian / crlb(gradient=) / simulate / build requests: names of the sequence, 'magnitude',
    and an unknown name at any position of either list -- also when its only partners are 'magnitude'"""
    out = []
    for i in range(n):
        via = rng.choice(["hessian", "hessian", "hessian", "crlb_gradient", "simulate_order2", "build_order2", "jacobian"])
        pick = lambda: rng.sample(SEQ_VARS + ["magnitude"], rng.randint(1, 3))
        only_mag = lambda: ["magnitude"]
        v1 = rng.choice([pick, pick, only_mag])()
        v2 = rng.choice([pick, pick, only_mag])()
        where = rng.choice(["first", "second", "second", "both", "none", "none"])
        if via == "jacobian":
            v2 = []
            where = rng.choice(["first", "none"])
        if where in ("first", "both"):
            v1 = list(v1)
            v1.insert(rng.randrange(len(v1) + 1), rng.choice(SEQ_UNKNOWN))
        if where in ("second", "both"):
            v2 = list(v2)
            v2.insert(rng.randrange(len(v2) + 1), rng.choice(SEQ_UNKNOWN))
        partners = "magnitude_only" if (where == "second" and set(v1) == {"magnitude"}) or \
            (where == "first" and v2 and set(v2) == {"magnitude"}) else "mixed"
        if via == "crlb_gradient" and where == "none" and (len(v1) != 1 or v1 == ["magnitude"]):
            via = "hessian"        # one echo cannot identify several unknowns (singular Fisher matrix): not a validation matter
        exp = "valid" if where == "none" else "invalid"
        variant = "derivatives_%s_unknown_%s_partners_%s" % (via, where, partners)
        out.append(case("sequence", variant, {"call": "seq_derivatives", "via": via, "v1": v1, "v2": v2}, exp))
    return out


def gen_sequence(rng, n):
    out = gen_simulate_options_cross() + gen_derivative_requests(rng, n)
    for i in range(n):
        kind = rng.choice(["no_probe", "no_probe", "nonop", "nonop", "valid", "valid", "modify",
                           "seq_check", "seq_missing", "seq_missing", "seq_unknown", "seq_extra", "seq_valid"])
        if kind in ("no_probe", "nonop", "valid", "modify"):
            tree = gen_tree(rng, 2, False, None)
            exp, variant = "valid", "with_probe"
            if kind != "no_probe":
                leaf = rng.choice(["probe", "probe", ["multi", [["op", [1]], "probe"]]])
                d = insert_at_random(rng, tree, leaf)
                variant = "probe_%s_depth%d" % ("in_multi" if leaf != "probe" else "plain", d)
            else:
                exp, variant = "invalid", "no_probe_%d_items" % len(tree)
            if kind == "nonop":
                what = rng.choice(NONOPS)
                d = insert_at_random(rng, tree, ["nonop", what])
                exp, variant = "invalid", "non_operator_%s_depth%d" % (what, d)
            call = "simulate"
            spec = {"call": call, "tree": tree}
            if kind != "modify" and rng.random() < 0.7:
                spec["options"] = random_sim_options(rng)
                variant += "_options_probe_arg_" + spec["options"]["probe"]
            if kind == "modify":
                spec["call"] = "modify"
                spec["callable"] = rng.random() < 0.5
                if rng.random() < 0.4:
                    what = rng.choice(NONOPS)
                    insert_at_random(rng, tree, ["nonop", what])
                    variant = "modify_non_operator_" + what
                    exp = "invalid"
                else:
                    variant = "modify_modifier_%scallable" % ("" if spec["callable"] else "not_")
                    exp = "valid" if spec["callable"] else "invalid"
            out.append(case("sequence", variant, spec, exp))
            continue
        variables = ["a", "T1", "T2"]
        if kind == "seq_check":
            items = ["T", "E", "ADC"]
            what = rng.choice(["int", "none", "real_op", "unknown_str", "float"])
            pos = rng.randrange(4)
            nest = rng.random() < 0.5
            out.append(case("sequence", "virtual_check_%s_pos%d%s" % (what, pos, "_nested" if nest else ""),
                            {"call": "seq_check", "what": what, "pos": pos, "nest": nest}, "invalid"))
            continue
        given = list(variables)
        o1, o2 = [], []
        exp, variant = "valid", "all_values_given"
        if kind == "seq_missing":
            k = rng.randint(1, 3)
            for v in rng.sample(variables, k):
                given.remove(v)
            exp, variant = "invalid", "missing_%d_of_3_values" % k
        elif kind == "seq_unknown":
            where = rng.choice(["jacobian", "hessian_variables_first", "hessian_variables_second", "hessian_variables_second"])
            good = rng.sample(variables, rng.randint(0, 2))
            names = list(good)
            names.insert(rng.randrange(len(names) + 1), rng.choice(["foo", "T3", "alpha"]))
            if where == "jacobian":
                o1 = names
            elif where == "hessian_variables_first":
                o1, o2 = names, ["T2"]
            else:
                o1, o2 = rng.choice([["T2"], ["a"], ["T1", "a"]]), names
            exp, variant = "invalid", "unknown_variable_in_" + where
        elif kind == "seq_extra":
            given.append("foo")
            exp, variant = "model", "extra_unknown_value_ignored"
        else:
            if rng.random() < 0.5:
                o1 = rng.sample(variables, rng.randint(1, 3)) + (["magnitude"] if rng.random() < 0.3 else [])
                variant = "jacobian_known_variables"
        out.append(case("sequence", variant, {"call": "seq_call", "given": given, "o1": o1, "o2": o2}, exp))
    return out


def py_tree(tree):
    import epgpy as epg
    out = []
    for it in tree:
        if it == "probe":
            out.append(epg.ADC)
        elif it[0] == "op":
            out.append(op_of_shape(it[1]) if rng_free_choice(it) else op_of_shape(it[1], "E"))
        elif it[0] == "multi":
            out.append(epg.MultiOperator(py_tree(it[1])))
        elif it[0] == "list":
            out.append(py_tree(it[1]))
        else:
            out.append({"int": 3, "float": 2.5, "str": "ADC", "none": None, "tuple": (epg.T(10, 0), epg.ADC),
                        "ndarray": np.zeros(3), "dict": {}}[it[1]])
    return out


def rng_free_choice(it):
    return (len(it[1]) + sum(it[1])) % 2 == 0


def coq_tree(tree):
    def one(it):
        if it == "probe":
            return "IProbe"
        if it[0] == "op":
            return "(IOp %s)" % natl(it[1])
        if it[0] == "multi":
            return "(IMulti %s)" % coq_tree(it[1])
        if it[0] == "list":
            return "(IList %s)" % coq_tree(it[1])
        return "INonOp"
    return core.clist([one(it) for it in tree])


def build_sequence(spec, QK):
    import epgpy as epg
    from epgpy import sequence as sq
    call = spec["call"]
    if call in ("simulate", "modify"):
        items = py_tree(spec["tree"])
        if call == "simulate":
            if spec.get("options"):
                kw = py_sim_options(spec["options"])
                return (lambda: epg.simulate(items, **kw)), "simulate_call_ok %s 64 %s" % (
                    coq_sim_options(spec["options"]), coq_tree(spec["tree"]))
            return (lambda: epg.simulate(items)), "simulate_ok 64 %s" % coq_tree(spec["tree"])
        mod = (lambda op, **kw: op) if spec["callable"] else 3
        return (lambda: epg.modify(items, mod, T1=100.0)), "modify_ok 64 %s %s" % (coq_tree(spec["tree"]),
                                                                                 core.coq_bool(spec["callable"]))
    a, T1, T2 = sq.Variable("a"), sq.Variable("T1"), sq.Variable("T2")
    ops = [sq.T(a, 90), sq.E(5, T1, T2), "ADC" if spec.get("pos", 0) % 2 else sq.ADC]
    if call == "seq_check":
        bad = {"int": 3, "none": None, "real_op": epg.T(10, 0), "unknown_str": "FOO", "float": 1.5}[spec["what"]]
        ops.insert(spec["pos"], [[bad]] if spec["nest"] else bad)
        flags = [True, True, True]
        flags.insert(spec["pos"], False)
        return (lambda: sq.Sequence(ops)), "seq_check_ok %s" % core.clist([core.coq_bool(b) for b in flags])
    vals = {"a": 30.0, "T1": 100.0, "T2": 10.0, "foo": 1.0}
    if call == "seq_derivatives":
        seq = sq.Sequence(ops)
        v1, v2, via = spec["v1"], spec["v2"], spec["via"]
        allv = {k: vals[k] for k in SEQ_VARS}
        pairs = sorted({tuple(sorted((x, y))) for x in v1 for y in v2})
        o1 = list(v1)
        if via == "jacobian":
            thunk = lambda: seq.jacobian(v1)(**allv)
        elif via == "hessian":
            thunk = lambda: seq.hessian(v1, v2)(**allv)
        elif via == "crlb_gradient":
            thunk = lambda: seq.crlb(v1, gradient=v2)(**allv)
        elif via == "simulate_order2":
            thunk = lambda: seq.simulate(allv, order2=pairs)
            o1 = []
        else:
            thunk = lambda: seq.build(allv, order2=pairs)
            o1 = []
        term = "seq_build_ok %s %s %s %s" % (stl(SEQ_VARS), stl(o1), core.clist([pair(st(x), st(y)) for x, y in pairs]),
                                              stl(SEQ_VARS))
        return thunk, term
    values = {k: vals[k] for k in spec["given"]}
    seq = sq.Sequence(ops)
    o1, o2 = spec["o1"], spec["o2"]
    if o2:
        thunk = lambda: seq.hessian(o1, o2)(**values) if values else seq.hessian(o1, o2)()
        pairs = sorted({tuple(sorted((x, y))) for x in o1 for y in o2})   # Sequence.hessian (after fix f14f799)
    elif o1:
        thunk = lambda: seq.jacobian(o1)(**values) if values else seq.jacobian(o1)()
        pairs = []
    else:
        thunk = lambda: seq(**values) if values else seq()()
        pairs = []
    term = "seq_build_ok %s %s %s %s" % (stl(["a", "T1", "T2"]), stl(o1),
                                          core.clist([pair(st(x), st(y)) for x, y in pairs]), stl(spec["given"]))
    return thunk, term


# ================================================================== 14. RF pulses
def gen_pulse(rng, n):
    out = []
    for i in range(n):
        nv = rng.randint(1, 8)
        vals = [complex(dy(rng, -1, 1, 8), 0) if rng.random() < 0.5 else
                complex(dy(rng, -1, 1, 8) / 2, dy(rng, -1, 1, 8) / 2) for _ in range(nv)]
        kind = rng.choice(["above", "above", "above", "unit", "valid", "ndim", "norf", "durlen", "durneg", "zero",
                           "alpha_only", "alpha_only"])
        call = rng.choice(["RFPulse", "RFPulse", "rfpulse", "make_pulse_sequence"])
        spec = {"call": call, "ndim": 1, "rf": 0.25, "alpha": None, "dur": 2.0, "form": rng.choice(FORMS)}
        exp, variant = "valid", "samples_within_unit_disc"
        if kind == "above":
            pos = rng.randrange(nv)
            eps = rng.choice([2.0 ** -20, 0.25, 1.0, 100.0])
            vals[pos] = rng.choice([complex(1 + eps, 0), complex(-1 - eps, 0), complex(0, 1 + eps), complex(0, -1 - eps),
                                    complex(0.75, 0.75), complex(1, eps)])
            exp, variant = "invalid", "sample_above_1_pos%d_of_%d" % (pos, nv)
            if rng.random() < 0.3 and call != "make_pulse_sequence":
                spec["rf"], spec["alpha"] = 0.25, 30.0
        elif kind == "alpha_only":
            # constant phase (rf follows from alpha without an optimiser), rf not given
            vals = [complex(abs(v.real) + 0.125 if abs(v.real) < 0.875 else 1.0, 0) for v in vals]
            if call == "make_pulse_sequence":
                call = spec["call"] = rng.choice(["RFPulse", "rfpulse"])
            spec["rf"] = None
            spec["alpha"] = rng.choice([0, 0.0, 0, 0.0, 2.0 ** -40, 30.0, 90.0, 180.0])
            variant = "alpha_only_%s" % ("zero" if spec["alpha"] == 0 else "nonzero")
        elif kind == "unit":
            vals[rng.randrange(nv)] = rng.choice([1, -1, 1j, -1j])
            variant = "sample_of_modulus_exactly_1"
        elif kind == "zero":
            vals = [0j] * nv
            spec["rf"] = rng.choice([0.0, 0.25])
            variant = "all_zero_samples_zero_flip_angle"
        elif kind == "ndim":
            spec["ndim"] = 2
            vals = vals + vals
            exp, variant = "model", "two_dimensional_values"
        elif kind == "norf":
            if call == "make_pulse_sequence":
                call = spec["call"] = "RFPulse"
            spec["rf"] = None
            exp, variant = "model", "neither_rf_nor_alpha"
        elif kind == "durlen":
            m = nv + rng.choice([-1, 1, 2]) if rng.random() < 0.7 else nv
            m = max(m, 1)
            spec["dur"] = [0.5] * m
            if call == "RFPulse":
                call = spec["call"] = "rfpulse"     # RFPulse passes duration on to MultiOperator as well
            exp, variant = ("model", "duration_list_wrong_length") if m != nv else ("valid", "duration_list")
        elif kind == "durneg":
            spec["dur"] = rng.choice([-1.0, -2.0 ** -20, 0.0])
            exp, variant = ("invalid", "negative_duration") if spec["dur"] < 0 else ("valid", "zero_duration")
        spec["values"] = [[v.real, v.imag] for v in vals]
        out.append(case("pulse", variant, spec, exp))
    return out


def build_pulse(spec, QK):
    import epgpy as epg
    from epgpy import rfpulse
    vals = [complex(a, b) for a, b in spec["values"]]
    if spec["ndim"] == 2:
        vals = np.array(vals).reshape(2, -1)
    elif spec["form"] == "np":
        vals = np.array(vals)
    dur = spec["dur"]
    kw = {}
    if spec["rf"] is not None:
        kw["rf"] = spec["rf"]
    if spec["alpha"] is not None:
        kw["alpha"] = spec["alpha"]
    call = spec["call"]
    if call == "RFPulse":
        thunk = lambda: rfpulse.RFPulse(vals, dur, **kw)
    elif call == "rfpulse":
        thunk = lambda: rfpulse.rfpulse(vals, dur, **kw)
    else:
        thunk = lambda: rfpulse.make_pulse_sequence(epg.T, vals, dur, spec["rf"])
    d = "(PList %s)" % ql(dur) if isinstance(dur, list) else "(PScalar %s)" % q(dur)
    rf_given = spec["rf"] if (spec["rf"] is not None or call != "make_pulse_sequence") else 0.0
    term = "pulse_ok %s %s %s %s %s" % (opt(rf_given, q), opt(spec["alpha"], q), nat(spec["ndim"]),
                                        cl(spec["values"]), d)
    return thunk, term


# ================================================================== boundary-valid values named by the property
BOUNDARY = {
    "zero_flip_angle_T": (lambda epg, sm: epg.T(0, 0)(sm), "prepare_ok true [1%nat] [1%nat]"),
    "zero_flip_angle_T_array": (lambda epg, sm: epg.T([0.0, 0.0, 30.0], [0, 90, 0])(sm), "prepare_ok true [1%nat] [3%nat]"),
    "zero_flip_angle_order1": (lambda epg, sm: epg.T(0, 0, order1=True, order2=True)(sm),
                               'parse_partials_ok ["alpha"%string; "phi"%string] [] O1True O2False'),
    "zero_phase_Phi": (lambda epg, sm: epg.Phi(0)(sm), "duration_ok (Some [0%Q])"),
    "tau_zero_E": (lambda epg, sm: epg.E(0, 100, 10)(sm), "timed_op_ok DNone [0%Q]"),
    "tau_zero_E_duration_true": (lambda epg, sm: epg.E(0, 100, 10, duration=True)(sm), "timed_op_ok DTrue [0%Q]"),
    "tau_zero_E_array": (lambda epg, sm: epg.E([0.0, 0.0], 100, [10, 20], duration=True)(sm), "timed_op_ok DTrue [0%Q; 0%Q]"),
    "tau_zero_E_order1": (lambda epg, sm: epg.E(0, 100, 10, order1=True, order2=True)(sm), "timed_op_ok DNone [0%Q]"),
    "tau_zero_P": (lambda epg, sm: epg.P(0, 0.5, duration=True)(sm), "timed_op_ok DTrue [0%Q]"),
    "tau_zero_D": (lambda epg, sm: epg.D(0, 1.0, duration=True)(epg.S(1)(sm)), "timed_op_ok DTrue [0%Q]"),
    "tau_zero_X_scalar_rate": (lambda epg, sm: epg.X(0, 0.125, duration=True)(sm),
                               "X_ok 0%Q (KhiScalar (1 # 8)%Q) DTrue"),
    "zero_rate_X": (lambda epg, sm: epg.X(1.0, 0.0)(sm), "X_ok 1%Q (KhiScalar 0%Q) DNone"),
    "zero_duration_Wait": (lambda epg, sm: epg.Wait(0)(sm), "wait_ok [0%Q]"),
    "zero_relaxation_R": (lambda epg, sm: epg.R(0, 0)(sm), "duration_ok None"),
    "zero_density_PD": (lambda epg, sm: epg.PD(0.0)(sm), "duration_ok None"),
    "simulate_all_zero": (lambda epg, sm: epg.simulate([epg.T(0, 0, duration=0), epg.E(0, 100, 10, duration=True),
                                                         epg.Wait(0), epg.ADC]),
                          "simulate_ok 8 [IOp [1%nat]; IOp [1%nat]; IOp [1%nat]; IProbe]"),
    "shift_exactly_4_components": (lambda epg, sm: epg.S([1, 1, 1, 1])(sm),
                                   "S_ok (KArr false [4%nat] [1%Q;1%Q;1%Q;1%Q]) None"),
    "gradient_exactly_3_components": (lambda epg, sm: epg.G(1.0, [1.0, 1.0, 1.0], kgrid=1.0)(sm),
                                      "G_ok 1%Q [] [1%Q] [3%nat] [1%Q;1%Q;1%Q] DNone"),
}


def gen_boundary(rng, n):
    return [case("boundary", name, {"name": name}, "valid") for name in BOUNDARY]


def build_boundary(spec, QK):
    import epgpy as epg
    f, term = BOUNDARY[spec["name"]]
    sm = epg.T(90, 0)(epg.StateMatrix())
    return (lambda: f(epg, sm)), term


# ================================================================== falsy-but-valid argument values
# Every validated / numeric argument of the modelled constructors and functions is given each form of
# "zero" (python 0, 0.0, -0.0, numpy scalars, 0-d array, and where arrays are allowed 1-element array / list);
# flags and optional collections get False / None / empty.  All of them are valid calls: the implementation
# must not raise (a guard written with truthiness instead of `is None` / `< 0` rejects exactly these).
ZERO_FORMS = {
    "py_int": lambda: 0, "py_float": lambda: 0.0, "neg_zero": lambda: -0.0,
    "np_float": lambda: np.float64(0.0), "np_int": lambda: np.int64(0), "array_0d": lambda: np.array(0.0),
    "array_1": lambda: np.zeros(1), "list_1": lambda: [0.0],
}
SCALAR_FORMS = ["py_int", "py_float", "neg_zero", "np_float", "np_int", "array_0d"]
ARRAY_FORMS = ["array_1", "list_1"]
PULSE = [0.25, 0.5 + 0.5j, 1.0, 0.5]
PULSE_REAL = [0.25, 0.5, 1.0, 0.5]     # constant phase: rf is computed from alpha without scipy


def _mod(name):
    import importlib
    return importlib.import_module("epgpy." + name)


def _sm(epg):
    return epg.T(90, 0)(epg.StateMatrix())


def _sm1(epg):
    return epg.S(1)(_sm(epg))


def _seq(sq):
    a, T1, T2, tau = sq.Variable("a"), sq.Variable("T1"), sq.Variable("T2"), sq.Variable("tau")
    return sq.Sequence([sq.T(a, 90), sq.E(tau, T1, T2), sq.ADC])


# name: (callable(epg, z), model term, allowed extra forms)
FALSY = {
    "T_alpha": (lambda epg, z: epg.T(z, 30)(_sm(epg)), "prepare_ok true [1%nat] [1%nat]", ARRAY_FORMS),
    "T_phi": (lambda epg, z: epg.T(30, z)(_sm(epg)), "prepare_ok true [1%nat] [1%nat]", ARRAY_FORMS),
    "T_alpha_and_phi": (lambda epg, z: epg.T(z, z)(_sm(epg)), "prepare_ok true [1%nat] [1%nat]", ARRAY_FORMS),
    "T_alpha_order1": (lambda epg, z: epg.T(z, z, order1=True, order2=True)(_sm(epg)),
                       'parse_partials_ok ["alpha"%string; "phi"%string] [] O1True O2False', []),
    "T_duration": (lambda epg, z: epg.T(30, 0, duration=z), "duration_ok (Some [0%Q])", ARRAY_FORMS),
    "Phi_phi": (lambda epg, z: epg.Phi(z)(_sm(epg)), "prepare_ok true [1%nat] [1%nat]", ARRAY_FORMS),
    "Phi_duration": (lambda epg, z: epg.Phi(30, duration=z), "duration_ok (Some [0%Q])", ARRAY_FORMS),
    "E_tau": (lambda epg, z: epg.E(z, 100, 10)(_sm(epg)), "timed_op_ok DNone [0%Q]", ARRAY_FORMS),
    "E_tau_duration_true": (lambda epg, z: epg.E(z, 100, 10, duration=True)(_sm(epg)), "timed_op_ok DTrue [0%Q]", ARRAY_FORMS),
    "E_tau_order1": (lambda epg, z: epg.E(z, 100, 10, order1=True, order2=True)(_sm(epg)), "timed_op_ok DNone [0%Q]", []),
    "E_g": (lambda epg, z: epg.E(5, 100, 10, z)(_sm(epg)), "timed_op_ok DNone [5%Q]", ARRAY_FORMS),
    "E_duration": (lambda epg, z: epg.E(5, 100, 10, duration=z), "timed_op_ok (DVal [0%Q]) [5%Q]", ARRAY_FORMS),
    "P_tau": (lambda epg, z: epg.P(z, 0.5, duration=True)(_sm(epg)), "timed_op_ok DTrue [0%Q]", ARRAY_FORMS),
    "P_g": (lambda epg, z: epg.P(5, z)(_sm(epg)), "timed_op_ok DNone [5%Q]", ARRAY_FORMS),
    "R_rT": (lambda epg, z: epg.R(z, 0.125)(_sm(epg)), "duration_ok None", ARRAY_FORMS),
    "R_rL": (lambda epg, z: epg.R(0.125, z)(_sm(epg)), "duration_ok None", ARRAY_FORMS),
    "R_r0": (lambda epg, z: epg.R(0.125, 0.125, r0=z)(_sm(epg)), "duration_ok None", ARRAY_FORMS),
    "S_duration": (lambda epg, z: epg.S(1, duration=z)(_sm(epg)), "S_ok (KInt 1%Z) (Some [0%Q])", ARRAY_FORMS),
    "S_prune": (lambda epg, z: epg.S(np.array([[1, 0]]), prune=z)(_sm(epg)),
                "S_ok (KArr false [1%nat; 2%nat] [1%Q; 0%Q]) None", []),
    "S_zero_component": (lambda epg, z: epg.S([1, int(np.ravel(z)[0]), 0])(_sm(epg)),
                         "S_ok (KArr false [3%nat] [1%Q; 0%Q; 0%Q]) None", []),
    "G_zero_component": (lambda epg, z: epg.G(1.0, [1.0, float(z), 0.0], duration=z),
                         "G_ok 1%Q [] [1%Q] [3%nat] [1%Q; 0%Q; 0%Q] (DVal [0%Q])", []),
    "C_duration": (lambda epg, z: epg.C(1.0, duration=z), "C_ok [] [1%Q] (DVal [0%Q])", []),
    "D_tau": (lambda epg, z: epg.D(z, 1.0, duration=True)(_sm1(epg)), "timed_op_ok DTrue [0%Q]", ARRAY_FORMS),
    "D_coefficient": (lambda epg, z: epg.D(5.0, z)(_sm1(epg)), "D_shape_ok [] [] None", []),
    "D_duration": (lambda epg, z: epg.D(5.0, 1.0, duration=z)(_sm1(epg)), "timed_op_ok (DVal [0%Q]) [5%Q]", ARRAY_FORMS),
    "X_tau": (lambda epg, z: epg.X(z, 0.125, duration=True)(_sm(epg)), "X_ok 0%Q (KhiScalar (1 # 8)%Q) DTrue", []),
    "X_rate": (lambda epg, z: epg.X(1.0, z)(_sm(epg)), "X_ok 1%Q (KhiScalar 0%Q) DNone", []),
    "X_g": (lambda epg, z: epg.X(1.0, 0.125, g=z)(_sm(epg)), "X_ok 1%Q (KhiScalar (1 # 8)%Q) DNone", []),
    "X_duration": (lambda epg, z: epg.X(1.0, 0.125, duration=z), "X_ok 1%Q (KhiScalar (1 # 8)%Q) (DVal [0%Q])", []),
    "X_zero_matrix": (lambda epg, z: epg.X(1.0, [[z, z], [z, z]] if np.ndim(z) == 0 else np.zeros((2, 2)))(_sm(epg)),
                      "X_ok 1%Q (KhiArr [2%nat; 2%nat] [0%Q; 0%Q; 0%Q; 0%Q]) DNone", []),
    "PD_density": (lambda epg, z: epg.PD(z)(_sm(epg)), "duration_ok None", ARRAY_FORMS),
    "PD_duration": (lambda epg, z: epg.PD(1.0, duration=z), "duration_ok (Some [0%Q])", ARRAY_FORMS),
    "Wait_duration": (lambda epg, z: epg.Wait(z)(_sm(epg)), "wait_ok [0%Q]", ["array_1"]),
    "Offset_duration": (lambda epg, z: epg.Offset(z)(_sm(epg)), "offset_ok [0%Q]", ["array_1"]),
    "MultiOperator_duration": (lambda epg, z: epg.MultiOperator([epg.T(30, 0), epg.Wait(1)], duration=z)(_sm(epg)),
                               "duration_ok (Some [0%Q])", ARRAY_FORMS),
    "ScalarOp_zero_coefficients": (lambda epg, z: _mod("opscalar").ScalarOp([complex(np.ravel(z)[0])] * 3)(_sm(epg)),
                                   "scalar_coef_ok ([3%nat], [qr 0 1; qr 0 1; qr 0 1]) None", []),
    "ScalarOp_zero_arr0": (lambda epg, z: _mod("opscalar").ScalarOp([1, 1, 1], [complex(np.ravel(z)[0])] * 3)(_sm(epg)),
                           "scalar_coef_ok ([3%nat], [qr 1 1; qr 1 1; qr 1 1]) (Some ([3%nat], [qr 0 1; qr 0 1; qr 0 1]))", []),
    "MatrixOp_zero_matrix": (lambda epg, z: _mod("opmatrix").MatrixOp(np.zeros((3, 3)) * np.ravel(z)[0])(_sm(epg)),
                             "matrix_coef_ok ([3%nat; 3%nat], " + core.clist(["qr 0 1"] * 9) + ") None", []),
    "StateMatrix_zero_init": (lambda epg, z: epg.StateMatrix([float(np.ravel(z)[0])] * 3),
                              "states_ok [3%nat] [qr 0 1; qr 0 1; qr 0 1]", []),
    "StateMatrix_zero_density": (lambda epg, z: epg.T(30, 0)(epg.StateMatrix(density=z)), "prepare_ok true [1%nat] [1%nat]", ARRAY_FORMS),
    "StateMatrix_zero_equilibrium": (lambda epg, z: epg.StateMatrix([0, 0, 1], equilibrium=[float(np.ravel(z)[0])] * 3),
                                     "states_ok [3%nat] [qr 0 1; qr 0 1; qr 0 1]", []),
    "StateMatrix_nstate": (lambda epg, z: epg.S(1)(epg.StateMatrix(nstate=int(z), max_nstate=int(z))), "prepare_ok true [1%nat] [1%nat]", []),
    "simulate_zero_init": (lambda epg, z: epg.simulate([epg.T(30, 0), epg.S(1), epg.ADC], init=[float(np.ravel(z)[0])] * 3),
                           "states_ok [3%nat] [qr 0 1; qr 0 1; qr 0 1] >> simulate_ok 8 [IOp [1%nat]; IOp [1%nat]; IProbe]", []),
    "simulate_max_nstate": (lambda epg, z: epg.simulate([epg.T(30, 0), epg.S(1), epg.ADC], max_nstate=int(z)),
                            "simulate_ok 8 [IOp [1%nat]; IOp [1%nat]; IProbe]", []),
    "Adc_phase": (lambda epg, z: epg.simulate([epg.T(30, 0), epg.Adc(phase=z)]), "simulate_ok 8 [IOp [1%nat]; IProbe]", ARRAY_FORMS),
    "Sequence_value_flip_angle": (lambda epg, z: _seq(_mod("sequence"))(a=z, tau=5.0, T1=100.0, T2=10.0),
                                  'seq_values_ok ["a"%string] ["a"%string]', ARRAY_FORMS),
    "Sequence_value_tau": (lambda epg, z: _seq(_mod("sequence"))(a=30.0, tau=z, T1=100.0, T2=10.0),
                           'seq_values_ok ["tau"%string] ["tau"%string]', ARRAY_FORMS),
    "Sequence_all_values_zero_but_T": (lambda epg, z: _seq(_mod("sequence"))(a=z, tau=z, T1=100.0, T2=10.0),
                                       'seq_values_ok ["a"%string; "tau"%string] ["a"%string; "tau"%string]', []),
    "Sequence_jacobian_at_zero": (lambda epg, z: _seq(_mod("sequence")).jacobian(["a", "tau"])(a=z, tau=z, T1=100.0, T2=10.0),
                                  'seq_build_ok ["a"%string; "tau"%string] ["a"%string; "tau"%string] [] ["a"%string; "tau"%string]', []),
    "Sequence_valuesdict": (lambda epg, z: _seq(_mod("sequence")).signal()({"a": z, "tau": z, "T1": 100.0, "T2": 10.0}),
                            'seq_values_ok ["a"%string] ["a"%string]', []),
    "rfpulse_alpha": (lambda epg, z: _mod("rfpulse").rfpulse(PULSE_REAL, 2.0, alpha=z), "pulse_ok None (Some 0%Q) 1 [] (PScalar 2%Q)", []),
    "RFPulse_alpha": (lambda epg, z: _mod("rfpulse").RFPulse(PULSE_REAL, 2.0, alpha=z)(_sm(epg)), "pulse_ok None (Some 0%Q) 1 [] (PScalar 2%Q)", []),
    "RFPulse_alpha_with_relaxation": (lambda epg, z: _mod("rfpulse").RFPulse(PULSE_REAL, 2.0, alpha=z, T1=100.0, T2=10.0, g=z)(_sm(epg)),
                                      "pulse_ok None (Some 0%Q) 1 [] (PScalar 2%Q)", []),
    "simulate_RFPulse_alpha": (lambda epg, z: epg.simulate([epg.T(90, 90), _mod("rfpulse").RFPulse(PULSE_REAL, 2.0, alpha=z), epg.ADC]),
                               "pulse_ok None (Some 0%Q) 1 [] (PScalar 2%Q) >> simulate_ok 8 [IOp [1%nat]; IOp [1%nat]; IProbe]", []),
    "RFPulse_rf": (lambda epg, z: _mod("rfpulse").RFPulse(PULSE, 2.0, rf=z)(_sm(epg)), "pulse_ok (Some 0%Q) None 1 [] (PScalar 2%Q)", []),
    "RFPulse_rf_and_alpha": (lambda epg, z: _mod("rfpulse").RFPulse(PULSE, 2.0, rf=z, alpha=z)(_sm(epg)),
                             "pulse_ok (Some 0%Q) (Some 0%Q) 1 [] (PScalar 2%Q)", []),
    "RFPulse_phi": (lambda epg, z: _mod("rfpulse").RFPulse(PULSE, 2.0, rf=0.25, phi=z)(_sm(epg)),
                    "pulse_ok (Some (1 # 4)%Q) None 1 [] (PScalar 2%Q)", []),
    "RFPulse_duration": (lambda epg, z: _mod("rfpulse").RFPulse(PULSE, z, rf=0.25)(_sm(epg)),
                         "pulse_ok (Some (1 # 4)%Q) None 1 [] (PScalar 0%Q)", []),
    "RFPulse_g": (lambda epg, z: _mod("rfpulse").RFPulse(PULSE, 2.0, rf=0.25, T1=100.0, T2=10.0, g=z)(_sm(epg)),
                  "pulse_ok (Some (1 # 4)%Q) None 1 [] (PScalar 2%Q)", []),
    "RFPulse_g_only": (lambda epg, z: _mod("rfpulse").RFPulse(PULSE, 2.0, rf=0.25, g=z)(_sm(epg)),
                       "pulse_ok (Some (1 # 4)%Q) None 1 [] (PScalar 2%Q)", []),
    "RFPulse_zero_samples": (lambda epg, z: _mod("rfpulse").RFPulse([complex(np.ravel(z)[0])] * 4, 2.0, rf=0.25)(_sm(epg)),
                             "pulse_ok (Some (1 # 4)%Q) None 1 [qr 0 1; qr 0 1] (PScalar 2%Q)", []),
    "modify_g": (lambda epg, z: epg.modify([epg.T(30, 0, duration=1.0), epg.ADC], T1=100.0, T2=10.0, g=z),
                 "modify_ok 8 [IOp [1%nat]; IProbe] true", ARRAY_FORMS),
    "modify_g_only": (lambda epg, z: epg.modify([epg.T(30, 0, duration=1.0), epg.ADC], g=z),
                      "modify_ok 8 [IOp [1%nat]; IProbe] true", ARRAY_FORMS),
    "modify_att": (lambda epg, z: epg.modify([epg.T(30, 0, duration=1.0), epg.ADC], att=z, T1=100.0),
                   "modify_ok 8 [IOp [1%nat]; IProbe] true", ARRAY_FORMS),
    "modify_zero_duration_op": (lambda epg, z: epg.modify([epg.T(30, 0, duration=z), epg.ADC], T1=100.0, T2=10.0),
                                "modify_ok 8 [IOp [1%nat]; IProbe] true", []),
}

# flags, None and empty-but-allowed collections (no zero form to sweep)
EMPTY = {
    "MultiOperator_empty_list": (lambda epg: epg.MultiOperator([])(_sm(epg)), "multioperator_ok []"),
    "MultiOperator_none": (lambda epg: epg.MultiOperator(None)(_sm(epg)), "multioperator_ok []"),
    "MultiOperator_empty_tuple": (lambda epg: epg.MultiOperator(())(_sm(epg)), "multioperator_ok []"),
    "order1_false_order2_false": (lambda epg: epg.T(30, 0, order1=False, order2=False)(_sm(epg)),
                                  'parse_partials_ok ["alpha"%string; "phi"%string] [] O1False O2False'),
    "order1_none": (lambda epg: epg.T(30, 0, order1=None, order2=False)(_sm(epg)),
                                'parse_partials_ok ["alpha"%string; "phi"%string] [] O1False O2False'),
    "order1_empty_list": (lambda epg: epg.T(30, 0, order1=[], order2=[])(_sm(epg)),
                          'parse_partials_ok ["alpha"%string; "phi"%string] [] (O1List []) (O2StrList [])'),
    "order1_empty_dict": (lambda epg: epg.E(5, 100, 10, order1={}, order2={})(_sm(epg)),
                          'parse_partials_ok ["tau"%string] [] (O1Alias []) (O2Dict [])'),
    "PD_reset_false": (lambda epg: epg.PD(0.0, reset=False)(_sm(epg)), "duration_ok None"),
    "S_nmax_none_kgrid_none": (lambda epg: epg.S(1, nmax=None, kgrid=None, prune=False)(_sm(epg)), "S_ok (KInt 1%Z) None"),
    "simulate_flags_false": (lambda epg: epg.simulate([epg.T(30, 0), epg.ADC], adc_time=False, squeeze=False, probe=None,
                                                      callback=None, asarray=False, disp=False),
                             "simulate_ok 8 [IOp [1%nat]; IProbe]"),
    "simulate_empty_probe_list": (lambda epg: epg.simulate([epg.T(30, 0), epg.ADC], probe=[]), "simulate_ok 8 [IOp [1%nat]; IProbe]"),
    "simulate_nested_empty_list": (lambda epg: epg.simulate([epg.T(30, 0), [], epg.ADC]), "simulate_ok 8 [IOp [1%nat]; IList []; IProbe]"),
    "modify_no_parameters": (lambda epg: epg.modify([epg.T(30, 0, duration=1.0), epg.ADC]), "modify_ok 8 [IOp [1%nat]; IProbe] true"),
    "modify_modifier_none": (lambda epg: epg.modify([epg.T(30, 0, duration=1.0), epg.ADC], None, T1=100.0),
                             "modify_ok 8 [IOp [1%nat]; IProbe] true"),
    "Sequence_empty": (lambda epg: _mod("sequence").Sequence([]), "seq_check_ok []"),
    "Sequence_empty_options": (lambda epg: _seq(_mod("sequence")).signal(options={})(a=30.0, tau=5.0, T1=100.0, T2=10.0),
                               'seq_values_ok ["a"%string] ["a"%string]'),
    "Sequence_jacobian_empty_valuesdict": (lambda epg: _seq(_mod("sequence")).jacobian(["a"])({}, a=0.0, tau=0.0, T1=100.0, T2=10.0),
                                           'seq_build_ok ["a"%string] ["a"%string] [] ["a"%string]'),
    "Adc_reduce_false": (lambda epg: epg.simulate([epg.T(30, 0), epg.Adc(reduce=False)]), "simulate_ok 8 [IOp [1%nat]; IProbe]"),
    "RFPulse_T_none": (lambda epg: _mod("rfpulse").RFPulse(PULSE, 2.0, rf=0.25, T1=None, T2=None, g=None, phi=None)(_sm(epg)),
                       "pulse_ok (Some (1 # 4)%Q) None 1 [] (PScalar 2%Q)"),
}


def gen_falsy(rng, n):
    out = []
    for name, (_, _, extra) in FALSY.items():
        for form in SCALAR_FORMS + list(extra):
            out.append(case("falsy_valid", "%s=%s" % (name, form), {"name": name, "form": form}, "valid"))
    for name in EMPTY:
        out.append(case("falsy_valid", name, {"name": name, "form": None}, "valid"))
    return out


def build_falsy(spec, QK):
    import epgpy as epg
    if spec["form"] is None:
        f, term = EMPTY[spec["name"]]
        return (lambda: f(epg)), term
    f, term, _ = FALSY[spec["name"]]
    z = ZERO_FORMS[spec["form"]]()
    return (lambda: f(epg, z)), term


# ================================================================== operator objects reused across state matrices
# Guards that run at application time must run at EVERY application: the same operator object is
# applied to a series of state matrices (directly, or through repeated simulate() calls) and the
# last application is observed; what happened before (accepted or refused) must not matter.
def conserves(K, dens):
    """independent decision: exact rational khi @ density == 0"""
    n = len(K)
    d = dens if len(dens) == n else list(dens) * n
    return all(sum(core.frac(K[i][j]) * core.frac(d[j]) for j in range(n)) == 0 for i in range(n))


def gen_reuse(rng, n):
    out = []
    for i in range(n):
        kind = rng.choice(["kinetic", "kinetic", "kinetic", "prepare", "grid", "diffusion"])
        via = rng.choice(["call", "call", "simulate", "inplace"])
        if kind == "kinetic":
            nc = rng.choice([2, 2, 3])
            K, good = asymmetric_kinetic(rng, nc)

            def bad_density():
                while True:
                    d = [g * rng.choice([1.0, 2.0, 0.5, 1.0 + 2.0 ** -10]) for g in good]
                    if not conserves(K, d):
                        return d
            scale = lambda: [g * rng.choice([1.0, 2.0, 0.25]) for g in [good[0]]][0] / good[0]
            pattern = rng.choice(["good_bad", "good_bad", "good_good_bad", "bad_good", "bad_good_bad", "good_good",
                                  "bad_bad", "good_bad_good"])
            steps = []
            for w in pattern.split("_"):
                if w == "good":
                    f = scale()
                    steps.append([g * f for g in good])
                else:
                    steps.append(bad_density())
            ok = conserves(K, steps[-1])
            assert ok == pattern.endswith("good")
            out.append(case("reuse", "kinetic_%s_via_%s_n%d" % (pattern, via, nc),
                            {"kind": "kinetic", "via": via, "n": nc, "data": [x for r in K for x in r], "steps": steps,
                             "tau": rng.choice([0.5, 2.0])}, "valid" if ok else "invalid"))
        elif kind == "prepare":
            n1 = rng.choice([2, 3])
            shapes = {"good": [n1], "one": [1], "bad": [n1 + rng.choice([1, 2])], "good_nd": [n1, 2]}
            pattern = rng.choice([["good", "bad"], ["one", "good", "bad"], ["bad", "good"], ["good_nd", "bad"],
                                  ["bad", "good_nd"], ["good", "one"]])
            steps = [shapes[w] for w in pattern]
            ok = pattern[-1] != "bad"
            out.append(case("reuse", "prepare_%s_via_%s" % ("_".join(pattern), via),
                            {"kind": "prepare", "via": via, "op_shape": [n1], "steps": steps}, "valid" if ok else "invalid"))
        elif kind == "grid":
            pattern = rng.choice([["grid", "nogrid"], ["nogrid", "grid"], ["grid", "grid", "nogrid"], ["nogrid", "nogrid", "grid"]])
            ok = pattern[-1] == "grid"
            out.append(case("reuse", "float_shift_%s_via_%s" % ("_".join(pattern), via),
                            {"kind": "grid", "via": via, "steps": pattern, "k": rng.choice([0.5, 1.5, -2.5])},
                            "valid" if ok else "invalid"))
        else:
            m = rng.choice([2, 3])
            pattern = rng.choice([[m, 1], [1, m], [m, m], [3, 2] if m == 2 else [2, 3], [m, 4 if m == 3 else 3]])
            # state coordinates with s components; a tensor of lower dimension than min(s,3) is refused
            steps = pattern
            ok = min(max(steps[-1], m), 3) == m
            out.append(case("reuse", "diffusion_tensor_%d_on_states_%s_via_%s" % (m, "_".join(map(str, steps)), via),
                            {"kind": "diffusion", "via": via, "m": m, "steps": steps}, "valid" if ok else "invalid"))
    return out


def build_reuse(spec, QK):
    import epgpy as epg
    kind, via, steps = spec["kind"], spec["via"], spec["steps"]
    if kind == "kinetic":
        n = spec["n"]
        op = epg.X(spec["tau"], np.array(spec["data"]).reshape(n, n))
        sms = [lambda d=d: epg.StateMatrix(density=d) for d in steps]
        term = "nth %d (X_reuse_ok %s %s %s) Accept" % (len(steps) - 1, nat(n), ql(spec["data"]),
                                                       core.clist([ql(d) for d in steps]))
    elif kind == "prepare":
        op = op_of_shape(spec["op_shape"])
        sms = [lambda sh=sh: epg.StateMatrix(shape=tuple(sh)) for sh in steps]
        term = "prepare_ok true %s %s" % (natl(steps[-1]), natl(spec["op_shape"]))
    elif kind == "grid":
        op = epg.S(spec["k"])
        sms = [lambda w=w: epg.T(90, 0)(epg.StateMatrix(**({"kgrid": 0.5} if w == "grid" else {}))) for w in steps]
        g = "(Some %s)" % q(0.5) if steps[-1] == "grid" else "None"
        term = "S_apply_ok (KArr true [] [%s]) CNone %s None" % (q(spec["k"]), g)
    else:
        m = spec["m"]
        op = epg.D(5.0, np.eye(m))
        sms = [lambda sdim=sdim: epg.S(np.array([[1] * sdim]))(epg.T(90, 0)(epg.StateMatrix())) for sdim in steps]
        term = "D_apply_ok (Some %s) None %s" % (nat(m), nat(steps[-1]))

    def apply(sm):
        if via == "simulate":
            return epg.simulate([op, epg.ADC], init=sm)
        if via == "inplace":
            return op(sm, inplace=True)
        return op(sm)

    def thunk():
        for mk_sm in sms[:-1]:
            try:
                apply(mk_sm())
            except Exception:
                pass            # earlier applications may be refused or accepted: only the last one is observed
        return apply(sms[-1]())
    return thunk, term


# ================================================================== registry
CLASSES = {
    "duration": (gen_duration, build_duration, 3),
    "time": (gen_time, build_time, 2),
    "zero_shift": (gen_shift, build_shift, 3),
    "kdim": (None, build_shift, 0),          # generated together with zero_shift
    "float_nogrid": (gen_grid, build_grid, 2),
    "states": (gen_states, build_states, 3),
    "scalar_coef": (lambda r, n: gen_coef(r, n, "scalar"), build_coef("scalar"), 2),
    "matrix_coef": (lambda r, n: gen_coef(r, n, "matrix"), build_coef("matrix"), 2),
    "broadcast": (gen_broadcast, build_broadcast, 3),
    "kinetic": (gen_kinetic, build_kinetic, 3),
    "diffusion_dims": (gen_diffusion, build_diffusion, 2),
    "partials": (gen_partials, build_partials, 3),
    "sequence": (gen_sequence, build_sequence, 3),
    "pulse": (gen_pulse, build_pulse, 2),
    "boundary": (gen_boundary, build_boundary, 0),
    "falsy_valid": (gen_falsy, build_falsy, 0),
    "reuse": (gen_reuse, build_reuse, 3),
}


def signature(cs):
    import re
    return {"class": cs["class"], "variant": re.sub(r"\d+", "N", cs["variant"])}


def run(ctx):
    proved = ctx.prove(gen=False)
    QK = ""      # no finding switch is left in the model
    scale = 50 if ctx.tier == "quick" else 400
    cases = []
    for name, (gen, _, w) in CLASSES.items():
        if gen is not None:
            cases += gen(ctx.rng, w * scale)
    terms, kept = [], []
    dist = {"class": {}, "variant": {}, "expect": {}, "outcome": {}, "exception": {}, "form": {}}

    def bump(k, v):
        dist[k][v] = dist[k].get(v, 0) + 1
    for cs in cases:
        try:
            thunk, term = CLASSES[cs["class"]][1](cs["spec"], QK)
        except Exception as e:
            ctx.report("could not set up the call for a generated case: %s: %s" % (type(e).__name__, e),
                       {"case": cs, "theorem_or_correspondence": "C20 harness set-up"}, found_input=False,
                       signature={"setup": signature(cs)})
            continue
        exc = observe(thunk)
        cs["observed"] = exc or "accepted"
        terms.append("verdict_eqb (%s) %s" % (term, verdict(exc)))
        kept.append((cs, term))
        ctx.count((cs["class"], cs["variant"], cs["spec"]), nontrivial=True)
        bump("class", cs["class"]); bump("variant", cs["class"] + "/" + signature(cs)["variant"])
        bump("expect", cs["expect"]); bump("outcome", cs["expect"] + ("->raised" if exc else "->accepted"))
        bump("exception", exc or "none"); bump("form", str(cs["spec"].get("form", "-")))
        if cs["expect"] == "invalid" and exc is None:
            cs["reported"] = True
            ctx.report("invalid input accepted (%s / %s)" % (cs["class"], cs["variant"]), {"case": cs},
                       found_input=True, signature=signature(cs))
        elif cs["expect"] == "valid" and exc is not None:
            cs["reported"] = True
            ctx.report("boundary-valid input rejected with %s (%s / %s)" % (exc, cs["class"], cs["variant"]),
                       {"case": cs}, found_input=True, signature=signature(cs))
    for cl_ in ("invalid", "valid", "model"):
        ex = [k for k in kept if k[0]["expect"] == cl_][:2]
        for cs, term in ex:
            ctx.sample({"class": cs["class"], "variant": cs["variant"], "expect": cs["expect"],
                        "observed": cs["observed"], "model_term": term[:200]}, maxn=6)
    verdicts, errors = ctx.run_bool_cases("corr", HEADER, terms, chunk=40)
    for e in errors:
        ctx.report("correspondence shard failed to evaluate",
                   {"theorem_or_correspondence": "C20 correspondence (Cases)", "coq_output": e}, found_input=False)
    ndis = 0
    for (cs, term), v in zip(kept, verdicts):
        if v is False:
            ndis += 1
            if cs.get("reported"):
                continue       # already reported with its failing input (same case, same signature)
            ctx.report("guard model and implementation disagree on %s / %s (implementation: %s)" % (
                cs["class"], cs["variant"], cs["observed"]),
                {"case": cs, "model_term": term, "theorem_or_correspondence": "C20 correspondence Model/Validate.v vs epgpy"},
                found_input=False, signature={"corr": signature(cs)})
    dist["model_disagreements"] = ndis
    ctx.cov["distribution"] = dist
    ctx.cov["trusted_base"] += [
        "hand-written guard model Model/Validate.v tied to epgpy by the malformed-input correspondence (exception class compared)",
        "np.allclose modelled over the reals (binary64 rounding inside numpy not modelled; cases keep clear of the threshold)",
        "class membership ('invalid' / 'valid' / 'model') is assigned by the generators of props/c20.py"]
    if not proved:
        ctx.report("proof obligations of C20 no longer check: %s" % ctx.failed_obligations,
                   {"theorem_or_correspondence": ctx.failed_obligations}, found_input=False)


def replay(ctx, rp):
    cs = rp["case"]
    thunk, term = CLASSES[cs["class"]][1](cs["spec"], "")
    exc = observe(thunk)
    print("replay: class=%s variant=%s expect=%s -> %s" % (cs["class"], cs["variant"], cs["expect"], exc or "accepted"))
    print("model term: %s" % term)
    bad = (cs["expect"] == "invalid" and exc is None) or (cs["expect"] == "valid" and exc is not None)
    if cs["expect"] == "model":
        v, err = ctx.run_bool_cases("replay", HEADER, ["verdict_eqb (%s) %s" % (term, verdict(exc))])
        ctx.cleanup_cases()
        bad = v[0] is not True
    print("replay: VIOLATION reproduced" if bad else "replay: behaves as the property requires")
    return 1 if bad else 0
