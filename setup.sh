#!/bin/bash
# build the Coq library from files on disk (offline); Gen/*.v is regenerated from /repo
cd "$(dirname "$0")"
export PYTHONPATH=/repo:/verif PYTHONHASHSEED=0 PYTHONDONTWRITEBYTECODE=1
if [ -f translator/main.py ]; then /venv/bin/python -m translator.main || echo "translator failed (checks will report)"; fi
cd coq && coq_makefile -f _CoqProject -o Makefile && timeout 3000 make -j16
