#!/bin/bash
# build the Coq library from files on disk (offline); Gen/*.v is regenerated from /repo.
# Every check rebuilds its own target (Props/<id>.vo and dependencies) under a lock, so a failure
# in one property's files must not prevent the others from being built: make -k, exit 0.
cd "$(dirname "$0")"
export EPGPY_REPO=${EPGPY_REPO:-/repo}
export PYTHONPATH=$EPGPY_REPO:/verif PYTHONHASHSEED=0 PYTHONDONTWRITEBYTECODE=1
/venv/bin/python -m translator.main || echo "translator failed (the checks will report it)"
cd coq && coq_makefile -f _CoqProject -o Makefile || exit 1
timeout 3000 make -k -j16 > ../build_setup.log 2>&1 || echo "some files failed to build (see build_setup.log); the checks of the affected properties will report it"
tail -3 ../build_setup.log
exit 0
