#!/bin/bash
# usage: tools_benign.sh <patch.diff> [check ids...]   (default: all 20)
# applies a behaviour-preserving refactoring in a scratch worktree of /repo HEAD and runs the quick checks against it
# (EPGPY_REPO + private VERIF_SCRATCH); prints the checks that report a VIOLATION. Removes the worktree afterwards.
p=$1; shift
ids=${@:-C01 C02 C03 C04 C05 C06 C07 C08 C09 C10 C11 C12 C13 C14 C15 C16 C17 C18 C19 C20}
wt=/tmp/wt_benign_$$
git -C /repo worktree add -q $wt HEAD || exit 2
if ! git -C $wt apply $p; then echo "$p PATCH DOES NOT APPLY"; git -C /repo worktree remove --force $wt; exit 2; fi
t=$(cd $wt && PYTHONPATH=$wt /venv/bin/python -m pytest -q -p no:cacheprovider --timeout=900 --continue-on-collection-errors 2>&1 | tail -1)
bad=""
for id in $ids; do
  out=$(cd /verif && VERIF_SCRATCH=${wt}_scratch EPGPY_REPO=$wt ./check $id 2>&1 | grep -v "^KNOWN")
  n=$(echo "$out" | grep -c '^VIOLATION')
  if [ "$n" != "0" ]; then
    bad="$bad $id($n)"
    mkdir -p /tmp/benign_replays/$(basename $(dirname $p))_$id
    cp ${wt}_scratch/replays/$id/*.json /tmp/benign_replays/$(basename $(dirname $p))_$id/ 2>/dev/null
  fi
done
echo "$p | tests: $t | violations:${bad:- none}"
git -C /repo worktree remove --force $wt; rm -rf ${wt}_scratch
