#!/usr/bin/env python3
"""regenerate MANIFEST.json from the table below (keeps it valid at all times)"""
import json, os
ALL = ["C%02d" % i for i in range(1, 21)]
TB = ("Trusted: Coq 8.16.1 kernel + bytecode VM (vm_compute; no native_compute); the Python harness "
      "(generators, exact float->rational conversion, epgpy drivers); NumPy/CPython. ")
CLAIMED = {
 "C13": dict(
   text="Machine-checked proof (Coq), PARTIAL: the 1-D truncation clauses are proved on the generic model -- trunc_cap (no state beyond the cap), "
        "trunc_horizon (for every program, steps of any size and sign, the truncated run equals the untruncated one on all phase states "
        "|k| <= 2m+1-A with A the accumulated absolute shift since the last reset, by induction over programs with a contamination-front invariant) "
        "and trunc_F0_Z0_exact (every F0/Z0 acquisition with A <= 2m+1 is identical). The n-D truncation, pruning-bound, prune=0, partials-pruner and "
        "merging clauses are NOT theorems: they are run as oracles on the implementation (truncated vs untruncated incl. caps lowered mid-sequence, "
        "pruned vs unpruned against 2*eps*cumulative state count, merged vs unmerged value at position 0) -- testing.",
   design_ref="DESIGN.md section 4 C13",
   note=TB + "Model/Ops.v apply_shift (resize(min(n+|d|, nmax)) + in-place shift) tied to shift.py by exact correspondence of truncated programs (global max_nstate and per-operator nmax). "
        "Axioms: none.",
   technique="Coq proof (contamination-front invariant by induction over programs) + exact correspondence + implementation-side oracles"),
 "C03": dict(
   text="Machine-checked proof (Coq), PARTIAL: (a) all 17 closed-form second-derivative arrays of T, Phi, E, P, R, TRANSLATED from the source "
        "on every run, are proved to be the derivatives (Coquelicot is_derive) of the translated first-derivative arrays, for BOTH orders of "
        "differentiation of every mixed entry, and the parameter pairs absent from PARAMETERS_ORDER2 are proved identically zero; (b) "
        "hessian_symmetric for every state and variable list on the literal model of _apply_order2. Exactness/completeness of the second-order "
        "BOOKKEEPING over programs is not yet a theorem: the literal transcription of _apply_order2 (Model/Diff.v) is tied to diff.py by exact "
        "correspondence of sm.order2 after every operator and checked against Richardson finite differences of simulate() for random coefficient "
        "maps (variables driving several parameters, pairs across operators, explicit pair lists) -- that part is testing.",
   design_ref="DESIGN.md section 4 C03, section 9 items 6 and 10b",
   note=TB + "Translator validated by the Interval tie. Missing for a full proof: the jet-level theorem order2_step/order2_run (planned as for C02's order1_run). "
        "Axioms: classical reals, funext, classic for (a); none for (b).",
   technique="Coq proof (real analysis on translated second-derivative tables; symmetry) + exact correspondence + finite-difference oracle"),
 "C16": dict(
   text="Machine-checked proof (Coq) on an executable state-machine model of ArrayCollection faithful to the code (insertion-ordered dicts, layouts with "
        "one Ellipsis anywhere, caches, in-place branch of update, linked child): resize_centre (pad/crop about the centre for any lengths and parity), "
        "cache_reachable (cached shapes = recomputation after ANY call history, no precondition), inv_reachable_partial / inv_get (every get has the common "
        "shape in its broadcast axes and its own sizes elsewhere, over all histories of checked insertions), named_axes_single, set_incompatible_raises "
        "(every layout), copy_equal; three clauses are REFUTED with vm_compute witnesses replayed on the implementation and listed as known findings "
        "(unchecked fallback of update; link propagation).",
   design_ref="DESIGN.md section 4 C16, section 9 item 13",
   note=TB + "Model/Collection.v + Model/NdArray.v hand-written; tied to statematrix.py by exact correspondence of exception class, .shape, .axes and every get(name) "
        "(shape and integer values) after every call of generated histories (exhaustive short ones in the thorough tier); value-level equality of get results and the "
        "StateMatrix wrappers are covered by the correspondence only. Axioms: none.",
   technique="Coq proof (invariants by induction over call histories) + exact history correspondence"),
 "C11": dict(
   text="Machine-checked proof (Coq) over a model partly GENERATED from sequence.py on every run (the `math` function table with its derivative "
        "templates, the virtual-operator table and the __init__ signatures of the concrete classes): deriv_table_sound (every table entry is the "
        "partial derivative, Coquelicot is_derive, under the stated domain conditions), derive_sound (Expression.derive is the derivative for every "
        "expression tree, structural induction), map_eval and repeat_spec (substitution commutes with evaluation), vop_table_ok (finite check by "
        "vm_compute: each virtual operator binds to the same-named parameters of the class it is named after).",
   design_ref="DESIGN.md section 4 C11",
   note=TB + "Translator translator/seq_tables.py (ast extraction) and the ten primitive semantics (incl. powR for **); model tied to epgpy by exact rational "
        "vm_compute and Interval correspondence of eval/derive/map, virtual-operator calls with positional/keyword arguments in random order under a "
        "PYTHONHASHSEED sweep; jacobian/hessian/crlb wrappers are covered by central differences only (testing). Axioms: classical reals, funext, classic.",
   technique="Coq proof (structural induction, is_derive; finite table check by vm_compute) + table translator + correspondence + hash-seed sweep"),
 "C20": dict(
   text="Machine-checked proof (Coq): one guard per documented invalid-input class, composed as the constructors / prepare / _format_states / "
        "_parse_partials / check compose them (Model/Validate.v); 75 universally quantified theorems reject_<class> (every member: any magnitude, "
        "any position in an array argument, any batch shape, by induction over lists) and accept_<boundary> (zero duration, zero flip angle, tau=0, "
        "4-component shifts ...); the exact gaps of the existing guards are stated as theorems (tolerances of allclose, Offset, tau of E/P/D/X not "
        "guarded unless duration=True).",
   design_ref="DESIGN.md section 4 C20",
   note=TB + "The guard model is hand-written and tied to epgpy by a 1668-case malformed/boundary input correspondence comparing raised/not raised and the "
        "exception class on the real constructors and calls; np.allclose is modelled exactly over the rationals; class membership of generated inputs "
        "is assigned by the generators. Axioms: none.",
   technique="Coq proof (universally quantified guard theorems) + malformed-input correspondence"),
 "C02": dict(
   text="Machine-checked proof (Coq) in two halves. (a) Bookkeeping: diff.py's DiffOperator.__call__/_apply_order1/combine_partials/"
        "accumulate are transcribed literally (Model/Diff.v, dictionaries as association lists); for ANY derivation dv of the scalar "
        "ring and every program of differentiable operators (ScalarOp, MatrixOp, shifts incl. truncation) plus Wait/PD(reset=False), "
        "if each operator's arrays satisfy the chain rule through its declared coefficients then the partial carried for a variable "
        "equals dv of the simulated state, and the Jacobian column equals dv(signal) (order1_run, jacobian_exact, by induction over "
        "programs; lookup_order1 characterises the dictionary for every declaration form). (b) Analysis: the 13 closed-form "
        "derivative arrays of T, Phi, E, P, R, TRANSLATED from the source on every run, are proved to be the derivatives "
        "(Coquelicot is_derive) of the translated operator arrays, recovery term included. The clause 'whatever non-differentiable "
        "operators occur' is REFUTED (jacobian_refuted_spoiler) and listed as a known finding.",
   design_ref="DESIGN.md section 4 C02, section 9 item 10",
   note=TB + "Translator validated by the Interval tie; Model/Diff.v tied to diff.py by exact correspondence of sm.order1 after every operator of "
        "generated programs (all order1 forms). The composition of (a) and (b) into is_derive of the signal is by the sum/product rules and is not one "
        "mechanised theorem. Vectorised parameters / axes= are C07's. Axioms: none for (a); classical reals + funext + classic for (b).",
   technique="Coq proof (derivation-exactness by induction over programs; real analysis on translated coefficients) + translator + exact correspondence"),
 "C19": dict(
   text="Machine-checked proof (Coq) on the literal bookkeeping model of diff.py: diff_nonintrusive (the zeroth-order state of a "
        "differentiation-enabled run is the plain run, for every program and activation), partial_independent / "
        "jacobian_column_independent (two programs that agree on the operators' arrays and on one variable's own declarations carry "
        "the same partial for it, under any renaming), inactive_adds_nothing; all by induction over programs, any scalar ring.",
   design_ref="DESIGN.md section 4 C19",
   note=TB + "Model/Diff.v tied to diff.py by exact correspondence of sm.order1/sm.order2 after every operator; the same three clauses are also "
        "run directly on the implementation (with/without differentiation, variable alone, renamed). Second-order independence is covered by the "
        "correspondence and the implementation-side runs only. Axioms: none.",
   technique="Coq proof by induction over programs + exact correspondence + implementation-side differential runs"),
 "C01": dict(
   text="Machine-checked proof (Coq): for every program of the 1-D model (ScalarOp/MatrixOp with recovery term, integer shifts, "
        "spoiler, reset, PD, wait), any valid coefficients and any well-formed initial state, the Laurent synthesis of the phase "
        "states evolves like one classical isochromat (synth_step/synth_run, by induction over programs, generic commutative ring); "
        "DFT inversion shows the states are exactly the DFT coefficients of N independently simulated isochromats and F0/Z0 the "
        "ensemble means; over C a principal root of unity exists for every N. The RF/relaxation coefficient arrays are TRANSLATED "
        "from transition.py/evolution.py on every run and proved to be the Rodrigues rotation / to solve the Bloch ODE.",
   design_ref="DESIGN.md sections 3 and 4 C01",
   note=TB + "Translator (Python ast -> Gen/*.v) validated on every run by Interval evaluation against the implementation. "
        "Modelled rather than verified: Model/State.v, Model/Ops.v (exact dyadic correspondence incl. simulate() F0/Z0). Truncated shifts are excluded from the "
        "theorem (C13). Axioms: none for the algebraic theorems; the analytic ones (Coquelicot reals) use sig_not_dec, sig_forall_dec, functional_extensionality_dep, classic.",
   technique="Coq proof (induction over programs, DFT inversion, real analysis on translated coefficients) + translator + exact correspondence"),
 "C08": dict(
   text="Machine-checked proof (Coq) that every operator of the hand-written 1-D model preserves well-formedness "
        "(wf_step, wf_run over all programs, wf_init, only_pd_changes_equilibrium), generic over any commutative ring "
        "with conjugation; the model is tied to epgpy by an exact (dyadic, no tolerance) correspondence of every "
        "intermediate state of generated programs, and the boolean wf predicate is evaluated inside Coq on the "
        "implementation's own arrays.",
   design_ref="DESIGN.md section 4 C08",
   note=TB + "Modelled rather than verified: Model/State.v, Model/Ops.v (un-batched 1-D operators); n-D/float shifts, D and X are covered by the wf predicate on observed arrays only. Axioms: none (closed under the global context).",
   technique="Coq proof by induction over programs + exact model/implementation correspondence"),
}
REASON_TODO = "not yet built in this round (planned, see DESIGN.md section 4); no check is claimed"

def main():
    checks = []
    for pid, c in sorted(CLAIMED.items()):
        checks.append({
            "property_id": pid,
            "quick_cmd": "./check %s --tier quick" % pid,
            "thorough_cmd": "./check %s --tier thorough" % pid,
            "evidence_file": "/verif/evidence/%s.json" % pid,
            "replay_cmd_template": "./check %s --replay {path}" % pid,
            "engine": "coq-epg",
            "level_claimed": {"category": "proof", "text": c["text"], "design_ref": c["design_ref"]},
            "level_note": c["note"],
            "technique": c["technique"],
        })
    m = {
        "version": 1,
        "setup_cmd": "./setup.sh",
        "hooks": {"guard": "EPGPY_VERIF", "enable": "no hooks: every observable is reachable through the public API; nothing to enable",
                  "baseline_off_cmd": "cd /repo && /venv/bin/python -m pytest -ra -q -p no:cacheprovider --timeout=900 --continue-on-collection-errors",
                  "source_commits": [], "add_only": True},
        "engines": [{"name": "coq-epg", "path": "/verif/coq", "serves_properties": sorted(CLAIMED),
                     "kind_free_text": "Coq 8.16.1 development (generic-scalar EPG model, proofs) + Python translator/correspondence harness (./check)"}],
        "checks": checks,
        "not_applicable": [{"property_id": p, "reason": REASON_TODO} for p in ALL if p not in CLAIMED],
        "notes": "fix: commits in /repo are listed in known_findings.json (status fixed).",
    }
    json.dump(m, open(os.path.join(os.path.dirname(os.path.abspath(__file__)), "MANIFEST.json"), "w"), indent=1)

if __name__ == "__main__":
    main()
