#!/usr/bin/env python3
"""regenerate MANIFEST.json from the table below (keeps it valid at all times)"""
import json, os
ALL = ["C%02d" % i for i in range(1, 21)]
TB = ("Trusted: Coq 8.16.1 kernel + bytecode VM (vm_compute; no native_compute); the Python harness "
      "(generators, exact float->rational conversion, epgpy drivers); NumPy/CPython. ")
CLAIMED = {
 "C04": dict(
   text="Machine-checked proof (Coq) about CODE-SHAPED functions of the n-D shift back-end: unique_inverse_spec (the lexsort/dedup/inverse-map "
        "function meets its specification), shiftnd_synth / shiftnd_synth_char (for any dimension, distinct wavenumbers and any character chi, the "
        "position-space synthesis sum_k chi(k) F+(k) is multiplied by chi(dk) and the Z synthesis is unchanged: exactly the isochromat at that "
        "position), merge_adds_exact (gridded accumulation preserves amplitude sums exactly), backend_switch, G_is_S_of_wavenumber, "
        "C_puts_time_on_axis_4; reloc_synth for an order-independent abstraction. PARTIAL: mirror well-formedness covers the F columns only, the "
        "gridded synthesis identity assumes the attached wavenumber has the right character value, back-end agreement is a vm_compute-checked family "
        "(125 programs), composition with synth_run over whole programs is not stated.",
   design_ref="DESIGN.md section 4 C04",
   note=TB + "Model/ShiftND.v hand-written; tied to shift.py by exact dyadic correspondence of shiftnd / unique_1d / shiftmerge / shiftprune / get_shift_method; "
        "random testing against independently simulated isochromats at random positions / off-resonances and across back-ends (incl. mid-sequence switches) is supporting "
        "evidence. Axioms: none.",
   technique="Coq proof (list/permutation proofs on code-shaped sort/unique/relocate) + exact correspondence + Bloch-isochromat oracle"),
 "C05": dict(
   text="Machine-checked proof (Coq). The b-matrix and attenuation formulas are TRANSLATED from diffusion.py on every run (symbolic execution in 1-3 dimensions, "
        "all branches): bmatrix_is_integral (is_RInt of k_i(t) k_j(t) over the linear ramp, unit factors ms->s and rad/m->rad/mm explicit), bmatrix_const, "
        "bmatrix_even, bmatrix_symmetric, iso_equals_tensor, k0_unattenuated, att_le_1 for any positive semi-definite tensor; D_apply_view / D_apply_wf; and the "
        "PATHWAY theorem pathsum: for every list of [RF; shift; D] blocks and every well-formed initial state, each coefficient equals the sum over all 3^n coherence "
        "pathways of (product of RF entries) x (product of attenuations met), generic in scalars and attenuation functions, instantiated at C with exp(-b:D) from the "
        "generated formulas (phys_pathway_attenuation).",
   design_ref="DESIGN.md section 4 C05",
   note=TB + "Translator translator/diffusion_tables.py validated by the Interval tie; pathsum is for the 1-D array model with integer shifts; n-D / gridded states and "
        "tensor D over many states are tied by correspondence (b-matrices 1e-12, states 1e-9, evenness of the longitudinal factors DL about the centre state) and an independent 3^n pathway oracle with numerical quadrature (testing). "
        "Axioms: classical reals, funext, classic for the analytic theorems; none for the algebraic ones.",
   technique="Coq proof (RInt/auto_derive on translated formulas; induction over block sequences) + translator + correspondence + pathway oracle"),
 "C06": dict(
   text="Machine-checked proof (Coq), PARTIAL by design: the matrix exponential of exchange.py is LAPACK (eig/eigh/solve) and is a Section variable `expm` with "
        "hypotheses H0 (E(0)=I), Hsemi, Hder (+Hext, Hdiag for zero exchange). Under them: X_solves_ode (Bloch-McConnell for F+, F-, Z of every compartment and phase "
        "state), X_initial, X_semigroup, X_zero_exchange (= E_op per compartment, generated coefficients), X_conserves_total. Without hypotheses: X_fixed_point, guard "
        "theorems (non-square / column sums / non-conserving K rejected), x_apply_entry, exchange_matrix_ok / balance, and for TWO compartments with a scalar rate the "
        "closed form of exp(-Kt) is proved to satisfy H0/Hsemi/Hder, so that case is unconditional.",
   design_ref="DESIGN.md section 4 C06",
   note=TB + "Oracle hypotheses on exchange.expm are VALIDATED numerically (degree-30 Taylor in Fractions, semigroup, derivative, closed form) for generators with a "
        "well-conditioned eigenbasis, not proved; Model/Exchange.v tied by exact dyadic correspondence with op.mat injected and with exchange.expm temporarily replaced by the "
        "identity inside the harness (run-time monkeypatch, no source change); batched kinetic-matrix layouts (exchange axis anywhere, fewer axes than tau, bigger states; repaired by /repo ce28d2e) are judged against Bloch-McConnell and scalar runs; defective generators are a known finding. Axioms: classical reals, funext, classic.",
   technique="Coq proof under oracle hypotheses (+ unconditional two-pool closed form) + exact correspondence + numerical validation of the oracle"),
 "C07": dict(
   text="Machine-checked proof (Coq) on the shape algebra of epgpy modelled faithfully (append-aligned expand_shapes / broadcastable / broadcast_shapes, numpy's "
        "right-aligned broadcasting, the new-axis insertion of scalar_prod / matrix_prod incl. the in-place matmul with the state axis as core dimension and its "
        "ValueError fall-back, prepare, getshape, simulate's output shape): broadcast_shapes_spec, broadcastable_iff, prod_pointwise and matrix_prod_inplace_pointwise "
        "(for ALL ranks |A| <= |B| numpy's alignment of the axis-inserted array reads exactly the append-aligned element, and exactly when the in-place branch is taken), "
        "vectorised_is_stack (for every program of the 1-D model the vectorised run equals, at every grid index, the scalar run with that index's coefficients), "
        "output_shape, incompatible_raises.",
   design_ref="DESIGN.md section 4 C07, section 9 items 8 and 14",
   note=TB + "Model/Vector.v hand-written, tied by exact correspondence of shapes, raise/no-raise and elements read (index-encoded arrays); Jacobians/Hessians, real operators, "
        "axes= and batched S are covered by the vectorised-vs-stack-of-scalar-runs oracle only (testing); one known finding (batched S with different shifts per index). Axioms: none.",
   technique="Coq proof (induction over ranks and programs) + exact correspondence + scalar-stack oracle"),
 "C09": dict(
   text="Machine-checked proof (Coq), PARTIAL by design: memory aliasing, hidden state and the interpreter's hash seed cannot be exhibited by a Gallina model. Proved for the "
        "pure API model (append-only store of immutable values; calls apply/copy/mul/simulate/acquire): store_monotone, nonsm_immutable, history_independent, "
        "reuse_equals_fresh, simulate_idempotent, probe_snapshot / simulate_snapshot, inplace_equals_outofplace (with a refuting witness for non-differentiable operators on "
        "states with partials). That the IMPLEMENTATION behaves like this pure model is established by the history correspondence only.",
   design_ref="DESIGN.md section 4 C09, section 9 items 2, 3, 5, 12",
   note=TB + "History correspondence (random testing): byte-level snapshots of every live object before/after every call, shared-object vs deep-copy differential "
        "execution, np.shares_memory, repeated identical calls, PYTHONHASHSEED subprocess sweep (6 quick / 48 thorough), exact vm_compute evaluation of synthetic histories. "
        "One known finding (Probe.__call__ returns its input); the former one (out-of-place non-differentiable operators dropped the partials) is repaired by /repo 8521bf9 "
        "and checked as a regression. Axioms: none.",
   technique="Coq proof on a pure store model + history correspondence with byte-level snapshots and hash-seed sweep"),
 "C10": dict(
   text="Machine-checked proof (Coq): simulate_nested_eq_flat / regrouping_immaterial (any nesting of lists and any '*' grouping gives the state of the flat sequence, by "
        "induction over the nested structure; nested_eq_flat_with_partials / nested_probes_eq_flat: the same with all first- and second-order partials, Jacobian and Hessian "
        "probes, for differentiable and plain instructions, '*' groups applying their members in turn), multi_duration, multi_nshift, and combine_apply_states (whenever '@' accepts two operands -- scalar@scalar, matrix@matrix, "
        "matrix@scalar, scalar@matrix, with or without recovery terms -- the combined arrays act on any state matrix exactly as the operands applied in order). The clause on "
        "FIRST-order partials of '@' is a theorem for operands that declare their parameters under their own names (order1=True / a name / a list of names): "
        "combine_order1 -- if the combined operator holds the arrays, derivative arrays and merged order1 that _combine is modelled to build (combined_ok, "
        "evaluated in Coq on the implementation's a @ b objects by the correspondence), then for every state and every previously carried partials it yields "
        "the state and the first-order partials of the operands applied in order (product rule). With alias / coefficient-map declarations, and at second order "
        "outside four operand classes mapped experimentally, the clause is violated on the pinned tree (two known findings; the four reliable second-order classes "
        "are checked as violations by testing).",
   design_ref="DESIGN.md section 4 C10, section 9 item 15",
   note=TB + "Model/Combine.v tied to opscalar/opmatrix _combine by exact comparison of the combined arrays for chains of 2-4 operands in either association; shape/duration of "
        "real combined operators with 0-3 batch axes by oracle. Axioms: none.",
   technique="Coq proof (induction over nested sequences; ring identities per phase state; product rule for combined derivative arrays) + exact correspondence + implementation-side oracle"),
 "C12": dict(
   text="Machine-checked proof (Coq) on Model/Run.v (simulate_simple transcribed: apply in place, tic += duration, at each probe occurrence record (pb or op).acquire(sm, "
        "post=op.post), transposition, single-probe flattening; get_adc_times; modify/default_modifier with memo, att, P vs E, defaults): probe_count_order (one row per probe "
        "occurrence, the quantity of the state at that point, snapshot semantics), times_cumsum, override_keeps_when_and_post, adc_phase, weights_reduce, reduce_only, "
        "C12_tuple_probe_value (a probe returning several quantities records their values at its own position), "
        "multi_duration, modify_flat / modify_equiv / modify_times (modify = inserting an evolution after every operator with positive duration, timing unchanged), for every sequence.",
   design_ref="DESIGN.md section 4 C12",
   note=TB + "Model tied by exact dyadic correspondence of values, times, get_adc_times and MultiOperator.duration (tolerance 1e-13 only for the float phasor, 1e-12 for exp-based "
        "modify numerics); coefficients of T/E/P are abstract constructors in the model; array durations (incl. through modify, against per-entry scalar runs), expand and n-D batches are checked Python-side only. One known finding "
        "(explicit MultiOperator duration ignored by timing). Axioms: none.",
   technique="Coq proof (induction over sequences) + exact correspondence + Interval for the phasor"),
 "C14": dict(
   text="Machine-checked proof (Coq) at K = C with the TRANSLATED operator arrays: norm_code_eq (what get_norm squares equals the weighted norm for well-formed states), "
        "T / Phi / P state isometries (any parameters, any state), S_isometry (any untruncated shift), E_contracts_deviation, spoiler_contracts, D_contracts (factors in [0,1], "
        "linked to the generated 1-D diffusion formulas), signal_le_PD_run and signal_le_PD (with T2 <= 2 T1 the invariant norm^2 <= PD^2 is kept by every operator of every "
        "program, hence |F0| <= PD), and Parseval norm_is_rms / norm_is_rms_of_isochromats (the state norm is the RMS magnetisation length of the isochromat ensemble of C01).",
   design_ref="DESIGN.md section 4 C14",
   note=TB + "Proved for the 1-D model (Model/Ops.v) and the d_apply diffusion structure; n-D shifts, batching and the float get_norm are tied by a Coq-evaluated norm "
        "correspondence and random oracles (testing). Translator validated by the Interval tie. Axioms: classical reals, funext, classic.",
   technique="Coq proof (nsatz/nra per state, sums over integer windows, DFT orthogonality, invariant induction over programs) + translator + oracles"),
 "C15": dict(
   text="Machine-checked proof (Coq, Coquelicot): box_is_average (for every k and D<>0 the voxel average of cos/sin(k u) equals cos/sin(k x) * numpy-sinc(k D/(2 pi)), incl. k=0), "
        "box_probe_is_average_1d (the 'box' value is the integral of the 'point' values over the voxel), point_is_isochromat, modulation_imag_is_offres / "
        "time_shift_is_precession, modulation_real, mask_error_bound, weights_scale_output, reduce_only_sums, args_equal_system, acquire_keeps_options / repeated_use_stable. "
        "PARTIAL in 2-3 dimensions: the iterated average is proved, Fubini is not.",
   design_ref="DESIGN.md section 4 C15, section 9 item 2",
   note=TB + "Model/Imaging.v hand-written, tied to utils.imaging / Imaging._acquire by an ast check of 7 source expressions and by Interval evaluation of the model on the "
        "exact state-matrix contents (F, k, t taken from the implementation) against simulate(probe=Imaging(...)); box voxel vs 2001 independently simulated isochromats and "
        "off-resonance equivalence are oracles (testing). One known finding (System() vs argument alignment of weights/modulation arrays). Axioms: classical reals, funext, classic.",
   technique="Coq proof (is_RInt via antiderivatives, list/C algebra) + Interval correspondence + isochromat oracle"),
 "C17": dict(
   text="Machine-checked proof (Coq) over any field with conjugation: crlb_formula (= sum_a W_a B_aa for the inverse B of Re(J^H J)/sigma2), d_inverse and d_gram in a "
        "differential ring, crlb_grad_exact (the code's einsum expression -- subscripts EXTRACTED from stats.py and matched against a fixed menu -- equals the derivative of the "
        "cost), crlb_log (real level), crlb_split_diag, confint_formula / confint_cints, adjugate inverse correct for 1x1/2x2, inv_check_sound; the 108 Student-t table literals "
        "are proved on every run with Interval's verified integration to 1e-8. numpy.linalg.inv is a parameter with the two-sided inverse hypothesis, checked on every executed case.",
   design_ref="DESIGN.md section 4 C17, section 9 item 7",
   note=TB + "Translator translator/stats_tables.py (einsum menu, glue statements, TSTAT literals); exact-rational vm_compute correspondence of crlb / crlb_split / confint over "
        "batch shapes (tolerance 1e-9 on well-conditioned quantities); Sequence.crlb/confint wrappers, sqrt and log10 are tied by correspondence / squares / Interval only; t-table "
        "proofs use Interval's primitive 63-bit integers. Axioms: none for the algebraic theorems; classical reals + funext for crlb_log and the t table.",
   technique="Coq proof (generic-field matrix algebra, differential ring) + translator + exact correspondence + Interval integrals"),
 "C18": dict(
   text="Machine-checked proof (Coq) over the TRANSLATED T_op / Phi_op / E_op / P_op: pulse_structure and pulse_is_product (the operator list of a shaped pulse is the "
        "ordered product of T(180 |v_i| rf, arg v_i), each followed by its evolution share), pulse_duration, phase_offset_identity / phase_offset_product / "
        "phase_offset_is_sample_rotation, same_axis_angles_add, const_phase_single_rotation / target_angle, estimate_alpha_of_rf and estimate_rf_of_alpha on the CLOSED interval "
        "[0,180], estimate_alpha_zero_rf, encode_phase_is_modify, run_is_statewise (tie to the C01 semantics).",
   design_ref="DESIGN.md section 4 C18, section 9 item 9",
   note=TB + "Model/RFPulse.v tied to rfpulse.py by exact-rational correspondence of operator lists (1e-12) and effect checks (1e-10); the scipy branch of estimate_rf and att= "
        "are out of scope (scipy absent). Axioms: classical reals, funext, classic.",
   technique="Coq proof (matrix identities on translated rotations, real analysis) + exact correspondence + Interval"),

 "C13": dict(
   text="Machine-checked proof (Coq), PARTIAL: the 1-D truncation clauses are proved on the generic model -- trunc_cap (no state beyond the cap), "
        "trunc_horizon (for every program, steps of any size and sign, the truncated run equals the untruncated one on all phase states "
        "|k| <= 2m+1-A with A the accumulated absolute shift since the last reset, by induction over programs with a contamination-front invariant) "
        "and trunc_F0_Z0_exact (every F0/Z0 acquisition with A <= 2m+1 is identical); on the n-D shift model (Model/ShiftND.v, tied by the exact C04 correspondence) "
        "nd_cap (with a cap m every wavenumber kept by the n-D shift, pruned or not, has no component beyond m), prune_keeps_centre (the zero state is never removed), prune_removes_only_negligible (a removed state is below the tolerance in every batch entry), "
        "prune_nothing_negligible_exact (pruning is exact when nothing is negligible) and merge_position0_exact (merging adds amplitudes exactly: the F+ and Z sums are unchanged). "
        "Over Coquelicot's complex numbers: prune_value_bound_step_partial (ONE pruning step changes a value sum_j chi_j F_j, |chi_j| <= 1, by at most eps per removed state), prune_step_bound_model_partial (the same on the mask computed by the shiftnd model itself) and prune_tol0_exact. "
        "The n-D truncation horizon, the propagation of the pruning bound through a whole program (2*eps*cumulative count), the partials-pruner bound and the cell-size displacement bound of "
        "merging are NOT theorems: they are run as oracles on the implementation (truncated vs untruncated incl. caps lowered mid-sequence and "
        "oblique n-D out-and-back echoes with the cap reached exactly, pruned vs unpruned against 2*eps*cumulative state count, Jacobians with a counting "
        "PartialsPruner against 2*threshold*removals incl. batches, merged vs unmerged value at position 0, sum invariants of merging) -- testing.",
   design_ref="DESIGN.md section 4 C13",
   note=TB + "Model/Ops.v apply_shift (resize(min(n+|d|, nmax)) + in-place shift) tied to shift.py by exact correspondence of truncated programs (global max_nstate and per-operator nmax); Model/ShiftND.v (shiftnd plan, masks, select, merge plan) by the exact C04 correspondence. "
        "Axioms: none for the algebraic theorems; the two real-number theorems use sig_not_dec, sig_forall_dec, functional_extensionality_dep (standard library reals).",
   technique="Coq proof (contamination-front invariant by induction over programs) + exact correspondence + implementation-side oracles"),
 "C03": dict(
   text="Machine-checked proof (Coq) in two halves, as for C02. (a) Bookkeeping: on the literal transcription of diff.py's _apply_order2 / "
        "DiffOperator.__call__ (Model/Diff.v: de-duplication by Pair, coefficient term, order2_coeffs with accumulation, cross dictionaries "
        "selected by v1 >= v2 / v1 <= v2), for ANY two commuting derivations dv1, dv2 of the scalar ring and every program whose operators "
        "satisfy the first- and second-order chain rule through their declared coefficients (every declaration form, automatic or explicit "
        "cross derivatives, aliases, coefficient maps; shifts incl. truncation, Wait, PD without reset), the state carried in sm.order2 under "
        "Pair(v1,v2) equals dv1(dv2(state)) phase state by phase state, and the Hessian probe returns dv1(dv2(signal)) in both mixed entries "
        "(lookup_order2, order2_run, hessian_exact; induction over programs). (b) Analysis: all 17 closed-form second-derivative arrays of T, Phi, "
        "E, P, R, TRANSLATED from the source on every run, are the derivatives (Coquelicot is_derive) of the translated first-derivative "
        "arrays for BOTH orders of differentiation of every mixed entry; pairs absent from PARAMETERS_ORDER2 are identically zero; "
        "hessian_symmetric. (c) Composition, mechanised: hessian_point (two-ring version of (a): plain run in K, bookkeeping in L, ev a ring "
        "homomorphism, dv1/dv2 derivations over it, dv12 with the second-order Leibniz rule), signal_jet_mixed / signal_jet_diag (2-jets over the "
        "double dual numbers, Coquelicot), hessian_is_mixed_derivative / hessian_is_second_derivative, and end to end real_operators_hessian_diag / "
        "_mixed: for sequences of T, Phi, E, P, R (translated arrays, the declaration shape Sequence.build produces for one requested pair, one "
        "parameter per operator and variable driven affinely, same-operator mixed tables included) the Hessian entry the bookkeeping returns is the "
        "second (mixed) derivative of the simulated signal.",
   design_ref="DESIGN.md section 4 C03",
   note=TB + "Translator validated by the Interval tie; Model/Diff.v tied to diff.py by exact correspondence of sm.order2 after every operator; Richardson "
        "finite differences of simulate() for random coefficient maps as supporting oracle. The hypothesis cross_ok of (a) excludes exactly the cases in "
        "which the code itself omits cross terms (auto=False with an undeclared pair; an operator without order2 declaration applied before any "
        "second-order partial exists): there the Hessian is not the second derivative and the theorem does not claim it. The end-to-end theorem covers one requested pair per run (the multi-key form seq.hessian(['x','y']) "
        "is admitted by hessian_point but not instantiated), affine parameter maps, one parameter per operator and variable. Axioms: none for (a); classical reals, "
        "funext, classic for (b).",
   technique="Coq proof (second-order derivation-exactness by induction over programs; real analysis on translated second-derivative tables) + translator + exact correspondence + finite-difference oracle"),
 "C16": dict(
   text="Machine-checked proof (Coq) on an executable state-machine model of ArrayCollection faithful to the code (insertion-ordered dicts, layouts with "
        "one Ellipsis anywhere, caches, in-place branch of update, linked child): resize_centre (pad/crop about the centre for any lengths and parity), "
        "cache_reachable (cached shapes = recomputation after ANY call history, no precondition), inv_reachable_partial / inv_get (every get has the common "
        "shape in its broadcast axes and its own sizes elsewhere, over all histories of checked insertions), named_axes_single, set_incompatible_raises "
        "(every layout), copy_equal; three clauses are REFUTED with vm_compute witnesses replayed on the implementation and listed as known findings "
        "(unchecked fallback of update; link propagation).",
   design_ref="DESIGN.md section 4 C16, section 9 item 13",
   note=TB + "Model/Collection.v + Model/NdArray.v hand-written; tied to statematrix.py by exact correspondence of exception class, .shape, .axes and every get(name) "
        "(shape and integer values) after every call of generated histories (exhaustive short ones in the thorough tier); value-level equality of get results and the "
        "StateMatrix wrappers are covered by the correspondence only. Axioms: none.",
   technique="Coq proof (invariants by induction over call histories) + exact history correspondence"),
 "C11": dict(
   text="Machine-checked proof (Coq) over a model partly GENERATED from sequence.py on every run (the `math` function table with its derivative "
        "templates, the virtual-operator table and the __init__ signatures of the concrete classes): deriv_table_sound (every table entry is the "
        "partial derivative, Coquelicot is_derive, under the stated domain conditions), derive_sound (Expression.derive is the derivative for every "
        "expression tree, structural induction), map_eval and repeat_spec (substitution commutes with evaluation), vop_table_ok (finite check by "
        "vm_compute: each virtual operator binds to the same-named parameters of the class it is named after).",
   design_ref="DESIGN.md section 4 C11",
   note=TB + "Translator translator/seq_tables.py (ast extraction) and the ten primitive semantics (incl. powR for **); model tied to epgpy by exact rational "
        "vm_compute and Interval correspondence of eval/derive/map, virtual-operator calls with positional/keyword arguments in random order under a "
        "PYTHONHASHSEED sweep; jacobian/hessian/crlb/confint wrappers are covered by central differences of hand-built concrete sequences (row/column variable "
        "lists, shared non-linear argument expressions) and by per-entry scalar runs for batches of rank 0-3 (testing). Axioms: classical reals, funext, classic.",
   technique="Coq proof (structural induction, is_derive; finite table check by vm_compute) + table translator + correspondence + hash-seed sweep"),
 "C20": dict(
   text="Machine-checked proof (Coq): one guard per documented invalid-input class, composed as the constructors / prepare / _format_states / "
        "_parse_partials / check compose them (Model/Validate.v); 82 universally quantified theorems reject_<class> (every member: any magnitude, "
        "any position in an array argument, any batch shape, by induction over lists) and accept_<boundary> (zero duration, zero flip angle, tau=0, "
        "4-component shifts ...); the exact gaps of the existing guards are stated as theorems (tolerances of allclose, Offset, tau of E/P/D/X not "
        "guarded unless duration=True).",
   design_ref="DESIGN.md section 4 C20",
   note=TB + "The guard model is hand-written and tied to epgpy by a 2135-case malformed/boundary input correspondence (incl. a sweep of falsy-but-valid values 0, 0.0, -0.0, numpy zeros, "
        "0-d arrays, empty collections over every validated argument) comparing raised/not raised and the "
        "exception class on the real constructors and calls; np.allclose is modelled exactly over the rationals; class membership of generated inputs "
        "is assigned by the generators. Axioms: none.",
   technique="Coq proof (universally quantified guard theorems) + malformed-input correspondence"),
 "C02": dict(
   text="Machine-checked proof (Coq) in two halves. (a) Bookkeeping: diff.py's DiffOperator.__call__/_apply_order1/combine_partials/"
        "accumulate are transcribed literally (Model/Diff.v, dictionaries as association lists); for ANY derivation dv of the scalar "
        "ring and every program of differentiable operators (ScalarOp, MatrixOp, shifts incl. truncation) and of operators without differentiable parameter (Wait, SPOILER, RESET, PD with or without reset, which act on the partials through Operator._apply_partial since /repo 8521bf9), "
        "if each operator's arrays satisfy the chain rule through its declared coefficients then the partial carried for a variable "
        "equals dv of the simulated state, and the Jacobian column equals dv(signal) (order1_run, jacobian_exact, by induction over "
        "programs; lookup_order1 characterises the dictionary for every declaration form). (b) Analysis: the 13 closed-form "
        "derivative arrays of T, Phi, E, P, R, TRANSLATED from the source on every run, are proved to be the derivatives "
        "(Coquelicot is_derive) of the translated operator arrays, recovery term included. (c) Composition, mechanised: C02_jacobian_point "
        "(two-ring version of (a): plain run in K, bookkeeping in L, ev a ring homomorphism and dv a derivation over it), "
        "C02_jacobian_is_derivative (K = dual numbers over C: for any family of programs x -> prog(x) with arrays differentiable at x0, "
        "the Jacobian entry the bookkeeping returns at x0 IS d/dx of the simulated signal, is_derive on re and im; by forward-mode "
        "soundness of the plain run, induction over programs), C02_real_sequence_jacobian and C02_real_operators_jacobian (end to end: "
        "every sequence of T, Phi, E, P, R with ONE parameter each driven affinely by the variable -- alpha, phi; tau, T1, T2, g; "
        "Re rT, rL, r0 -- declared {v: {param: c}}, constant operators and shifts with or without nmax, using the TRANSLATED "
        "derivative arrays, with SPOILER, RESET, PD(pd, reset) and Wait anywhere in the sequence). The clause 'whatever non-differentiable "
        "operators occur' was REFUTED on the pinned tree (jacobian_refuted_spoiler); the defect is repaired (/repo 8521bf9), the theorems now quantify over those "
        "operators and the former witness is a regression theorem (jacobian_through_spoiler); the model is 1-D: for n-D shifts the "
        "implementation shifts every partial state matrix on its own (pruning/merging independently), a known finding found "
        "by testing (exact with integer shifts and prune=0, which the n-D stream checks against central differences).",
   design_ref="DESIGN.md section 4 C02, section 9 item 10",
   note=TB + "Translator validated by the Interval tie; Model/Diff.v tied to diff.py by exact correspondence of sm.order1 after every operator of "
        "generated programs (all order1 forms). In the end-to-end theorem each operator has at most one parameter driven by the variable (several parameters of ONE operator "
        "driven at once need the two-variable chain rule and are not instantiated; several operators sharing the variable are covered). Vectorised parameters / axes= are C07's. Axioms: none for (a); classical reals + funext + classic for (b).",
   technique="Coq proof (derivation-exactness by induction over programs; real analysis on translated coefficients) + translator + exact correspondence"),
 "C19": dict(
   text="Machine-checked proof (Coq) on the literal bookkeeping model of diff.py: diff_nonintrusive (the zeroth-order state of a "
        "differentiation-enabled run is the plain run, for every program and activation), partial_independent / "
        "jacobian_column_independent (two programs that agree on the operators' arrays and on one variable's own declarations carry "
        "the same partial for it, under any renaming), inactive_adds_nothing; all by induction over programs, any scalar ring.",
   design_ref="DESIGN.md section 4 C19",
   note=TB + "Model/Diff.v tied to diff.py by exact correspondence of sm.order1/sm.order2 after every operator; the same three clauses are also "
        "run directly on the implementation (with/without differentiation, variable alone, renamed). Second-order independence is covered by the "
        "correspondence and the implementation-side runs only. Axioms: none.",
   technique="Coq proof by induction over programs + exact correspondence + implementation-side differential runs"),
 "C01": dict(
   text="Machine-checked proof (Coq): for every program of the 1-D model (ScalarOp/MatrixOp with recovery term, integer shifts, "
        "spoiler, reset, PD, wait), any valid coefficients and any well-formed initial state, the Laurent synthesis of the phase "
        "states evolves like one classical isochromat (synth_step/synth_run, by induction over programs, generic commutative ring); "
        "DFT inversion shows the states are exactly the DFT coefficients of N independently simulated isochromats and F0/Z0 the "
        "ensemble means; over C a principal root of unity exists for every N. The RF/relaxation coefficient arrays are TRANSLATED "
        "from transition.py/evolution.py on every run and proved to be the Rodrigues rotation / to solve the Bloch ODE.",
   design_ref="DESIGN.md sections 3 and 4 C01",
   note=TB + "Translator (Python ast -> Gen/*.v) validated on every run by Interval evaluation against the implementation. "
        "Modelled rather than verified: Model/State.v, Model/Ops.v (exact dyadic correspondence incl. simulate() F0/Z0); vectorised real-operator runs on two batch axes are "
        "compared per entry with independently simulated Bloch isochromats (testing; the shape algebra is C07's theorem). Truncated shifts are excluded from the "
        "theorem (C13). Axioms: none for the algebraic theorems; the analytic ones (Coquelicot reals) use sig_not_dec, sig_forall_dec, functional_extensionality_dep, classic.",
   technique="Coq proof (induction over programs, DFT inversion, real analysis on translated coefficients) + translator + exact correspondence"),
 "C08": dict(
   text="Machine-checked proof (Coq) that every operator of the hand-written 1-D model preserves well-formedness "
        "(wf_step, wf_run over all programs, wf_init, only_pd_changes_equilibrium), generic over any commutative ring "
        "with conjugation; the model is tied to epgpy by an exact (dyadic, no tolerance) correspondence of every "
        "intermediate state of generated programs, and the boolean wf predicate is evaluated inside Coq on the "
        "implementation's own arrays. Since round 7 also: wf_run_with_diffusion (all programs interleaving the 1-D operators with D, "
        "longitudinal factor conjugate-even -- checked on the implementation's DL by the C05 correspondence), D leaves the equilibrium alone, "
        "exchange_keeps_symmetry (X on a fibre of n compartments with the stacked matrices [MT, conj MT, real ML] keeps F-(k)=conj F+(-k), "
        "Z(-k)=conj Z(k) in every compartment), exchange_fixes_equilibrium and nd_shift_fm_mirror (the n-D shift rebuilds F- as the mirror conjugate of F+ for every plan).",
   design_ref="DESIGN.md section 4 C08",
   note=TB + "Modelled rather than verified: Model/State.v, Model/Ops.v (un-batched 1-D operators), Model/Diffusion.v d_apply (tied per D application by C05), "
        "Model/Exchange.v x_apply_fibre (tied by C06 with injected matrices); n-D/float shifts are covered by the wf predicate on observed arrays only. Axioms: none (closed under the global context).",
   technique="Coq proof by induction over programs + exact model/implementation correspondence"),
}
REASON_TODO = "not claimed"

def main():
    checks = []
    for pid, c in sorted(CLAIMED.items()):
        checks.append({
            "property_id": pid,
            "quick_cmd": "./check %s --tier quick" % pid,
            "thorough_cmd": "./check %s --tier thorough" % pid,
            "evidence_file": "/verif/evidence/%s.json" % pid,
            "replay_cmd_template": "./check %s --replay {path}" % pid,
            "engine": "coq-epg",
            "level_claimed": {"category": "proof", "text": c["text"], "design_ref": c["design_ref"]},
            "level_note": c["note"],
            "technique": c["technique"],
        })
    m = {
        "version": 1,
        "setup_cmd": "./setup.sh",
        "hooks": {"guard": "EPGPY_VERIF", "enable": "no hooks: every observable is reachable through the public API; nothing to enable",
                  "baseline_off_cmd": "cd /repo && /venv/bin/python -m pytest -ra -q -p no:cacheprovider --timeout=900 --continue-on-collection-errors",
                  "source_commits": [], "add_only": True},
        "engines": [{"name": "coq-epg", "path": "/verif/coq", "serves_properties": sorted(CLAIMED),
                     "kind_free_text": "Coq 8.16.1 development (generic-scalar EPG model, proofs) + Python translator/correspondence harness (./check)"}],
        "checks": checks,
        "not_applicable": [{"property_id": p, "reason": REASON_TODO} for p in ALL if p not in CLAIMED],
        "notes": "fix: commits in /repo are listed in known_findings.json (status fixed).",
    }
    json.dump(m, open(os.path.join(os.path.dirname(os.path.abspath(__file__)), "MANIFEST.json"), "w"), indent=1)

if __name__ == "__main__":
    main()
