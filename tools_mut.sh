#!/bin/bash
# usage: tools_mut.sh <file-in-repo> <python-replace-old> <python-replace-new> <check ids...>
# applies a textual mutation to /repo, runs the checks, restores the tree
f=$1; old=$2; new=$3; shift 3
cd /repo || exit 2
python3 - "$f" "$old" "$new" <<'PY'
import sys
f,old,new=sys.argv[1:4]
s=open(f).read()
assert s.count(old)>=1, "pattern not found"
open(f,'w').write(s.replace(old,new,1))
PY
[ $? -eq 0 ] || { git checkout -- .; exit 2; }
/venv/bin/python -m pytest -q -x -p no:cacheprovider --timeout=900 2>&1 | tail -1
for id in "$@"; do (cd /verif && ./check $id | grep -v "^KNOWN" | head -3); done
git -C /repo checkout -- .
