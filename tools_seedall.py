#!/usr/bin/env python3
"""Validate seeded breaking changes and (re)write their meta.json.
usage: tools_seedall.py <src-dir-with-patch.diff,demo.py,meta.json> <dest-name under /verif/seeded> <check ids...>
For each seed: scratch worktree of /repo HEAD (removed afterwards), apply the patch, run the pinned test suite there,
run the demo with and without the patch, run each named check with EPGPY_REPO=<worktree> and a private VERIF_SCRATCH."""
import sys, os, json, subprocess, shutil, re
src, name, checks = sys.argv[1], sys.argv[2], sys.argv[3:]
dest = os.path.join("/verif/seeded", name)
os.makedirs(dest, exist_ok=True)
for f in ("patch.diff", "demo.py", "meta.json"):
    if os.path.abspath(src) != os.path.abspath(dest):
        shutil.copy(os.path.join(src, f), os.path.join(dest, f))
meta = json.load(open(os.path.join(dest, "meta.json")))
wt = "/tmp/wt_seedall_%d" % os.getpid()
sh = lambda cmd, **kw: subprocess.run(cmd, shell=True, stdout=subprocess.PIPE, stderr=subprocess.STDOUT, text=True, **kw)
head = sh("git -C /repo log --format=%h -1").stdout.strip()
sh("git -C /repo worktree add -q %s HEAD" % wt)
try:
    r = sh("git -C %s apply %s/patch.diff" % (wt, dest))
    if r.returncode:
        print(name, "PATCH DOES NOT APPLY", r.stdout); sys.exit(2)
    t = sh("cd %s && PYTHONPATH=%s /venv/bin/python -m pytest -q -p no:cacheprovider --timeout=900 --continue-on-collection-errors 2>&1 | tail -1" % (wt, wt))
    tests = t.stdout.strip()
    m = re.search(r"(\d+) passed", tests)
    d1 = sh("cd %s && PYTHONPATH=%s timeout 600 /venv/bin/python %s/demo.py" % (wt, wt, dest)).returncode
    d0 = sh("cd /repo && PYTHONPATH=/repo timeout 600 /venv/bin/python %s/demo.py" % dest).returncode
    res = {}
    for c in checks:
        o = sh("cd /verif && VERIF_SCRATCH=%s_scratch EPGPY_REPO=%s ./check %s" % (wt, wt, c))
        lines = [l for l in o.stdout.splitlines() if l.startswith("VIOLATION")]
        res[c] = {"exit": o.returncode, "violation_lines": len(lines),
                  "with_failing_input": sum(1 for l in lines if "no-failing-input-found" not in l)}
finally:
    sh("git -C /repo worktree remove --force %s" % wt)
    shutil.rmtree(wt + "_scratch", ignore_errors=True)
meta["confirmed"] = {"repo_head": head, "tests_with_patch": tests, "tests_pass_with_patch": bool(m and int(m.group(1)) >= 68),
                     "demo_fails_with_patch": d1 != 0, "demo_passes_without": d0 == 0}
meta["checks_run"] = res
meta["caught_by"] = sorted(c for c, v in res.items() if v["exit"] == 1 and v["violation_lines"] > 0)
meta["ran"] = "tools_seedall.py: scratch worktree of /repo %s, git apply patch.diff, pinned pytest suite, demo.py with/without patch, EPGPY_REPO=<worktree> VERIF_SCRATCH=<private copy> ./check <id> (quick tier); worktree removed" % head
json.dump(meta, open(os.path.join(dest, "meta.json"), "w"), indent=1)
print(name, meta["confirmed"]["tests_with_patch"], "demo", d1, d0, {c: (v["violation_lines"], v["with_failing_input"]) for c, v in res.items()})
