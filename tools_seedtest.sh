#!/bin/bash
# usage: tools_seedtest.sh <seed-dir> <check ids...>
# applies <seed-dir>/patch.diff in a scratch worktree of /repo HEAD, confirms the demo fails there and passes on /repo,
# runs the checks against the worktree, removes the worktree
d=$1; shift
wt=/tmp/wt_seedtest_$$
git -C /repo worktree remove --force $wt 2>/dev/null
git -C /repo worktree add -q $wt HEAD || exit 2
if ! git -C $wt apply $d/patch.diff; then echo "PATCH DOES NOT APPLY"; git -C /repo worktree remove --force $wt; exit 2; fi
(cd $wt && PYTHONPATH=$wt timeout 600 /venv/bin/python $d/demo.py >/dev/null 2>&1); echo "demo with patch: rc=$?"
(cd /repo && PYTHONPATH=/repo timeout 600 /venv/bin/python $d/demo.py >/dev/null 2>&1); echo "demo on /repo: rc=$?"
for id in "$@"; do
  out=$(cd /verif && VERIF_SCRATCH=${wt}_scratch EPGPY_REPO=$wt ./check $id 2>&1 | grep -v "^KNOWN")
  echo "$id: $(echo "$out" | grep -c '^VIOLATION') violation lines, $(echo "$out" | grep '^VIOLATION' | grep -vc 'no-failing-input-found') with failing input; last: $(echo "$out" | tail -1 | cut -c1-120)"
done
git -C /repo worktree remove --force $wt
rm -rf ${wt}_scratch
