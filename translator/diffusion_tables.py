"""C05: epgpy/diffusion.py (compute_bmatrix, diffusion_operator) -> coq/Gen/Diffusion.v

The two functions are executed symbolically by a subclass of translator.symex.Interp that adds exactly the numpy
idioms they use (new-axis broadcasting of a vector and the column * row outer product, wherever it is written:
inline, in a nested closure or in a module-level helper; chained assignment; conditional expressions with a static
test; atleast_2d on a vector, the static shape guards,
the `allclose(kd, 0)` branch taken as a specialisation switch, diagonal gather `b[..., idiag, idiag]`, `sum` over
the last axis / the last two axes, element-wise product of two matrices).  Anything else raises Unsupported
(fail closed: the check reports the translator as a broken obligation).

The executor runs on vectors of dimension 1, 2 and 3 with one symbol per component; the generated scalar
definition `bmat tau k1_i k1_j k2_i k2_j` is entry (0,1) of the 3-D result, and EVERY entry (i,j) in every dimension
is checked to be that same expression with the components renamed (so the generated formula is the formula of all
entries, not of a sample).  The real-number definitions are emitted together with rational (Q) twins printed from
the same expression trees (Gen lemma-free; Proofs/DiffusionProofs.v proves Q2R twin = real definition)."""
import ast, os
from fractions import Fraction
from . import symex
from .symex import R, Cx, Arr, NONE, Unsupported, cmul, cadd, coq_r

class LocalFn:
    """nested function definition (closure over the defining environment)"""

    def __init__(self, node, env):
        self.node, self.env = node, env


class Bcast:
    """a vector indexed with a new axis: v[..., newaxis] (kind 'col', shape (n,1)) or v[..., newaxis, :] (kind 'row',
    shape (1,n)); only the product col * row / row * col (an outer product) is defined on these"""

    def __init__(self, kind, vec):
        self.kind, self.vec = kind, vec


class Arange:
    def __init__(self, n):
        self.n = n


class DInterp(symex.Interp):
    """symex.Interp + the idioms of diffusion.py; `close` selects the branch of `if xp.allclose(kd, 0)`"""

    def __init__(self, tree, modname, close):
        super().__init__(tree, modname)
        self.close = close
        self.saw_allclose = False

    # ---- statements
    def stmt(self, st, env):
        if isinstance(st, ast.FunctionDef):
            a = st.args
            if a.defaults or a.kwonlyargs or a.vararg or a.kwarg or a.posonlyargs or st.decorator_list:
                raise Unsupported("signature of nested function %s" % st.name)
            env[st.name] = LocalFn(st, env)
            return None
        if isinstance(st, ast.Assign) and len(st.targets) > 1:
            # chained assignment a = b = e: one evaluation, every target bound to the same object (as in Python)
            v = self.expr(st.value, env)
            for t in st.targets:
                self.assign(t, v, env)
            return None
        if isinstance(st, ast.Raise):
            raise Unsupported("raise reached on the modelled path")
        return super().stmt(st, env)

    def dim_of(self, e, env):
        """x.shape[-1] for a vector/matrix value"""
        if (isinstance(e, ast.Subscript) and isinstance(e.value, ast.Attribute) and e.value.attr == "shape"
                and self.intlit_ok(e.slice) == -1):
            v = self.expr(e.value.value, env)
            if isinstance(v, Arr):
                return v.tshape[-1]
        if (isinstance(e, ast.Subscript) and self.intlit_ok(e.slice) == -1 and isinstance(e.value, ast.Call)
                and isinstance(e.value.func, ast.Attribute) and isinstance(e.value.func.value, ast.Name)
                and e.value.func.value.id in ("np", "xp") and e.value.func.attr == "shape"
                and len(e.value.args) == 1 and not e.value.keywords):
            v = self.expr(e.value.args[0], env)
            if isinstance(v, Arr):
                return v.tshape[-1]
            raise Unsupported("np.shape(x)[-1] of a non-array")
        return None

    @staticmethod
    def is_newaxis(n):
        return ((isinstance(n, ast.Attribute) and n.attr == "newaxis" and isinstance(n.value, ast.Name) and n.value.id in ("np", "xp"))
                or (isinstance(n, ast.Constant) and n.value is None))

    @staticmethod
    def is_fullslice(n):
        return isinstance(n, ast.Slice) and n.lower is None and n.upper is None and n.step is None

    def call_local(self, fn, args):
        params = [a.arg for a in fn.node.args.args]
        if len(params) != len(args):
            raise Unsupported("arity of nested function %s" % fn.node.name)
        env = dict(fn.env)                     # reads see the defining scope (late binding), writes stay local
        env.update(zip(params, args))
        for st in fn.node.body:
            r = self.stmt(st, env)
            if r is not None:
                return r[0]
        raise Unsupported("%s does not return" % fn.node.name)

    def intlit_ok(self, n):
        try:
            return self.intlit(n)
        except Unsupported:
            return None

    def static_cond(self, t, env):
        if isinstance(t, ast.Compare) and len(t.ops) == 1:
            a = self.dim_of(t.left, env)
            if a is not None:
                c = t.comparators[0]
                b = self.dim_of(c, env)
                if b is None and isinstance(c, ast.Constant) and isinstance(c.value, int):
                    b = c.value
                if b is not None:
                    if isinstance(t.ops[0], ast.Gt):
                        return a > b
                    if isinstance(t.ops[0], ast.NotEq):
                        return a != b
                raise Unsupported("shape comparison form")
        if isinstance(t, ast.Call) and isinstance(t.func, ast.Attribute) and isinstance(t.func.value, ast.Name):
            mod, name = t.func.value.id, t.func.attr
            if mod == "common" and name == "isscalar" and len(t.args) == 1 and not t.keywords:
                v = self.expr(t.args[0], env)
                return isinstance(v, Cx) or v is NONE       # len(None) raises TypeError: isscalar(None) is True
            if mod in ("xp", "np") and name == "allclose" and not t.keywords and len(t.args) == 2:
                a0, a1 = t.args
                v = self.expr(a0, env)
                if (isinstance(a1, ast.Constant) and a1.value == 0 and not isinstance(a1.value, bool)
                        and isinstance(v, Arr) and len(v.tshape) == 1 and all(is_k_difference(v.get(k)) for k in v.indices())):
                    self.saw_allclose = True
                    return self.close
                raise Unsupported("allclose arguments (expected: a difference f(k2) - f(k1) of the two wavenumber vectors, 0)")
        return super().static_cond(t, env)

    # ---- expressions
    def expr(self, e, env):
        if isinstance(e, ast.Name) and isinstance(env.get(e.id), (LocalFn, Arange)):
            return env[e.id]
        if isinstance(e, ast.IfExp):
            return self.expr(e.body if self.static_cond(e.test, env) else e.orelse, env)
        if isinstance(e, ast.Subscript):
            d = self.dim_of(e, env)
            if d is not None:
                return Cx(R.const(d))
            # new-axis broadcasting of a vector: v[..., newaxis] / v[..., :, newaxis] (column), v[..., newaxis, :] (row)
            sl0 = e.slice
            if (isinstance(sl0, ast.Tuple) and sl0.elts and isinstance(sl0.elts[0], ast.Constant) and sl0.elts[0].value is Ellipsis
                    and any(self.is_newaxis(x) for x in sl0.elts[1:])):
                rest = sl0.elts[1:]
                if len(rest) == 1 and self.is_newaxis(rest[0]):
                    kind = "col"
                elif len(rest) == 2 and self.is_fullslice(rest[0]) and self.is_newaxis(rest[1]):
                    kind = "col"
                elif len(rest) == 2 and self.is_newaxis(rest[0]) and self.is_fullslice(rest[1]):
                    kind = "row"
                else:
                    raise Unsupported("new-axis indexing form")
                v = self.expr(e.value, env)
                if not (isinstance(v, Arr) and len(v.tshape) == 1):
                    raise Unsupported("new-axis indexing of a non-vector")
                return Bcast(kind, v)
            # diagonal gather b[..., idiag, idiag]
            sl = e.slice
            if (isinstance(sl, ast.Tuple) and len(sl.elts) == 3 and isinstance(sl.elts[0], ast.Constant)
                    and sl.elts[0].value is Ellipsis and all(isinstance(x, ast.Name) for x in sl.elts[1:])
                    and sl.elts[1].id == sl.elts[2].id and isinstance(env.get(sl.elts[1].id), Arange)):
                arr = self.expr(e.value, env)
                n = env[sl.elts[1].id].n
                if not isinstance(arr, Arr) or arr.tshape != (n, n):
                    raise Unsupported("diagonal gather on a non-square value")
                r = Arr((n,), None)
                for i in range(n):
                    r.e[(i,)] = arr.get((i, i))
                return r
        return super().expr(e, env)

    def binop(self, op, a, b):
        if isinstance(a, Bcast) or isinstance(b, Bcast):
            if not (isinstance(a, Bcast) and isinstance(b, Bcast) and isinstance(op, ast.Mult) and a.kind != b.kind
                    and a.vec.tshape == b.vec.tshape):
                raise Unsupported("operation on a broadcast vector other than column * row")
            n = a.vec.tshape[0]
            col, row = (a, b) if a.kind == "col" else (b, a)
            r = Arr((n, n), None)
            for i in range(n):
                for j in range(n):
                    x, y = col.vec.get((i,)), row.vec.get((j,))
                    r.e[(i, j)] = cmul(x, y) if a.kind == "col" else cmul(y, x)     # operand order as written
            return r
        if isinstance(a, Arr) and isinstance(b, Arr) and isinstance(op, ast.Mult):
            if a.tshape != b.tshape:
                raise Unsupported("array shapes")
            r = Arr(a.tshape, None)
            for k in a.indices():
                r.e[k] = cmul(a.get(k), b.get(k))
            return r
        return super().binop(op, a, b)

    def callexpr(self, e, env):
        f = e.func
        kw = {k.arg: k.value for k in e.keywords}
        if isinstance(f, ast.Name) and isinstance(env.get(f.id), LocalFn):
            if kw:
                raise Unsupported("keyword call of a nested function")
            args = [self.expr(x, env) for x in e.args]
            return self.call_local(env[f.id], [x.copy() if isinstance(x, Arr) else x for x in args])
        if isinstance(f, ast.Attribute) and isinstance(f.value, ast.Name) and f.value.id in ("xp", "np", "common"):
            mod, name = f.value.id, f.attr
            if mod == "common" and name == "get_array_module" and not e.args and not kw:
                return ("module", "xp")
            if mod == "common" and name == "expand_arrays" and list(kw) == ["append"] and \
                    isinstance(kw["append"], ast.Constant) and kw["append"].value is False:
                return tuple(self.expr(a, env) for a in e.args)      # batch-axis plumbing only (C07's business)
            if mod in ("xp", "np"):
                if name in ("atleast_2d", "asarray") and len(e.args) == 1 and not kw:
                    v = self.expr(e.args[0], env)
                    if not isinstance(v, Arr):
                        raise Unsupported("%s of a non-array" % name)
                    return v
                if name == "arange" and len(e.args) == 1 and not kw:
                    v = self.expr(e.args[0], env)
                    if isinstance(v, Cx) and v.is_real and v.re.is_const():
                        return Arange(int(v.re.args[0]))
                    raise Unsupported("arange argument")
                if name == "sum" and len(e.args) == 1 and list(kw) == ["axis"]:
                    v = self.expr(e.args[0], env)
                    ax = ast.literal_eval(kw["axis"])
                    if isinstance(v, Arr) and ((len(v.tshape) == 1 and ax == -1) or (len(v.tshape) == 2 and ax == (-2, -1))):
                        acc = None
                        for k in v.indices():
                            acc = v.get(k) if acc is None else cadd(acc, v.get(k))
                        return acc
                    raise Unsupported("sum form")
        return super().callexpr(e, env)


# ---------------------------------------------------------------- helpers on expression trees
def is_k_difference(c):
    """real expression of the form A - B where A is B with every k1_* replaced by k2_* (so it vanishes at k2 = k1)"""
    if not isinstance(c, Cx) or not c.is_real or c.re.op != "sub":
        return False
    A, B = c.re.args

    def names(e, acc):
        if e.op == "var":
            acc.add(e.args[0])
        for x in e.args:
            if isinstance(x, R):
                names(x, acc)
        return acc
    nb = names(B, set())
    if not nb or not all(n.startswith("k1_") for n in nb):
        return False
    return subst(B, {n: "k2_" + n[3:] for n in nb}).key() == A.key()


def subst(e, ren):
    if e.op == "var":
        return R.var(ren.get(e.args[0], e.args[0]))
    if e.op in ("const", "pi"):
        return e
    if e.op == "fun":
        return R("fun", e.args[0], subst(e.args[1], ren))
    return R(e.op, *[subst(a, ren) for a in e.args])


def real(v, what):
    if not isinstance(v, Cx) or not v.is_real:
        raise Unsupported("%s is not a real scalar" % what)
    return v.re


def coq_q(e):
    """print a (polynomial/rational) real tree over Q"""
    o = e.op
    if o == "const":
        q = e.args[0]
        return "(%s # %d)" % ("%d" % q.numerator if q.numerator >= 0 else "(%d)" % q.numerator, q.denominator)
    if o == "var":
        return e.args[0]
    if o == "neg":
        return "(- %s)" % coq_q(e.args[0])
    if o in ("add", "sub", "mul", "div"):
        s = {"add": "+", "sub": "-", "mul": "*", "div": "/"}[o]
        return "(%s %s %s)" % (coq_q(e.args[0]), s, coq_q(e.args[1]))
    raise Unsupported("no rational twin for %s" % o)


def vec(name, d):
    a = Arr((d,), None)
    for i in range(d):
        a.e[(i,)] = Cx(R.var("%s_%d" % (name, i)))
    return a


def mat(name, d):
    a = Arr((d, d), None)
    for i in range(d):
        for j in range(d):
            a.e[(i, j)] = Cx(R.var("%s%d%d" % (name, i, j)))
    return a


def bmatrix_entries(tree, d, mode):
    """mode: 'ramp' (k2 given, not close), 'close' (k2 given, allclose branch), 'none' (k2 = None)"""
    it = DInterp(tree, "diffusion.py", close=(mode == "close"))
    k2 = NONE if mode == "none" else vec("k2", d)
    v = it.call("compute_bmatrix", [Cx(R.var("tau")), vec("k1", d), k2])
    if not isinstance(v, Arr) or v.tshape != (d, d):
        raise Unsupported("compute_bmatrix does not return a %dx%d matrix" % (d, d))
    if mode != "none" and not it.saw_allclose:
        raise Unsupported("compute_bmatrix: the allclose(kd, 0) branch was not met")
    return {k: real(v.get(k), "b-matrix entry") for k in v.indices()}


def generate(REPO, GEN, write_if_changed):
    path = os.path.join(REPO, "epgpy", "diffusion.py")
    tree = ast.parse(open(path).read())
    # ---- compute_bmatrix: generic entry + check that all entries in all dimensions are its instances
    proto = {}
    for mode in ("ramp", "close", "none"):
        ent = bmatrix_entries(tree, 3, mode)
        proto[mode] = subst(ent[(0, 1)], {"k1_0": "k1_i", "k1_1": "k1_j", "k2_0": "k2_i", "k2_1": "k2_j"})
        for d in (1, 2, 3):
            ent = bmatrix_entries(tree, d, mode)
            for (i, j), e in ent.items():
                inst = subst(proto[mode], {"k1_i": "k1_%d" % i, "k1_j": "k1_%d" % j, "k2_i": "k2_%d" % i, "k2_j": "k2_%d" % j})
                if inst.key() != e.key():
                    raise Unsupported("compute_bmatrix entry (%d,%d) in dimension %d is not the generic entry formula" % (i, j, d))
    if proto["close"].key() != proto["none"].key():
        raise Unsupported("compute_bmatrix: the allclose branch differs from the k2=None branch")
    out = ["(* GENERATED by /verif/translator/diffusion_tables.py from epgpy/diffusion.py -- do not edit; regenerated on every run *)",
           "From Coq Require Import Reals QArith.",
           "Local Open Scope R_scope.", "",
           "(* entry (i,j) of compute_bmatrix(tau, k1, k2), k2 given and not allclose to k1 (linear ramp); every entry in",
           "   dimensions 1, 2, 3 was checked by the translator to be this expression with the components renamed *)",
           "Definition bmat (tau k1_i k1_j k2_i k2_j : R) : R :=\n  %s.\n" % coq_r(proto["ramp"]),
           "(* entry (i,j) of compute_bmatrix(tau, k1) and of the branch allclose(k2 - k1, 0) *)",
           "Definition bmat_const (tau k1_i k1_j : R) : R :=\n  %s.\n" % coq_r(proto["none"]),
           "(* rational twins, printed from the same expression trees (executed by the model with vm_compute) *)",
           "Definition bmatQ (tau k1_i k1_j k2_i k2_j : Q) : Q :=\n  (%s)%%Q.\n" % coq_q(proto["ramp"]),
           "Definition bmat_constQ (tau k1_i k1_j : Q) : Q :=\n  (%s)%%Q.\n" % coq_q(proto["none"])]
    # ---- diffusion_operator
    for d in (1, 2, 3):
        bn = [("b%d%d" % (i, j)) for i in range(d) for j in range(d)]
        cn = [("c%d%d" % (i, j)) for i in range(d) for j in range(d)]
        dn = [("D%d%d" % (i, j)) for i in range(d) for j in range(d)]
        it = DInterp(tree, "diffusion.py", close=False)
        v = it.call("diffusion_operator", [mat("b", d), mat("c", d), mat("D", d)])
        if not (isinstance(v, tuple) and len(v) == 2):
            raise Unsupported("diffusion_operator does not return a pair")
        DL, DT = real(v[0], "DL"), real(v[1], "DT")
        if subst(DL, dict(zip(bn, cn))).key() != DT.key():
            raise Unsupported("diffusion_operator: DT is not DL with bT in place of bL")
        out.append("Definition att_tensor%d (%s : R) : R :=\n  %s.\n" % (d, " ".join(bn + dn), coq_r(DL)))
        it = DInterp(tree, "diffusion.py", close=False)
        v = it.call("diffusion_operator", [mat("b", d), mat("c", d), Cx(R.var("D"))])
        DL, DT = real(v[0], "DL"), real(v[1], "DT")
        if subst(DL, dict(zip(bn, cn))).key() != DT.key():
            raise Unsupported("diffusion_operator (scalar D): DT is not DL with bT in place of bL")
        out.append("Definition att_iso%d (%s : R) : R :=\n  %s.\n" % (d, " ".join(bn + ["D"]), coq_r(DL)))
    write_if_changed(os.path.join(GEN, "Diffusion.v"), "\n".join(out))
