"""C17 table extractor: /repo/epgpy/stats.py -> /verif/coq/Gen/StatsTables.v

On every check the functions crlb / crlb_split / confint of the source are NORMALISED to a value tree and compared
with the normal form of REFERENCE texts kept in this file (the texts Model/Stats.v is written for; four variants of
the Hessian branch of confint, which select the two "finding switches" confint_hess_outer / confint_hess_plus).
The einsum menu lists written to Gen are those of the matched reference.  Anything that does not normalise, or whose
normal form differs from every reference, fails the translator (fail closed) with the first differing sub-term.

Normal form (a small symbolic executor over the Python ast, `Norm`):
  * every local is replaced by the expression it was bound to (forward substitution), so local names do not matter;
    parameters, globals and attribute / call / operator structure (incl. operand grouping) are kept as written;
  * `x op= e` is inplace(op, x, e), `x[k] = e` is setitem(x, k, e) -- NOT identified with their out-of-place forms;
  * `if` statements are executed path by path (the continuation is run in both branches); conditional expressions
    and conditional statements both become ite(cond, a, b); `not c`, `a is not b` are a flipped ite.  Two functions are
    compared through their truth tables over the (identical) sets of atomic conditions, so hoisting a statement that
    is common to both branches, or turning a rebinding if/else into a conditional expression, does not matter;
  * a call of a module-level straight-line helper function of stats.py is inlined (positional arguments, bound by value).
Guards that keep this sound (each raises Unsupported):
  * dead code: the value computed by every executed statement must occur in the value returned on that path (so a
    computation cannot be hoisted to paths where it was not executed, nor a side-effecting statement added);
  * aliasing: `a = b` with b a bare local or parameter is refused; after an in-place change of an object every other
    local that may share memory with it (same root through attribute / subscript / non-allocating calls) is
    poisoned and may not be read; a helper may not change its parameters in place;
  * statement and expression forms outside the small fragment used by stats.py (loops, with, lambda, comprehension,
    starred / keyword-only calls of helpers, bare expression statements other than a docstring, ...).
Not distinguished (accepted as equal): the order of evaluation of sub-expressions across statements (it can only
change WHICH exception an invalid input raises first).
TSTAT_INTERVAL literals are emitted as exact binary64 rationals (the value the running program uses).
"""
import ast, os, itertools
from fractions import Fraction

try:
    from .symex import Unsupported
except Exception:  # stand-alone use
    class Unsupported(Exception):
        pass


def need(cond, msg):
    if not cond:
        raise Unsupported("stats.py: " + msg)


# ---------------------------------------------------------------- normaliser
# calls that always allocate their result (never a view of an argument)
# module-level functions that are NOT inlined: the call stays an uninterpreted node in both normal forms, the table
# look-up itself is tied by the correspondence (exact comparison of the returned t value with the generated table)
OPAQUE = {"get_tstat_interval"}
FRESH_CALLS = {"einsum", "inv", "cond", "trace", "sum", "log10", "log", "sqrt", "arange"}
NONE = ("const", "None")


class Frame:
    def __init__(self, params, helper, locals_=()):
        self.locals = set(locals_)   # every name bound somewhere in the function
        self.env = {}            # local -> value tree
        self.poison = {}         # local -> reason
        self.unbound_params = set(params)   # parameters not rebound so far
        self.helper = helper

    def copy(self):
        f = Frame((), self.helper, self.locals)
        f.env, f.poison, f.unbound_params = dict(self.env), dict(self.poison), set(self.unbound_params)
        return f


def roots(t):
    """the objects a value may share memory with (walk through everything that is not known to allocate)"""
    k = t[0]
    if k == "const":
        return set()
    if k == "name":
        return {t}
    if k in ("bin", "un", "cmp", "bool"):
        return {t}
    if k in ("attr", "sub", "unpack"):
        return roots(t[1])
    if k in ("inplace",):
        return roots(t[2])
    if k == "setitem":
        return roots(t[1])
    if k == "ite":
        return roots(t[2]) | roots(t[3])
    if k == "tuple":
        r = set()
        for x in t[1:]:
            r |= roots(x)
        return r
    if k == "slice":
        return set()
    if k == "call":
        f = t[1]
        if f[0] == "attr" and f[2] in FRESH_CALLS:
            return {t}
        r = roots(f[1]) if f[0] == "attr" else set()
        for a in t[2]:
            r |= roots(a)
        for _, a in t[3]:
            r |= roots(a)
        return r
    raise Unsupported("stats.py: internal: roots of %r" % (k,))


def contains(t, s):
    if t == s:
        return True
    return isinstance(t, tuple) and any(contains(x, s) for x in t if isinstance(x, tuple))


def mk_ite(atom, pol, a, b):
    if not pol:
        a, b = b, a
    return a if a == b else ("ite", atom, a, b)


def atoms_of(t, acc):
    if isinstance(t, tuple):
        if t and t[0] == "ite":
            acc.add(t[1])
        for x in t:
            atoms_of(x, acc)
    return acc


def specialise(t, assign):
    if not isinstance(t, tuple):
        return t
    if t and t[0] == "ite":
        return specialise(t[2] if assign[t[1]] else t[3], assign)
    return tuple(specialise(x, assign) for x in t)


def show(t, depth=3):
    if not isinstance(t, tuple):
        return repr(t)
    k = t[0] if t else ""
    if k == "name":
        return t[1]
    if k == "const":
        return t[1]
    if depth == 0:
        return "..."
    d = depth - 1
    if k == "attr":
        return "%s.%s" % (show(t[1], d), t[2])
    if k == "call":
        return "%s(%s)" % (show(t[1], d), ", ".join([show(a, d) for a in t[2]] + ["%s=%s" % (n, show(a, d)) for n, a in t[3]]))
    if k == "bin":
        return "(%s %s %s)" % (show(t[2], d), t[1], show(t[3], d))
    if k == "un":
        return "(%s %s)" % (t[1], show(t[2], d))
    if k == "sub":
        return "%s[%s]" % (show(t[1], d), show(t[2], d))
    if k == "inplace":
        return "(%s %s= %s)" % (show(t[2], d), t[1], show(t[3], d))
    if k == "setitem":
        return "setitem(%s, %s, %s)" % (show(t[1], d), show(t[2], d), show(t[3], d))
    if k == "ite":
        return "(%s if %s else %s)" % (show(t[2], d), show(t[1], d), show(t[3], d))
    return "%s(%s)" % (k, ", ".join(show(x, d) for x in t[1:]))


def first_diff(a, b):
    """smallest differing pair of sub-terms"""
    if a == b:
        return None
    if isinstance(a, tuple) and isinstance(b, tuple) and len(a) == len(b) and a and (a[0] == b[0] or not isinstance(a[0], str)):
        diffs = [(x, y) for x, y in zip(a, b) if x != y]
        if diffs and isinstance(diffs[0][0], tuple) and isinstance(diffs[0][1], tuple):   # several: report the first
            return first_diff(*diffs[0]) or (a, b)
        if not isinstance(a[0], str):      # an untagged argument list: report the enclosing pair instead
            return None
    return a, b


class Norm:
    def __init__(self, tree, what):
        self.what = what
        self.fns = {n.name: n for n in tree.body if isinstance(n, ast.FunctionDef)}
        self.records = []      # (path condition, value) of every executed statement

    def bad(self, node, msg):
        raise Unsupported("stats.py (%s) line %s: %s" % (self.what, getattr(node, "lineno", "?"), msg))

    # ---- expressions
    def lookup(self, name, frames, node):
        fr = frames[-1]
        if name in fr.env:
            if name in fr.poison:
                self.bad(node, "`%s` is read after an in-place change of an object it may share memory with (%s)" % (name, fr.poison[name]))
            return fr.env[name]
        if name in fr.locals:
            self.bad(node, "local `%s` may be read before it is bound" % name)
        return ("name", name)

    def ev(self, e, frames):
        ev = lambda x: self.ev(x, frames)
        if isinstance(e, ast.Name):
            return self.lookup(e.id, frames, e)
        if isinstance(e, ast.Constant):
            return ("const", repr(e.value))
        if isinstance(e, ast.Attribute):
            return ("attr", ev(e.value), e.attr)
        if isinstance(e, ast.Subscript):
            return ("sub", ev(e.value), ev(e.slice))
        if isinstance(e, ast.Slice):
            return ("slice",) + tuple(NONE if x is None else ev(x) for x in (e.lower, e.upper, e.step))
        if isinstance(e, ast.Tuple):
            return ("tuple",) + tuple(ev(x) for x in e.elts)
        if isinstance(e, ast.BinOp):
            return ("bin", type(e.op).__name__, ev(e.left), ev(e.right))
        if isinstance(e, ast.UnaryOp):
            if isinstance(e.op, ast.Not):
                a, pol = self.cond(e, frames)
                return mk_ite(a, pol, ("const", "True"), ("const", "False"))
            return ("un", type(e.op).__name__, ev(e.operand))
        if isinstance(e, ast.Compare):
            a, pol = self.cond(e, frames)
            return a if pol else mk_ite(a, pol, ("const", "True"), ("const", "False"))
        if isinstance(e, ast.BoolOp):
            return ("bool", type(e.op).__name__) + tuple(ev(x) for x in e.values)
        if isinstance(e, ast.IfExp):
            a, pol = self.cond(e.test, frames)
            return mk_ite(a, pol, ev(e.body), ev(e.orelse))
        if isinstance(e, ast.Call):
            if any(isinstance(a, ast.Starred) for a in e.args) or any(k.arg is None for k in e.keywords):
                self.bad(e, "starred call")
            if isinstance(e.func, ast.Name) and e.func.id in self.fns and e.func.id not in frames[-1].env \
                    and e.func.id not in OPAQUE:
                return self.inline(e, frames)
            return ("call", ev(e.func), tuple(ev(a) for a in e.args),
                    tuple(sorted((k.arg, ev(k.value)) for k in e.keywords)))
        self.bad(e, "expression form %s is not modelled" % type(e).__name__)

    def cond(self, e, frames):
        """-> (atom, polarity)"""
        if isinstance(e, ast.UnaryOp) and isinstance(e.op, ast.Not):
            a, pol = self.cond(e.operand, frames)
            return a, not pol
        if isinstance(e, ast.Compare):
            if len(e.ops) != 1:
                self.bad(e, "chained comparison")
            op = type(e.ops[0]).__name__
            l, r = self.ev(e.left, frames), self.ev(e.comparators[0], frames)
            flip = {"IsNot": "Is", "NotIn": "In", "NotEq": None}.get(op)
            if flip:
                return ("cmp", flip, l, r), False
            return ("cmp", op, l, r), True
        v = self.ev(e, frames)
        if v[0] == "ite" and v[2] == ("const", "True") and v[3] == ("const", "False"):
            return v[1], True
        return v, True

    def inline(self, call, frames):
        fn = self.fns[call.func.id]
        a = fn.args
        if call.keywords or a.vararg or a.kwarg or a.kwonlyargs or a.posonlyargs or a.defaults or len(call.args) != len(a.args):
            self.bad(call, "call of helper %s: only plain positional arguments are inlined" % fn.name)
        if len([f for f in frames if f.helper == fn.name]) or len(frames) > 4:
            self.bad(call, "recursive helper %s" % fn.name)
        vals = [self.ev(x, frames) for x in call.args]
        fr = Frame([p.arg for p in a.args], fn.name, assigned_names(fn) | {p.arg for p in a.args})
        fr.env = dict(zip([p.arg for p in a.args], vals))
        body = strip_doc(fn.body)
        if any(not isinstance(s, (ast.Assign, ast.AugAssign, ast.Return)) for s in body) or \
                not body or not isinstance(body[-1], ast.Return) or any(isinstance(s, ast.Return) for s in body[:-1]):
            self.bad(call, "helper %s is not straight-line code ending in one return" % fn.name)
        frames.append(fr)
        try:
            for s in body[:-1]:
                self.stmt(s, frames, self._pc)
            r = NONE if body[-1].value is None else self.ev(body[-1].value, frames)
        finally:
            frames.pop()
        return r

    # ---- statements
    def record(self, pc, v):
        self.records.append((tuple(pc), v))

    def mutate(self, name, newv, frames, node):
        fr = frames[-1]
        if name not in fr.env:
            self.bad(node, "in-place change of `%s`, which is not a bound local" % name)
        if fr.helper and name in fr.unbound_params:
            self.bad(node, "helper %s changes its parameter `%s` in place" % (fr.helper, name))
        old = self.lookup(name, frames, node)
        r = roots(old)
        for f in frames:
            for y, vy in f.env.items():
                if not (f is fr and y == name) and roots(vy) & r:
                    f.poison[y] = "`%s` changed in place at line %s" % (name, node.lineno)
        fr.env[name] = newv

    def bind(self, name, v, frames, node, rhs=None):
        fr = frames[-1]
        if rhs is not None and isinstance(rhs, ast.Name) and (rhs.id in fr.env):
            self.bad(node, "`%s = %s` makes two names of one object (aliasing is not modelled)" % (name, rhs.id))
        fr.env[name] = v
        fr.poison.pop(name, None)
        fr.unbound_params.discard(name)

    def stmt(self, st, frames, pc):
        self._pc = pc
        if isinstance(st, ast.Assign):
            if len(st.targets) != 1:
                self.bad(st, "chained assignment")
            t = st.targets[0]
            v = self.ev(st.value, frames)
            self.record(pc, v)
            if isinstance(t, ast.Name):
                self.bind(t.id, v, frames, st, st.value)
            elif isinstance(t, ast.Tuple) and all(isinstance(x, ast.Name) for x in t.elts):
                for i, x in enumerate(t.elts):
                    self.bind(x.id, ("unpack", v, i, len(t.elts)), frames, st)
            elif isinstance(t, ast.Subscript) and isinstance(t.value, ast.Name):
                k = self.ev(t.slice, frames)
                old = self.lookup(t.value.id, frames, st)
                nv = ("setitem", old, k, v)
                self.mutate(t.value.id, nv, frames, st)
                self.record(pc, nv)
            else:
                self.bad(st, "assignment target form")
        elif isinstance(st, ast.AugAssign):
            if not isinstance(st.target, ast.Name):
                self.bad(st, "augmented assignment to a non-name")
            old = self.lookup(st.target.id, frames, st)
            nv = ("inplace", type(st.op).__name__, old, self.ev(st.value, frames))
            self.mutate(st.target.id, nv, frames, st)
            self.record(pc, nv)
        else:
            self.bad(st, "statement form %s is not modelled" % type(st).__name__)

    def run(self, stmts, frames, pc):
        """value returned by executing stmts (continuation duplicated at every `if`)"""
        for i, st in enumerate(stmts):
            if isinstance(st, ast.Return):
                self._pc = pc
                v = NONE if st.value is None else self.ev(st.value, frames)
                self.record(pc, v)
                self.leaves.append((tuple(pc), v))
                return v
            if isinstance(st, ast.If):
                self._pc = pc
                a, pol = self.cond(st.test, frames)
                rest = stmts[i + 1:]
                r1 = self.run(list(st.body) + rest, [f.copy() for f in frames], pc + [(a, pol)])
                r2 = self.run(list(st.orelse) + rest, [f.copy() for f in frames], pc + [(a, not pol)])
                return mk_ite(a, pol, r1, r2)
            self.stmt(st, frames, pc)
        self.leaves.append((tuple(pc), NONE))
        return NONE

    def function(self, name):
        need(name in self.fns, "(%s) function %s not found" % (self.what, name))
        fn = self.fns[name]
        a = fn.args
        if a.vararg or a.kwarg or a.posonlyargs:
            self.bad(fn, "signature of %s" % name)
        params = [p.arg for p in a.args + a.kwonlyargs]
        fr = Frame(params, None, assigned_names(fn) | set(params))
        fr.env = {p: ("name", p) for p in params}
        self.records, self.leaves = [], []
        sig = ("sig", tuple(params), tuple(ast.dump(d) for d in a.defaults), tuple("-" if d is None else ast.dump(d) for d in a.kw_defaults),
               len(a.args))
        ret = self.run(strip_doc(fn.body), [fr], [])
        self.check_live(name, ret)
        return sig, ret

    def check_live(self, name, ret):
        ats = sorted(atoms_of(ret, set()) | {a for pc, _ in self.records for a, _ in pc}, key=repr)
        need(len(ats) <= 8, "(%s) %s: too many conditions" % (self.what, name))
        for bits in itertools.product((True, False), repeat=len(ats)):
            assign = dict(zip(ats, bits))
            leaf = specialise(ret, assign)
            for pc, v in self.records:
                if all(assign[a] == pol for a, pol in pc):
                    sv = specialise(v, assign)
                    if sv[0] in ("const", "name"):
                        continue
                    need(contains(leaf, sv),
                         "(%s) %s computes `%s` on a path where the returned value does not depend on it (dead or hoisted code)"
                         % (self.what, name, show(sv)))


def assigned_names(fn):
    out = set()
    for n in ast.walk(fn):
        if isinstance(n, ast.Name) and isinstance(n.ctx, ast.Store):
            out.add(n.id)
        elif isinstance(n, (ast.FunctionDef, ast.Lambda, ast.ClassDef, ast.Global, ast.Nonlocal, ast.ListComp, ast.SetComp,
                            ast.DictComp, ast.GeneratorExp, ast.NamedExpr, ast.Import, ast.ImportFrom, ast.For, ast.While,
                            ast.With, ast.Try, ast.Delete)) and n is not fn:
            raise Unsupported("stats.py line %s: %s inside %s is not modelled" % (getattr(n, "lineno", "?"), type(n).__name__, fn.name))
    return out


def strip_doc(body):
    if body and isinstance(body[0], ast.Expr) and isinstance(body[0].value, ast.Constant) and isinstance(body[0].value.value, str):
        return list(body[1:])
    return list(body)


def same_function(src, ref, name):
    """None when the two normal forms denote the same function, else a message"""
    (ssig, sret), (rsig, rret) = src, ref
    if ssig != rsig:
        return "signature of %s differs from the modelled one" % name
    sa, ra = sorted(atoms_of(sret, set()), key=repr), sorted(atoms_of(rret, set()), key=repr)
    if sa != ra:
        extra = [show(a) for a in sa if a not in ra] + [show(a) for a in ra if a not in sa]
        return "%s branches on other conditions than the modelled code: %s" % (name, "; ".join(extra[:3]))
    for bits in itertools.product((True, False), repeat=len(sa)):
        assign = dict(zip(sa, bits))
        a, b = specialise(sret, assign), specialise(rret, assign)
        if a != b:
            x, y = first_diff(a, b)
            return "%s: source has `%s` where the modelled code has `%s`" % (name, show(x), show(y))
    return None


# ---------------------------------------------------------------- reference texts (what Model/Stats.v is written for)
REF_CRLB = '''
def crlb(J, H=None, *, W=None, sigma2=1, log=False):
    xp = common.get_array_module(J)
    J = xp.asarray(J)
    I = 1 / sigma2 * xp.einsum("...np,...nq->...pq", J.conj(), J).real
    is_singular = np.linalg.cond(I) > 1e30
    I[is_singular] = np.nan
    lb = xp.linalg.inv(I)
    if W is not None:
        W = xp.asarray(W)[..., np.newaxis]
    else:
        W = 1
    cost = xp.trace(W * lb, axis1=-2, axis2=-1)
    if H is None:
        return cost if not log else np.log10(cost)
    HJ = xp.einsum("...npx,...nq->...qpx", H.conj(), J) * 1 / sigma2
    HJ += np.moveaxis(HJ, -3, -2).conj()
    grad = -xp.einsum("...pq,...qrx,...rp->...x", W * lb, HJ.real, lb)
    if not log:
        return cost, grad
    return np.log10(cost), grad / cost[..., np.newaxis] / np.log(10)


def crlb_split(J, W=None, sigma2=1, log=False):
    xp = common.get_array_module(J)
    J = xp.asarray(J)
    I = 1 / sigma2 * xp.einsum("...np,...nq->...pq", J.conj(), J).real
    is_singular = np.linalg.cond(I) > 1e30
    I[is_singular] = np.nan
    lb = xp.linalg.inv(I)
    idiag = xp.arange(lb.shape[-1])
    crb = lb[..., idiag, idiag]
    if W is not None:
        crb *= xp.asarray(W)
    if log:
        crb = np.log10(crb)
    return xp.moveaxis(crb, -1, 0)
'''

REF_CONFINT = '''
def confint(obs, pred, jac, hess=None, *, conflevel=0.95):
    nobs, nparam = jac.shape[-2:]
    dof = nobs - nparam
    res = obs - pred
    sse = np.sum(res * res.conj(), axis=-1).real
    if hess is not None:
        Hmle = %(first)s
        Hmle %(op)s= %(second)s
        cov = np.linalg.inv(Hmle)
    else:
        jac2 = np.einsum("...np,...nq->...pq", jac.conj(), jac).real
        cov = np.linalg.inv(jac2)
    cov *= sse[..., np.newaxis, np.newaxis] / dof
    tval = get_tstat_interval(conflevel, dof)
    idiag = np.arange(nparam)
    cints = tval * np.sqrt(cov[..., idiag, idiag])
    predvar = np.einsum("...np,...pq,...nq->...n", jac.conj(), cov, jac).real
    cband = tval * np.sqrt(predvar)
    return cints, cband
'''
_GRAM = 'np.einsum("...np,...nq->...pq", jac.conj(), jac).real'
_HESS = {True: 'np.einsum("...nqp,...y->...pq", hess.conj(), res).real',     # EHessOuter
         False: 'np.einsum("...nqp,...n->...pq", hess.conj(), res).real'}    # EHessContract

# contractions of the reference texts, in the order of Model/Stats.v (crlb_menu, crlb_split_menu, confint_menu)
CRLB_PRIMS = ["EGram", "EHJ", "EGrad"]
SPLIT_PRIMS = ["EGram"]


def confint_variants():
    """(outer, plus) -> (reference text, einsum list); the plus variants accumulate J^H J onto the Hessian term"""
    out = {}
    for outer in (True, False):
        h = "EHessOuter" if outer else "EHessContract"
        out[(outer, True)] = (REF_CONFINT % {"first": _HESS[outer], "op": "+", "second": _GRAM}, [h, "EGram", "EGram", "EPredVar"])
        out[(outer, False)] = (REF_CONFINT % {"first": _GRAM, "op": "-", "second": _HESS[outer]}, ["EGram", h, "EGram", "EPredVar"])
    return out


def qlit(x):
    f = Fraction(*float(x).as_integer_ratio())
    return "(%d # %d)" % (f.numerator, f.denominator)


def level_lit(x):
    """confidence levels are short decimals (0.95): the key is its decimal text, exactly"""
    f = Fraction(repr(float(x)))
    return "(%d # %d)" % (f.numerator, f.denominator)


def extract(repo):
    path = os.path.join(repo, "epgpy", "stats.py")
    tree = ast.parse(open(path).read())
    src = Norm(tree, "source")
    need("get_tstat_interval" in src.fns, "function get_tstat_interval not found")
    ref = Norm(ast.parse(REF_CRLB), "reference")
    prims = {}
    for f, pl in (("crlb", CRLB_PRIMS), ("crlb_split", SPLIT_PRIMS)):
        why = same_function(src.function(f), ref.function(f), f)
        if why:
            raise Unsupported("stats.%s is not the modelled computation: %s" % (f, why))
        prims[f] = list(pl)
    sconf = src.function("confint")
    whys, hit = [], None
    for (outer, plus), (text, pl) in sorted(confint_variants().items()):
        why = same_function(sconf, Norm(ast.parse(text), "reference").function("confint"), "confint")
        if why is None:
            hit = (outer, plus, pl)
            break
        whys.append(why)
    if hit is None:
        raise Unsupported("stats.confint is not one of the modelled computations: " + min(whys, key=len))
    outer, plus, prims["confint"] = hit[0], hit[1], list(hit[2])
    table = None
    for n in tree.body:
        if isinstance(n, ast.Assign) and ast.unparse(n.targets[0]) == "TSTAT_INTERVAL":
            table = ast.literal_eval(n.value)
    need(isinstance(table, dict) and table, "TSTAT_INTERVAL literal dict not found")
    entries = []
    for (lvl, nu), t in table.items():
        need(isinstance(nu, int) and nu >= 1 and isinstance(lvl, float) and isinstance(t, float), "TSTAT_INTERVAL key/value types")
        entries.append((lvl, nu, t))
    return prims, outer, plus, entries


def coq_text(prims, outer, plus, entries):
    L = ["(* GENERATED by /verif/translator/stats_tables.py from epgpy/stats.py -- do not edit; regenerated on every run *)",
         "From Coq Require Import List QArith.",
         "Import ListNotations.",
         "",
         "(* menu of modelled contractions (Model/Stats.v gives each one its Gallina meaning) *)",
         "Inductive einsum_prim : Set := EGram | EHJ | EGrad | EHessOuter | EHessContract | EPredVar.",
         ""]
    for f in ("crlb", "crlb_split", "confint"):
        L.append("Definition %s_einsums : list einsum_prim := [%s]." % (f, "; ".join(prims[f])))
    L += ["",
          "(* structure of the Hessian branch of confint: Hmle = Re(J^H J) (+|-) Re(<hessian term>) *)",
          "Definition confint_hess_outer : bool := %s.  (* true: \"...nqp,...y->...pq\" (residual summed over an unrelated index) *)" % ("true" if outer else "false"),
          "Definition confint_hess_plus : bool := %s.   (* true: the term is ADDED to J^H J *)" % ("true" if plus else "false"),
          "",
          "(* TSTAT_INTERVAL: ((confidence level, dof), t) ; t is the exact binary64 value of the literal *)",
          "Definition tstat_table : list (Q * nat * Q) := ["]
    L.append(";\n".join("  (%s, %d%%nat, %s)" % (level_lit(l), nu, qlit(t)) for l, nu, t in entries))
    L += ["].", ""]
    return "\n".join(L)


def generate(REPO, GEN, write_if_changed):
    prims, outer, plus, entries = extract(REPO)
    write_if_changed(os.path.join(GEN, "StatsTables.v"), coq_text(prims, outer, plus, entries))


if __name__ == "__main__":
    p, o, s, e = extract(os.environ.get("EPGPY_REPO", "/repo"))
    print(p, o, s, len(e))
