"""C17 table extractor: /repo/epgpy/stats.py -> /verif/coq/Gen/StatsTables.v

Extracted (with Python `ast`, on every check):
  * every `einsum("<subscripts>", operands...)` call of crlb / crlb_split / confint, in source order, matched
    against a FIXED MENU of (subscripts, operand pattern) -> Gallina primitive of Model/Stats.v; an unknown
    subscript string or operand form fails the translator (fail closed);
  * the structure of the Hessian branch of confint (which einsum is assigned, which is accumulated, with
    which sign) -> the two "finding switches" confint_hess_outer / confint_hess_plus of the model;
  * the scalar glue around the einsums that the model fixes by hand (checked textually: `1 / sigma2 *`,
    `* 1 / sigma2`, `W * lb`, `HJ.real`, `.real`, sse/dof, the log10 branch);
  * the TSTAT_INTERVAL literals, as exact binary64 rationals (the value the running program uses).
"""
import ast, os
from fractions import Fraction

try:
    from .symex import Unsupported
except Exception:  # stand-alone use
    class Unsupported(Exception):
        pass

# (subscripts, operand source patterns) -> primitive constructor
MENU = {
    ("...np,...nq->...pq", ("{X}.conj()", "{X}")): "EGram",            # J^H J
    ("...npx,...nq->...qpx", ("H.conj()", "J")): "EHJ",                # (dJ_x^H J)[p,q] stored at [q,p,x]
    ("...pq,...qrx,...rp->...x", ("W * lb", "HJ.real", "lb")): "EGrad",  # tr(W lb dI_x lb)
    ("...nqp,...y->...pq", ("hess.conj()", "res")): "EHessOuter",      # (sum_n conj H_nqp) * (sum_y res_y)
    ("...nqp,...n->...pq", ("hess.conj()", "res")): "EHessContract",   # sum_n conj H_nqp * res_n
    ("...np,...pq,...nq->...n", ("jac.conj()", "cov", "jac")): "EPredVar",
}

EXPECT = {
    "crlb": ["EGram", "EHJ", "EGrad"],
    "crlb_split": ["EGram"],
}


def _src(n):
    return ast.unparse(n)


def einsums(fn):
    out = []
    for n in ast.walk(fn):
        if isinstance(n, ast.Call) and isinstance(n.func, ast.Attribute) and n.func.attr == "einsum":
            out.append(n)
    out.sort(key=lambda n: (n.lineno, n.col_offset))
    return out


def classify(call, where):
    if not call.args or not isinstance(call.args[0], ast.Constant) or not isinstance(call.args[0].value, str):
        raise Unsupported("stats.%s: einsum without literal subscripts" % where)
    subs = call.args[0].value
    ops = tuple(_src(a) for a in call.args[1:])
    if call.keywords:
        raise Unsupported("stats.%s: einsum with keywords" % where)
    for (msubs, mops), prim in MENU.items():
        if msubs != subs or len(mops) != len(ops):
            continue
        if "{X}" in mops[0]:
            x = ops[1]
            if tuple(m.replace("{X}", x) for m in mops) == ops and x in ("J", "jac"):
                return prim
        elif mops == ops:
            return prim
    raise Unsupported("stats.%s line %d: einsum(%r, %s) is not in the menu of modelled contractions"
                      % (where, call.lineno, subs, ", ".join(ops)))


def need(cond, msg):
    if not cond:
        raise Unsupported("stats.py glue changed: " + msg)


def confint_structure(fn):
    """-> (prims in order, outer?, plus?) from the `if hess is not None:` branch"""
    branch = None
    for n in fn.body:
        if isinstance(n, ast.If) and _src(n.test) == "hess is not None":
            branch = n
    need(branch is not None, "confint: `if hess is not None` not found")
    terms = []  # (kind, sign)
    for st in branch.body:
        if isinstance(st, ast.Assign) and _src(st.targets[0]) == "Hmle":
            v, sign = st.value, "+"
        elif isinstance(st, ast.AugAssign) and _src(st.target) == "Hmle" and isinstance(st.op, (ast.Add, ast.Sub)):
            v, sign = st.value, "+" if isinstance(st.op, ast.Add) else "-"
            need(terms, "confint: Hmle accumulated before being assigned")
        elif isinstance(st, ast.Assign) and _src(st) == "cov = np.linalg.inv(Hmle)":
            continue
        else:
            raise Unsupported("stats.confint: statement %r in the Hessian branch is not modelled" % _src(st))
        need(isinstance(v, ast.Attribute) and v.attr == "real" and isinstance(v.value, ast.Call),
             "confint: Hmle term is not `einsum(...).real`")
        terms.append((classify(v.value, "confint"), sign))
    kinds = [k for k, _ in terms]
    need(sorted(kinds) in (["EGram", "EHessOuter"], ["EGram", "EHessContract"]) and len(terms) == 2,
         "confint: Hmle is not (gram, hessian term): %s" % kinds)
    need(dict(terms)["EGram"] == "+", "confint: J^H J enters Hmle with a minus sign")
    hk = [k for k in kinds if k != "EGram"][0]
    need(_src(branch.orelse[0]) == "jac2 = np.einsum('...np,...nq->...pq', jac.conj(), jac).real"
         and _src(branch.orelse[1]) == "cov = np.linalg.inv(jac2)" and len(branch.orelse) == 2,
         "confint: no-Hessian branch")
    return hk == "EHessOuter", dict(terms)[hk] == "+"


GLUE = {
    "crlb": [
        "I = 1 / sigma2 * xp.einsum('...np,...nq->...pq', J.conj(), J).real",
        "lb = xp.linalg.inv(I)",
        "W = xp.asarray(W)[..., np.newaxis]",
        "W = 1",
        "cost = xp.trace(W * lb, axis1=-2, axis2=-1)",
        "return cost if not log else np.log10(cost)",
        "HJ = xp.einsum('...npx,...nq->...qpx', H.conj(), J) * 1 / sigma2",
        "HJ += np.moveaxis(HJ, -3, -2).conj()",
        "grad = -xp.einsum('...pq,...qrx,...rp->...x', W * lb, HJ.real, lb)",
        "return (cost, grad)",
        "return (np.log10(cost), grad / cost[..., np.newaxis] / np.log(10))",
    ],
    "crlb_split": [
        "I = 1 / sigma2 * xp.einsum('...np,...nq->...pq', J.conj(), J).real",
        "lb = xp.linalg.inv(I)",
        "idiag = xp.arange(lb.shape[-1])",
        "crb = lb[..., idiag, idiag]",
        "crb *= xp.asarray(W)",
        "crb = np.log10(crb)",
        "return xp.moveaxis(crb, -1, 0)",
    ],
    "confint": [
        "nobs, nparam = jac.shape[-2:]",
        "dof = nobs - nparam",
        "res = obs - pred",
        "sse = np.sum(res * res.conj(), axis=-1).real",
        "cov *= sse[..., np.newaxis, np.newaxis] / dof",
        "tval = get_tstat_interval(conflevel, dof)",
        "idiag = np.arange(nparam)",
        "cints = tval * np.sqrt(cov[..., idiag, idiag])",
        "predvar = np.einsum('...np,...pq,...nq->...n', jac.conj(), cov, jac).real",
        "cband = tval * np.sqrt(predvar)",
        "return (cints, cband)",
    ],
}


def check_glue(fn):
    have = set()
    for n in ast.walk(fn):
        if isinstance(n, ast.stmt):
            have.add(_src(n))
    for line in GLUE[fn.name]:
        need(line in have, "%s: statement `%s` not found" % (fn.name, line))


def qlit(x):
    f = Fraction(*float(x).as_integer_ratio())
    return "(%d # %d)" % (f.numerator, f.denominator)


def level_lit(x):
    """confidence levels are short decimals (0.95): the key is its decimal text, exactly"""
    f = Fraction(repr(float(x)))
    return "(%d # %d)" % (f.numerator, f.denominator)


def extract(repo):
    path = os.path.join(repo, "epgpy", "stats.py")
    tree = ast.parse(open(path).read())
    fns = {n.name: n for n in tree.body if isinstance(n, ast.FunctionDef)}
    for f in ("crlb", "crlb_split", "confint", "get_tstat_interval"):
        need(f in fns, "function %s not found" % f)
    prims = {}
    for f in ("crlb", "crlb_split"):
        prims[f] = [classify(c, f) for c in einsums(fns[f])]
        if prims[f] != EXPECT[f]:
            raise Unsupported("stats.%s uses contractions %s, the model is written for %s" % (f, prims[f], EXPECT[f]))
        check_glue(fns[f])
    prims["confint"] = [classify(c, "confint") for c in einsums(fns["confint"])]
    outer, plus = confint_structure(fns["confint"])
    need(prims["confint"][-1] == "EPredVar" and prims["confint"].count("EGram") == 2 and len(prims["confint"]) == 4,
         "confint contractions %s" % prims["confint"])
    check_glue(fns["confint"])
    table = None
    for n in tree.body:
        if isinstance(n, ast.Assign) and _src(n.targets[0]) == "TSTAT_INTERVAL":
            table = ast.literal_eval(n.value)
    need(isinstance(table, dict) and table, "TSTAT_INTERVAL literal dict not found")
    entries = []
    for (lvl, nu), t in table.items():
        need(isinstance(nu, int) and nu >= 1 and isinstance(lvl, float) and isinstance(t, float), "TSTAT_INTERVAL key/value types")
        entries.append((lvl, nu, t))
    return prims, outer, plus, entries


def coq_text(prims, outer, plus, entries):
    L = ["(* GENERATED by /verif/translator/stats_tables.py from epgpy/stats.py -- do not edit; regenerated on every run *)",
         "From Coq Require Import List QArith.",
         "Import ListNotations.",
         "",
         "(* menu of modelled contractions (Model/Stats.v gives each one its Gallina meaning) *)",
         "Inductive einsum_prim : Set := EGram | EHJ | EGrad | EHessOuter | EHessContract | EPredVar.",
         ""]
    for f in ("crlb", "crlb_split", "confint"):
        L.append("Definition %s_einsums : list einsum_prim := [%s]." % (f, "; ".join(prims[f])))
    L += ["",
          "(* structure of the Hessian branch of confint: Hmle = Re(J^H J) (+|-) Re(<hessian term>) *)",
          "Definition confint_hess_outer : bool := %s.  (* true: \"...nqp,...y->...pq\" (residual summed over an unrelated index) *)" % ("true" if outer else "false"),
          "Definition confint_hess_plus : bool := %s.   (* true: the term is ADDED to J^H J *)" % ("true" if plus else "false"),
          "",
          "(* TSTAT_INTERVAL: ((confidence level, dof), t) ; t is the exact binary64 value of the literal *)",
          "Definition tstat_table : list (Q * nat * Q) := ["]
    L.append(";\n".join("  (%s, %d%%nat, %s)" % (level_lit(l), nu, qlit(t)) for l, nu, t in entries))
    L += ["].", ""]
    return "\n".join(L)


def generate(REPO, GEN, write_if_changed):
    prims, outer, plus, entries = extract(REPO)
    write_if_changed(os.path.join(GEN, "StatsTables.v"), coq_text(prims, outer, plus, entries))


if __name__ == "__main__":
    import sys
    p, o, s, e = extract(os.environ.get("EPGPY_REPO", "/repo"))
    print(p, o, s, len(e))
