"""Fail-closed symbolic executor over the Python `ast` of epgpy's closed-form
coefficient functions.  Scalars are pairs (re, im) of real expression trees;
arrays are finite maps index -> scalar with a static trailing shape ((3,) or (3,3)).
Anything outside the handled subset raises Unsupported (the check then reports
the translator as a broken obligation)."""
import ast
from fractions import Fraction


class Unsupported(Exception):
    pass


# ------------------------------------------------------------------ real expressions
class R:
    """real expression tree with light, exact simplification (0, 1, constants)"""
    __slots__ = ("op", "args")

    def __init__(self, op, *args):
        self.op, self.args = op, args

    # constructors
    @staticmethod
    def const(q):
        return R("const", Fraction(q))

    @staticmethod
    def var(name):
        return R("var", name)

    PI = None

    def is_const(self, v=None):
        return self.op == "const" and (v is None or self.args[0] == v)

    def key(self):
        return (self.op,) + tuple(a.key() if isinstance(a, R) else a for a in self.args)

    def __eq__(self, o):
        return isinstance(o, R) and self.key() == o.key()

    def __hash__(self):
        return hash(self.key())


R.PI = R("pi")
ZERO, ONE = R.const(0), R.const(1)


def radd(a, b):
    if a.is_const(0):
        return b
    if b.is_const(0):
        return a
    if a.is_const() and b.is_const():
        return R.const(a.args[0] + b.args[0])
    return R("add", a, b)


def rneg(a):
    if a.is_const():
        return R.const(-a.args[0])
    if a.op == "neg":
        return a.args[0]
    return R("neg", a)


def rsub(a, b):
    if b.is_const(0):
        return a
    if a.is_const(0):
        return rneg(b)
    if a.is_const() and b.is_const():
        return R.const(a.args[0] - b.args[0])
    return R("sub", a, b)


def rmul(a, b):
    if a.is_const(0) or b.is_const(0):
        return ZERO
    if a.is_const(1):
        return b
    if b.is_const(1):
        return a
    if a.is_const(-1):
        return rneg(b)
    if b.is_const(-1):
        return rneg(a)
    if a.is_const() and b.is_const():
        return R.const(a.args[0] * b.args[0])
    return R("mul", a, b)


def rdiv(a, b):
    if b.is_const(0):
        raise Unsupported("division by literal zero")
    if a.is_const(0):
        return ZERO
    if b.is_const(1):
        return a
    if a.is_const() and b.is_const():
        return R.const(a.args[0] / b.args[0])
    return R("div", a, b)


def rpow(a, n):
    if n == 0:
        return ONE
    if n == 1:
        return a
    if a.is_const():
        return R.const(a.args[0] ** n)
    r = a
    for _ in range(n - 1):
        r = rmul(r, a)          # x*x form (nsatz/field friendly)
    return r


def rfun(name, a):
    if name == "exp" and a.is_const(0):
        return ONE
    if name == "cos" and a.is_const(0):
        return ONE
    if name == "sin" and a.is_const(0):
        return ZERO
    return R("fun", name, a)


def coq_r(e):
    o = e.op
    if o == "const":
        q = e.args[0]
        if q.denominator == 1:
            return "%d" % q.numerator if q.numerator >= 0 else "(- %d)" % (-q.numerator)
        if q.numerator >= 0:
            return "(%d / %d)" % (q.numerator, q.denominator)
        return "(- (%d / %d))" % (-q.numerator, q.denominator)
    if o == "var":
        return e.args[0]
    if o == "pi":
        return "PI"
    if o == "neg":
        return "(- %s)" % coq_r(e.args[0])
    if o in ("add", "sub", "mul", "div"):
        s = {"add": "+", "sub": "-", "mul": "*", "div": "/"}[o]
        return "(%s %s %s)" % (coq_r(e.args[0]), s, coq_r(e.args[1]))
    if o == "fun":
        return "(%s %s)" % (e.args[0], coq_r(e.args[1]))
    raise Unsupported("print " + o)


# ------------------------------------------------------------------ complex scalars
class Cx:
    __slots__ = ("re", "im")

    def __init__(self, re, im=None):
        self.re, self.im = re, (ZERO if im is None else im)

    @property
    def is_real(self):
        return self.im.is_const(0)

    def key(self):
        return (self.re.key(), self.im.key())


def cadd(a, b):
    return Cx(radd(a.re, b.re), radd(a.im, b.im))


def csub(a, b):
    return Cx(rsub(a.re, b.re), rsub(a.im, b.im))


def cneg(a):
    return Cx(rneg(a.re), rneg(a.im))


def cmul(a, b):
    return Cx(rsub(rmul(a.re, b.re), rmul(a.im, b.im)), radd(rmul(a.re, b.im), rmul(a.im, b.re)))


def cdiv(a, b):
    if not b.is_real:
        raise Unsupported("division by a complex expression")
    return Cx(rdiv(a.re, b.re), rdiv(a.im, b.re))


def cpow(a, n):
    if not isinstance(n, int) or n < 0:
        raise Unsupported("non-natural power")
    if a.is_real:
        return Cx(rpow(a.re, n))
    r = Cx(ONE)
    for _ in range(n):
        r = cmul(r, a)
    return r


def cconj(a):
    return Cx(a.re, rneg(a.im))


def cexp(a):
    if a.is_real:
        return Cx(rfun("exp", a.re))
    m = rfun("exp", a.re)
    return Cx(rmul(m, rfun("cos", a.im)), rmul(m, rfun("sin", a.im)))


def coq_c(a):
    return "(%s, %s)" % (coq_r(a.re), coq_r(a.im))


# ------------------------------------------------------------------ arrays
class Arr:
    """array with static trailing shape tshape ((3,) or (3,3)); entries: dict idx-tuple -> Cx or None (uninitialised)"""

    def __init__(self, tshape, fill):
        self.tshape = tshape
        self.e = {}
        for idx in self.indices():
            self.e[idx] = None if fill is None else fill

    def indices(self):
        if len(self.tshape) == 1:
            return [(i,) for i in range(self.tshape[0])]
        return [(i, j) for i in range(self.tshape[0]) for j in range(self.tshape[1])]

    def copy(self):
        a = Arr(self.tshape, None)
        a.e = dict(self.e)
        return a

    def map(self, f):
        a = Arr(self.tshape, None)
        for k, v in self.e.items():
            if v is None:
                raise Unsupported("use of an uninitialised array entry %s" % (k,))
            a.e[k] = f(v)
        return a

    def get(self, k):
        v = self.e[k]
        if v is None:
            raise Unsupported("use of an uninitialised array entry %s" % (k,))
        return v


def matmul(a, b):
    if a.tshape != (3, 3) or b.tshape != (3, 3):
        raise Unsupported("@ on non 3x3")
    r = Arr((3, 3), None)
    for i in range(3):
        for j in range(3):
            acc = Cx(ZERO)
            for k in range(3):
                acc = cadd(acc, cmul(a.get((i, k)), b.get((k, j))))
            r.e[(i, j)] = acc
    return r


class Shape:       # opaque shape token (batch shapes are not modelled here)
    pass


class NoneV:
    pass


NONE = NoneV()


# ------------------------------------------------------------------ interpreter
class Interp:
    def __init__(self, module_ast, modname):
        self.funcs = {n.name: n for n in module_ast.body if isinstance(n, ast.FunctionDef)}
        self.modname = modname

    def call(self, fname, args):
        if fname not in self.funcs:
            raise Unsupported("unknown function %s" % fname)
        fd = self.funcs[fname]
        params = [a.arg for a in fd.args.args]
        defaults = fd.args.defaults
        env = {}
        nd = len(defaults)
        for i, p in enumerate(params):
            if i < len(args):
                env[p] = args[i]
            else:
                di = i - (len(params) - nd)
                if di < 0:
                    raise Unsupported("missing argument %s of %s" % (p, fname))
                env[p] = self.expr(defaults[di], {})
        if fd.args.kwonlyargs or fd.args.vararg or fd.args.kwarg:
            raise Unsupported("unsupported signature of %s" % fname)
        for st in fd.body:
            r = self.stmt(st, env)
            if r is not None:
                return r[0]
        raise Unsupported("%s does not return" % fname)

    # ---- statements
    def stmt(self, st, env):
        if isinstance(st, ast.Expr) and isinstance(st.value, ast.Constant) and isinstance(st.value.value, str):
            return None  # docstring
        if isinstance(st, ast.Return):
            return (self.expr(st.value, env),)
        if isinstance(st, ast.Assert):
            t = st.test
            if (isinstance(t, ast.Compare) and len(t.ops) == 1 and isinstance(t.ops[0], ast.IsNot)
                    and isinstance(t.comparators[0], ast.Constant) and t.comparators[0].value is None):
                v = self.expr(t.left, env)
                if v is NONE:
                    raise Unsupported("assertion fails statically")
                return None
            raise Unsupported("assert form")
        if isinstance(st, ast.Assign):
            if len(st.targets) != 1:
                raise Unsupported("multiple targets")
            self.assign(st.targets[0], self.expr(st.value, env), env)
            return None
        if isinstance(st, ast.AugAssign):
            rhs = self.expr(st.value, env)
            if isinstance(st.target, ast.Subscript):
                arr = self.expr(st.target.value, env)
                if not isinstance(arr, Arr) or not isinstance(rhs, Cx):
                    raise Unsupported("augmented subscript assignment")
                for k in self.index_set(st.target.slice, arr):
                    arr.e[k] = self.binop(st.op, arr.get(k), rhs)
                return None
            cur = self.expr(st.target, env)
            if isinstance(cur, Arr) and isinstance(rhs, Cx):
                for k in cur.indices():       # in place, element by element (mat *= 0)
                    cur.e[k] = self.binop(st.op, cur.get(k), rhs)
                return None
            self.assign(st.target, self.binop(st.op, cur, rhs), env)
            return None
        if isinstance(st, ast.If):
            c = self.static_cond(st.test, env)
            body = st.body if c else st.orelse
            for s in body:
                r = self.stmt(s, env)
                if r is not None:
                    return r
            return None
        raise Unsupported("statement %s" % type(st).__name__)

    def static_cond(self, t, env):
        if (isinstance(t, ast.Compare) and len(t.ops) == 1 and isinstance(t.ops[0], (ast.Is, ast.IsNot))
                and isinstance(t.comparators[0], ast.Constant) and t.comparators[0].value is None):
            v = self.expr(t.left, env)
            isn = v is NONE
            return isn if isinstance(t.ops[0], ast.Is) else not isn
        raise Unsupported("non-static condition")

    def assign(self, tgt, val, env):
        if isinstance(tgt, ast.Name):
            # arrays are mutable objects: plain assignment aliases (like Python)
            env[tgt.id] = val
            return
        if isinstance(tgt, ast.Tuple):
            if not isinstance(val, tuple) or len(val) != len(tgt.elts):
                raise Unsupported("tuple unpacking mismatch")
            for t, v in zip(tgt.elts, val):
                self.assign(t, v, env)
            return
        if isinstance(tgt, ast.Subscript):
            arr = self.expr(tgt.value, env)
            if not isinstance(arr, Arr):
                raise Unsupported("subscript assignment on non-array")
            idxs = self.index_set(tgt.slice, arr)
            if isinstance(val, Arr):
                # assigning a slice of the same trailing arity, e.g. mat[..., 0] = other[..., 1] handled as scalar
                raise Unsupported("array-valued slice assignment")
            if not isinstance(val, Cx):
                raise Unsupported("assigned value")
            for k in idxs:
                arr.e[k] = val
            return
        raise Unsupported("assignment target")

    def index_set(self, sl, arr):
        """indices selected by a subscript; leading Ellipsis / full slice over batch axes are ignored"""
        items = list(sl.elts) if isinstance(sl, ast.Tuple) else [sl]
        if items and isinstance(items[0], ast.Constant) and items[0].value is Ellipsis:
            items = items[1:]
            if not items:
                return arr.indices()  # mat[...]  (whole array)
        elif len(items) == 1 and isinstance(items[0], ast.Slice) and items[0].lower is None and items[0].upper is None:
            return arr.indices()      # mat[:]  (whole array)
        else:
            raise Unsupported("subscript must start with an Ellipsis")
        nd = len(arr.tshape)
        if len(items) > nd:
            raise Unsupported("too many indices")
        # indices address the LAST len(items) axes
        sets = []
        for ax, it in zip(range(nd - len(items), nd), items):
            n = arr.tshape[ax]
            if isinstance(it, ast.Slice):
                if it.step is not None:
                    raise Unsupported("slice step")
                lo = 0 if it.lower is None else self.intlit(it.lower)
                hi = n if it.upper is None else self.intlit(it.upper)
                lo = lo + n if lo < 0 else lo
                hi = hi + n if hi < 0 else hi
                sets.append(list(range(lo, hi)))
            else:
                i = self.intlit(it)
                i = i + n if i < 0 else i
                if not 0 <= i < n:
                    raise Unsupported("index out of range")
                sets.append([i])
        if len(items) < nd:
            raise Unsupported("partial indexing of a matrix")
        out = [()]
        for s in sets:
            out = [o + (i,) for o in out for i in s]
        return out

    def intlit(self, n):
        if isinstance(n, ast.Constant) and isinstance(n.value, int):
            return n.value
        if isinstance(n, ast.UnaryOp) and isinstance(n.op, ast.USub) and isinstance(n.operand, ast.Constant):
            return -n.operand.value
        raise Unsupported("non-literal index")

    # ---- expressions
    def expr(self, e, env):
        if isinstance(e, ast.Constant):
            v = e.value
            if v is None:
                return NONE
            if isinstance(v, bool):
                raise Unsupported("bool literal")
            if isinstance(v, int):
                return Cx(R.const(v))
            if isinstance(v, float):
                return Cx(R.const(Fraction(repr(v))))
            if isinstance(v, complex):
                if v.real != 0:
                    raise Unsupported("complex literal with real part")
                return Cx(ZERO, R.const(Fraction(repr(v.imag))))
            raise Unsupported("literal %r" % (v,))
        if isinstance(e, ast.Name):
            if e.id in env:
                return env[e.id]
            if e.id in ("np", "xp", "common"):
                return ("module", e.id)
            raise Unsupported("unknown name %s" % e.id)
        if isinstance(e, ast.Tuple):
            return tuple(self.expr(x, env) for x in e.elts)
        if isinstance(e, ast.List):
            return [self.expr(x, env) for x in e.elts]
        if isinstance(e, ast.UnaryOp) and isinstance(e.op, ast.USub):
            v = self.expr(e.operand, env)
            if isinstance(v, Cx):
                return cneg(v)
            if isinstance(v, Arr):
                return v.map(cneg)
            raise Unsupported("negation of %s" % type(v).__name__)
        if isinstance(e, ast.BinOp):
            return self.binop(e.op, self.expr(e.left, env), self.expr(e.right, env))
        if isinstance(e, ast.Attribute):
            base = self.expr(e.value, env)
            if isinstance(base, tuple) and base and base[0] == "module":
                if e.attr == "pi":
                    return Cx(R.PI)
                if e.attr in ("complex128",):
                    return ("dtype",)
                return ("attr", base[1], e.attr)
            if e.attr == "shape":
                return Shape()
            raise Unsupported("attribute %s" % e.attr)
        if isinstance(e, ast.Subscript):
            arr = self.expr(e.value, env)
            if not isinstance(arr, Arr):
                raise Unsupported("subscript load on non-array")
            idxs = self.index_set(e.slice, arr)
            if len(idxs) != 1:
                raise Unsupported("slice load")
            return arr.get(idxs[0])
        if isinstance(e, ast.Call):
            return self.callexpr(e, env)
        raise Unsupported("expression %s" % type(e).__name__)

    def binop(self, op, a, b):
        if isinstance(a, Shape) or isinstance(b, Shape) or (isinstance(a, tuple) and isinstance(b, Shape)):
            if isinstance(op, ast.Add):
                t = b if isinstance(a, Shape) else a
                if isinstance(t, tuple) and all(isinstance(x, Cx) and x.is_real and x.re.is_const() for x in t):
                    return ("shape+", tuple(int(x.re.args[0]) for x in t))
            raise Unsupported("shape arithmetic")
        if isinstance(op, ast.MatMult):
            if isinstance(a, Arr) and isinstance(b, Arr):
                return matmul(a, b)
            raise Unsupported("@ operands")
        if isinstance(a, Arr) and isinstance(b, Arr):
            if a.tshape != b.tshape:
                raise Unsupported("array shapes")
            f = {ast.Add: cadd, ast.Sub: csub}.get(type(op))
            if not f:
                raise Unsupported("array-array op")
            r = Arr(a.tshape, None)
            for k in a.indices():
                r.e[k] = f(a.get(k), b.get(k))
            return r
        if isinstance(a, Arr) and isinstance(b, Cx):
            f = {ast.Mult: cmul, ast.Div: cdiv}.get(type(op))
            if not f:
                raise Unsupported("array-scalar op")
            return a.map(lambda x: f(x, b))
        if isinstance(a, Cx) and isinstance(b, Arr):
            if isinstance(op, ast.Mult):
                return b.map(lambda x: cmul(a, x))
            raise Unsupported("scalar-array op")
        if isinstance(a, Cx) and isinstance(b, Cx):
            t = type(op)
            if t is ast.Add:
                return cadd(a, b)
            if t is ast.Sub:
                return csub(a, b)
            if t is ast.Mult:
                return cmul(a, b)
            if t is ast.Div:
                return cdiv(a, b)
            if t is ast.Pow:
                if b.is_real and b.re.is_const() and b.re.args[0].denominator == 1:
                    return cpow(a, int(b.re.args[0]))
                raise Unsupported("power with non-literal exponent")
        raise Unsupported("binop %s on %s,%s" % (type(op).__name__, type(a).__name__, type(b).__name__))

    def callexpr(self, e, env):
        f = e.func
        kw = {k.arg: k.value for k in e.keywords}
        # method calls
        if isinstance(f, ast.Attribute):
            if f.attr == "conj" and not e.args:
                v = self.expr(f.value, env)
                if isinstance(v, Cx):
                    return cconj(v)
                if isinstance(v, Arr):
                    return v.map(cconj)
                raise Unsupported("conj of %s" % type(v).__name__)
            base = self.expr(f.value, env)
            if isinstance(base, tuple) and base and base[0] == "module":
                mod, name = base[1], f.attr
                args = [self.expr(a, env) for a in e.args]
                if mod in ("np", "xp"):
                    if name in ("cos", "sin", "exp"):
                        (a,) = args
                        if not isinstance(a, Cx):
                            raise Unsupported("%s of non-scalar" % name)
                        if name == "exp":
                            return cexp(a)
                        if not a.is_real:
                            raise Unsupported("%s of complex" % name)
                        return Cx(rfun(name, a.re))
                    if name == "atleast_1d":
                        return args[0]
                    if name in ("conj", "conjugate") and len(args) == 1:
                        v = args[0]
                        if isinstance(v, Cx):
                            return cconj(v)
                        if isinstance(v, Arr):
                            return v.map(cconj)
                        raise Unsupported("conj of %s" % type(v).__name__)
                    if name in ("zeros", "ndarray"):
                        sh = args[0]
                        if isinstance(sh, tuple) and sh and sh[0] == "shape+":
                            return Arr(sh[1], Cx(ZERO) if name == "zeros" else None)
                        raise Unsupported("array constructor shape")
                    raise Unsupported("numpy function %s" % name)
                if mod == "common":
                    if name == "expand_arrays":
                        if not (isinstance(kw.get("append"), ast.Constant) and kw["append"].value is True):
                            raise Unsupported("expand_arrays without append=True")
                        return tuple(args)
                    if name == "get_shape":
                        return Shape()
                    if name == "broadcast_shapes":
                        return Shape()
                    raise Unsupported("common.%s" % name)
            raise Unsupported("call %s" % ast.dump(f)[:60])
        if isinstance(f, ast.Name):
            args = [self.expr(a, env) for a in e.args]
            if kw:
                fd = self.funcs.get(f.id)
                if fd is None:
                    raise Unsupported("unknown function %s" % f.id)
                params = [a.arg for a in fd.args.args]
                full = list(args) + [None] * (len(params) - len(args))
                for k, v in kw.items():
                    if k not in params:
                        raise Unsupported("unknown keyword %s" % k)
                    full[params.index(k)] = self.expr(v, env)
                # trailing unspecified -> defaults handled in call by truncation
                while full and full[-1] is None:
                    full.pop()
                if any(x is None for x in full):
                    raise Unsupported("keyword hole")
                args = full
            # arrays are passed by reference in Python, but the callees only read them
            return self.call(f.id, [a.copy() if isinstance(a, Arr) else a for a in args])
        raise Unsupported("call form")
