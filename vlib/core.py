"""Common machinery: context, Coq runner, evidence, violations, known findings."""
import os, sys, json, time, re, subprocess, hashlib, random, fcntl, shutil, glob
from fractions import Fraction

VERIF = os.path.dirname(os.path.dirname(os.path.abspath(__file__)))
# VERIF_SCRATCH=<dir> (mutation testing only): work on a private copy of coq/ and write evidence and replays
# there, so that a run against a patched EPGPY_REPO neither rewrites the shared Gen/*.v nor the committed evidence
SCRATCH = os.environ.get("VERIF_SCRATCH")
_ROOT = SCRATCH or VERIF
if SCRATCH and not os.path.isdir(os.path.join(SCRATCH, "coq")):
    os.makedirs(SCRATCH, exist_ok=True)
    # the shared coq/Cases directory holds transient per-run case files of concurrently running checks: they may
    # vanish while copying (a failed cp made the mutation run exit without a verdict) and are never needed
    import shutil
    shutil.copytree(os.path.join(VERIF, "coq"), os.path.join(SCRATCH, "coq"), symlinks=True,
                    ignore=lambda d, names: [n for n in names if os.path.basename(d) == "Cases" or n.endswith((".aux", ".lock"))],
                    ignore_dangling_symlinks=True)
    os.makedirs(os.path.join(SCRATCH, "coq", "Cases"), exist_ok=True)
COQ = os.path.join(_ROOT, "coq")
CASES = os.path.join(COQ, "Cases")
EVID = os.path.join(_ROOT, "evidence")
REPLAYS = os.path.join(_ROOT, "replays")
KNOWN = os.path.join(VERIF, "known_findings.json")
NPROC = min(16, os.cpu_count() or 4)

COQ_FLAGS = ["-Q", COQ, "EPG", "-w",
             "-notation-overridden,-deprecated-hint-without-locality,-deprecated-instance-without-locality"]

KERNEL_TB = [
    "Coq 8.16.1 kernel incl. bytecode VM (vm_compute); no native_compute",
    "harness: case generators, float->exact rational conversion, implementation drivers (Python)",
    "NumPy / CPython",
]


class Violation(Exception):
    pass


def sh(cmd, timeout=None, cwd=None, env=None):
    p = subprocess.run(cmd, stdout=subprocess.PIPE, stderr=subprocess.STDOUT, text=True,
                       timeout=timeout, cwd=cwd, env=env)
    return p.returncode, p.stdout


class BuildLock:
    def __enter__(self):
        os.makedirs(os.path.join(_ROOT, "build"), exist_ok=True)
        self.f = open(os.path.join(_ROOT, "build", ".lock"), "w")
        fcntl.flock(self.f, fcntl.LOCK_EX)
        return self

    def __exit__(self, *a):
        fcntl.flock(self.f, fcntl.LOCK_UN)
        self.f.close()


def coq_make(targets=None, timeout=1500):
    """(re)generate Makefile and build the library (full .vo)."""
    with BuildLock():
        rc, out = sh(["coq_makefile", "-f", "_CoqProject", "-o", "Makefile"], cwd=COQ, timeout=120)
        if rc != 0:
            return False, out
        cmd = ["make", "-j%d" % NPROC] + (targets or [])
        rc, out2 = sh(["timeout", str(timeout)] + cmd, cwd=COQ, timeout=timeout + 30)
        return rc == 0, out + out2


_DEPS = None


def coq_deps():
    """.vo -> list of .vo it depends on, from coqdep over _CoqProject"""
    global _DEPS
    if _DEPS is None:
        files = [l.strip() for l in open(os.path.join(COQ, "_CoqProject")) if l.strip().endswith(".v")]
        rc, out = sh(["coqdep", "-Q", ".", "EPG"] + files, cwd=COQ, timeout=300)
        deps = {}
        for line in out.splitlines():
            m = re.match(r"(\S+)\.vo\b[^:]*:\s*(.*)", line)
            if m:
                deps[m.group(1) + ".vo"] = [d for d in m.group(2).split() if d.endswith(".vo")]
        _DEPS = deps
    return _DEPS


def gen_needed(pid, props_file):
    """names of the Gen/*.v files that Props/<pid>.v or the property's case headers (transitively) depend on"""
    deps = coq_deps()
    seen, todo = set(), [props_file[:-2] + ".vo"] + header_targets(pid)
    while todo:
        f = todo.pop()
        if f in seen:
            continue
        seen.add(f)
        todo += deps.get(f, [])
    return {os.path.basename(f)[:-3] for f in seen if f.startswith("Gen/")}


def header_targets(pid):
    """the .vo files of every EPG module the case files of property `pid` import (harness headers): they need not be
    dependencies of Props/<pid>.v, and a stale .vo would make the correspondence evaluate an old model"""
    names = set()
    pf = os.path.join(VERIF, "props", pid.lower() + ".py")
    try:
        ptxt = open(pf).read()
    except OSError:
        ptxt = ""
    files = [pf]
    # the shared harness modules whose headers this property's module uses (from vlib import core, prog, dprog, tie)
    used = set()
    for m in re.finditer(r"^from vlib import ([A-Za-z_, ]+)", ptxt, re.M):
        used |= {x.strip() for x in m.group(1).split(",")}
    if "dprog" in used:
        used.add("prog")
    for mod in ("prog", "dprog", "tie"):
        if mod in used or re.search(r"\b%s\." % mod, ptxt):
            files.append(os.path.join(VERIF, "vlib", mod + ".py"))
    for f in files:
        try:
            txt = open(f).read()
        except OSError:
            continue
        for m in re.finditer(r"From EPG Require Import ([A-Za-z0-9_ ]+)\.", txt):
            names |= set(m.group(1).split())
    out = []
    for n in sorted(names):
        for root in ("Base", "Model", "Spec", "Proofs", "Gen"):
            if os.path.exists(os.path.join(COQ, root, n + ".v")):
                out.append("%s/%s.vo" % (root, n))
    return out


def coqc(path, timeout=600):
    rc, out = sh(["timeout", str(timeout), "coqc"] + COQ_FLAGS + [path], cwd=COQ, timeout=timeout + 30)
    return rc, out


def coqc_many(paths, timeout=900):
    """compile several case files in parallel; returns {path: (rc, out)}"""
    procs = {}
    res = {}
    pending = list(paths)
    running = []
    while pending or running:
        while pending and len(running) < NPROC:
            p = pending.pop(0)
            outf = open(p + ".out", "w")
            pr = subprocess.Popen(["timeout", str(timeout), "coqc"] + COQ_FLAGS + [p], cwd=COQ,
                                  stdout=outf, stderr=subprocess.STDOUT)
            running.append((p, pr, outf))
        time.sleep(0.05)
        for item in list(running):
            p, pr, outf = item
            if pr.poll() is not None:
                outf.close()
                res[p] = (pr.returncode, open(p + ".out").read())
                running.remove(item)
    return res


# ---------------------------------------------------------------- literals
def frac(x):
    if isinstance(x, Fraction):
        return x
    if isinstance(x, int):
        return Fraction(x)
    return Fraction(*float(x).as_integer_ratio())


def zlit(n):
    return "(%d)" % n if n < 0 else "%d" % n


def qlit(x):
    f = frac(x)
    return "(%s # %d)" % (zlit(f.numerator), f.denominator)


def qi(z):
    """complex (float parts, exact) -> Gallina QI literal"""
    z = complex(z)
    a, c = frac(z.real), frac(z.imag)
    return "(qi %s %d %s %d)" % (zlit(a.numerator), a.denominator, zlit(c.numerator), c.denominator)


def qi_frac(re, im=0):
    a, c = frac(re), frac(im)
    return "(qi %s %d %s %d)" % (zlit(a.numerator), a.denominator, zlit(c.numerator), c.denominator)


def clist(items):
    return "[" + "; ".join(items) + "]"


def triple(v):
    return "(mk3 %s %s %s)" % (qi(v[0]), qi(v[1]), qi(v[2]))


def coq_opt(x, f):
    return "None" if x is None else "(Some %s)" % f(x)


def coq_bool(b):
    return "true" if b else "false"


def parse_bools(out):
    """parse the `= [true; false; ...] : list bool` blocks printed by Eval vm_compute"""
    vals = []
    for m in re.finditer(r"=\s*(\[[^\]]*\]|nil)\s*:\s*list bool", out, re.S):
        vals.append([t == "true" for t in re.findall(r"true|false", m.group(1))])
    return vals


# ---------------------------------------------------------------- context
class Ctx:
    def __init__(self, pid, tier, seed):
        self.pid, self.tier, self.seed = pid, tier, seed
        self.t0 = time.time()
        self.rng = random.Random((seed, pid).__repr__())
        self.cov = {"evaluations": 0, "distinct_nontrivial": 0, "samples": [],
                    "obligations": 0, "discharged": 0, "checker_cmd": "", "trusted_base": list(KERNEL_TB)}
        self.assumptions = []
        self.violations = []     # (replay_path, found_input, msg)
        self.known_hits = []
        self.notes = {}
        self.obligation_names = []
        self.failed_obligations = []
        os.makedirs(EVID, exist_ok=True)
        os.makedirs(os.path.join(REPLAYS, pid), exist_ok=True)
        os.makedirs(CASES, exist_ok=True)
        self._distinct = set()
        self._case_files = []

    # ---- proofs
    def prove(self, props_file=None, extra_targets=(), gen=True):
        """translator + make + recompile Props/<id>.v capturing Print Assumptions.
        Returns True if all obligations are discharged."""
        pid = self.pid
        props_file = props_file or "Props/%s.v" % pid
        if gen:
            from translator import main as tr
            tr.generate()
            # only the generated files this property depends on (theorems or case headers) decide
            needed = gen_needed(pid, props_file)
            for name, (gok, gmsg) in sorted(tr.STATUS.items()):
                if not gok and name in needed:
                    self.failed_obligations.append("translator (%s): %s" % (name, gmsg))
                    self.notes["translator_error"] = gmsg
                elif not gok:
                    self.notes.setdefault("translator_unrelated_failures", []).append("%s: %s" % (name, gmsg))
        target = props_file[:-2] + ".vo"
        ok, out = coq_make([target] + list(extra_targets) + header_targets(pid))
        self.cov["checker_cmd"] = "coq_makefile -f _CoqProject -o Makefile && make -j%d %s (coqc 8.16.1, full .vo) ; coqc %s (Print Assumptions)" % (NPROC, target, props_file)
        names = theorem_names(os.path.join(COQ, props_file))
        self.obligation_names = names
        self.cov["obligations"] = len(names)
        if not ok:
            self.notes["make_log_tail"] = out[-3000:]
            m = re.search(r'File "\./([^"]+)", line (\d+), characters [^\n]*\nError', out) or \
                re.search(r'File "\./([^"]+)", line (\d+)', out)
            where = "%s:%s" % (m.group(1), m.group(2)) if m else "unknown"
            self.failed_obligations.append("build failed at " + where)
            self.cov["discharged"] = 0
            return False
        # recompile the Props file alone to capture assumptions
        with BuildLock():
            rc, out = coqc(os.path.join(COQ, props_file))
        if rc != 0:
            self.failed_obligations.append("Props file failed: " + out[-500:])
            self.cov["discharged"] = 0
            return False
        self.assumptions = parse_assumptions(out)
        self.cov["discharged"] = len(names)
        self.cov["theorems"] = names
        bad = audit_sources()
        if bad:
            self.failed_obligations.append("forbidden construct in development: %s" % bad[:5])
            return False
        return not self.failed_obligations

    # ---- correspondence
    def run_bool_cases(self, tag, header, terms, chunk=40):
        """terms: list of Gallina bool terms. Returns list of bool (None if the shard failed)."""
        files = []
        for ci in range(0, len(terms), chunk):
            path = os.path.join(CASES, "%s_%s_p%d_%d.v" % (self.pid, tag, os.getpid(), ci // chunk))   # unique per process: concurrent runs of one check must not collide
            with open(path, "w") as f:
                f.write(header + "\n")
                f.write("Definition verdicts : list bool := [\n  ")
                f.write(";\n  ".join(terms[ci:ci + chunk]))
                f.write("\n].\nEval vm_compute in verdicts.\n")
            files.append((path, ci, min(len(terms), ci + chunk)))
        res = coqc_many([p for p, _, _ in files])
        verdicts = [None] * len(terms)
        errors = []
        for path, a, b in files:
            rc, out = res[path]
            if rc != 0:
                errors.append(out[-1500:])
                continue
            vals = parse_bools(out)
            if len(vals) != 1 or len(vals[0]) != b - a:
                errors.append("unparsable output of %s: %s" % (path, out[-500:]))
                continue
            verdicts[a:b] = vals[0]
        self._case_files += [p for p, _, _ in files]
        return verdicts, errors

    def cleanup_cases(self):
        for p in self._case_files:
            base = p[:-2]
            for ext in (".v", ".vo", ".vok", ".vos", ".glob", ".v.out", ".aux"):
                try:
                    os.remove(base + ext)
                except OSError:
                    pass
            d, b = os.path.split(base)
            try:
                os.remove(os.path.join(d, "." + b + ".aux"))
            except OSError:
                pass
        self._case_files = []

    def count(self, case_key, nontrivial=True):
        self.cov["evaluations"] += 1
        if nontrivial:
            k = hashlib.sha1(repr(case_key).encode()).hexdigest()
            if k not in self._distinct:
                self._distinct.add(k)
                self.cov["distinct_nontrivial"] += 1

    def sample(self, obj, maxn=4):
        if len(self.cov["samples"]) < maxn:
            self.cov["samples"].append(obj)

    # ---- violations
    def report(self, what, replay, found_input, signature=None):
        """record a violation (or a known finding when the signature is listed)."""
        for kf in load_known():
            if kf.get("property") == self.pid and kf.get("status") == "known" and signature is not None \
                    and kf.get("signature") == signature:
                line = "KNOWN-FINDING: property=%s %s" % (self.pid, kf.get("what", what))
                if line not in self.known_hits:
                    self.known_hits.append(line)
                return
        h = hashlib.sha1(json.dumps(replay, sort_keys=True, default=str).encode()).hexdigest()[:12]
        path = os.path.join(REPLAYS, self.pid, "%s.json" % h)
        replay = dict(replay)
        replay.update({"property": self.pid, "what": what, "found_failing_input": bool(found_input),
                       "signature": signature,
                       "replay_cmd": "./check %s --replay %s" % (self.pid, path)})
        with open(path, "w") as f:
            json.dump(replay, f, indent=1, default=str)
        self.violations.append((path, found_input, what))

    def finish(self):
        for l in self.known_hits:
            print(l)
        ev = {
            "property_id": self.pid, "tier": self.tier, "seed": self.seed, "level": "proof",
            "coverage": self.cov,
            "assumptions": self.assumptions + ["axioms listed are those printed by Print Assumptions for the theorems of Props/%s.v" % self.pid],
            "wall_s": round(time.time() - self.t0, 2),
            "violations": len(self.violations),
        }
        ev["coverage"]["notes"] = self.notes
        ev["coverage"]["known_findings_reported"] = self.known_hits
        if self.failed_obligations:
            ev["coverage"]["failed_obligations"] = self.failed_obligations
        with open(os.path.join(EVID, "%s.json" % self.pid), "w") as f:
            json.dump(ev, f, indent=1, default=str)
        self.cleanup_cases()
        if self.violations:
            # failing inputs first; at most 6 lines (every violation still has its replay file)
            vs = sorted(self.violations, key=lambda v: not v[1])[:6]
            for path, found, what in vs:
                print("VIOLATION property=%s replay=%s%s" % (self.pid, path, "" if found else " no-failing-input-found"))
            return 1
        print("OK property=%s tier=%s obligations=%d/%d evaluations=%d wall=%.1fs" % (
            self.pid, self.tier, self.cov["discharged"], self.cov["obligations"], self.cov["evaluations"],
            time.time() - self.t0))
        return 0


def theorem_names(path):
    try:
        s = open(path).read()
    except OSError:
        return []
    return re.findall(r"^\s*(?:Theorem|Lemma|Corollary)\s+([A-Za-z0-9_']+)", s, re.M)


def parse_assumptions(out):
    axioms = set()
    closed = 0
    for block in re.split(r"\n(?=Closed under the global context|Axioms:)", out):
        if block.startswith("Closed under"):
            closed += 1
        elif block.startswith("Axioms:"):
            for m in re.finditer(r"^([A-Za-z_][A-Za-z0-9_.']*)\s*:", block, re.M):
                if m.group(1) != "Axioms":
                    axioms.add(m.group(1))
    res = sorted(axioms)
    return res if res else ["(none: closed under the global context)"]


FORBIDDEN = re.compile(r"\b(Admitted|admit|Axiom|Axioms|Parameter|Parameters|Conjecture|Conjectures|Abort All)\b|Unset\s+Guard|bypass_check|Admit\s+Obligations|type-in-type|Unset\s+Universe|Unset\s+Positivity")


def audit_sources():
    bad = []
    for root in ("Base", "Model", "Spec", "Proofs", "Props", "Gen"):
        for p in glob.glob(os.path.join(COQ, root, "*.v")):
            txt = re.sub(r"\(\*.*?\*\)", "", open(p).read(), flags=re.S)
            for i, line in enumerate(txt.split("\n")):
                if FORBIDDEN.search(line):
                    bad.append("%s:%d:%s" % (os.path.relpath(p, COQ), i + 1, line.strip()[:60]))
    return bad


def load_known():
    try:
        return json.load(open(KNOWN))
    except OSError:
        return []
