"""Case language for differentiation programs (C02, C03, C19, C10): synthetic ScalarOp / MatrixOp with
derivative arrays and order1/order2 declarations in every accepted form, shifts, plain (non-differentiable)
operators; epgpy driver observing sm.order1 / sm.order2 after every operator; Gallina printers for Model/Diff.v."""
import numpy as np
from . import core, prog

PARAMS = ["p", "q"]
VARNAMES = ["a", "b", "p", "q", "z"]          # Python string order = list order


def gen_lin(rng, kind, has0=None):
    if kind == "scalar":
        o = prog.gen_scalar(rng, has0)
        return {"kind": "scalar", "arr": o["arr"], "arr0": o["arr0"]}
    o = prog.gen_matrix(rng, has0)
    return {"kind": "matrix", "arr": o["mat"], "arr0": o["mat0"]}


def gen_order1(rng, params):
    """returns (python order1 argument, normalised dict var -> {param: coef})"""
    form = rng.choice(["true", "str", "list", "alias", "coef", "coef"])
    if form == "true":
        return True, {p: {p: 1.0} for p in params}
    if form == "str":
        p = rng.choice(params)
        return p, {p: {p: 1.0}}
    if form == "list":
        ps = [p for p in params if rng.random() < 0.7] or [params[0]]
        return list(ps), {p: {p: 1.0} for p in ps}
    if form == "alias":
        d = {}
        for v in rng.sample(["a", "b", "z"], rng.randint(1, 2)):
            d[v] = rng.choice(params)
        return dict(d), {v: {d[v]: 1.0} for v in d}
    d = {}
    for v in rng.sample(["a", "b", "z"], rng.randint(1, 2)):
        ps = [p for p in params if rng.random() < 0.7] or [rng.choice(params)]
        d[v] = {p: float(rng.choice([1, -1, 2, 0.5])) for p in ps}
    return {v: dict(d[v]) for v in d}, d


def sp(p, q):
    return (p, q) if p <= q else (q, p)


def gen_order2(rng, params, o1norm, o1arg):
    """returns (python order2 argument, normalised dict Pair(var,var) -> {param: coef}, auto flag) or None"""
    vars_ = sorted(o1norm)
    form = rng.choice(["true", "str", "names", "pairs", "pairs", "dict"])
    if form == "true":
        # order2=True: pairs = PARAMETERS_ORDER2 (pairs of PARAMETER names used as variable names)
        if not all(v in params for v in vars_):
            form = "pairs"
        else:
            return True, "PARAMS2", True
    if form == "str":
        v = rng.choice(vars_)
        return v, {(v, v): {}}, True
    if form == "names":
        # a list of variable names: every combination of them, automatic cross derivatives stay on
        names = [v for v in vars_ if rng.random() < 0.7] or [vars_[0]]
        prs = sorted({sp(x, y) for x in names for y in names})
        return list(names), {p: {} for p in prs}, True
    allv = vars_ + ["a", "b"]
    if form == "pairs":
        prs = set()
        for _ in range(rng.randint(1, 3)):
            v1 = rng.choice(vars_)
            v2 = rng.choice(allv)
            prs.add(sp(v1, v2))
        prs = sorted(prs)
        return [tuple(p) for p in prs], {p: {} for p in prs}, False
    d = {}
    for _ in range(rng.randint(1, 2)):
        v1, v2 = rng.choice(vars_), rng.choice(vars_)
        ps = [p for p in params if rng.random() < 0.5]
        d[sp(v1, v2)] = {p: float(rng.choice([1, -1, 2])) for p in ps}
    return {tuple(k): dict(v) for k, v in d.items()}, d, False


def gen_dop(rng, with_order2):
    kind = rng.choice(["scalar", "scalar", "matrix"])
    params = PARAMS if rng.random() < 0.6 else PARAMS[:1]
    lin = gen_lin(rng, kind)
    darrs = {p: gen_lin(rng, kind, has0=lin["arr0"] is not None and rng.random() < 0.7) for p in params}
    d2arrs = {}
    for i, p in enumerate(params):
        for q in params[i:]:
            if rng.random() < 0.8:
                d2arrs[(p, q)] = gen_lin(rng, kind, has0=lin["arr0"] is not None and rng.random() < 0.5)
    o = {"op": "dop", "kind": kind, "lin": lin, "darrs": darrs, "d2arrs": d2arrs if with_order2 else {},
         "order1_arg": None, "order1": {}, "order2_arg": None, "order2": {}, "auto": True}
    if rng.random() < 0.8:
        o["order1_arg"], o["order1"] = gen_order1(rng, params)
        if with_order2 and rng.random() < 0.7:
            r = gen_order2(rng, params, o["order1"], o["order1_arg"])
            o["order2_arg"], o2, o["auto"] = r
            if o2 == "PARAMS2":
                # order2=True requests every pair of PARAMETERS_ORDER2 (= the d2arrs keys); _parse_partials
                # rightly refuses a pair none of whose members is an order1 variable: declare those explicitly
                if all(set(k) & set(o["order1"]) for k in o["d2arrs"]) and o["d2arrs"]:
                    o2 = {sp(*k): {} for k in o["d2arrs"]}
                else:
                    v = sorted(o["order1"])[0]
                    o["order2_arg"], o2 = v, {(v, v): {}}
            o["order2"] = o2
    return o


def gen_dprogram(rng, with_order2=False, maxmix=5, plain=("spoil", "wait", "pd", "reset")):
    p = {"pd": float(rng.choice([0.5, 1, 1, 2])), "ops": []}
    bits = 4
    nmix = 0
    n = rng.randint(2, 9)
    for _ in range(n):
        k = rng.choice(["dop", "dop", "dop", "shift", "shift", "plain"])
        if k == "dop":
            o = gen_dop(rng, with_order2)
            cost = (7 if o["kind"] == "scalar" else 9) + (3 if with_order2 else 0)
            if bits + cost > 50 or nmix >= maxmix:
                continue
            bits += cost
            nmix += 1
            p["ops"].append(o)
        elif k == "shift":
            p["ops"].append({"op": "shift", "d": rng.choice([1, 1, 2, -1, -2, 3]), "nmax": rng.choice([None, None, None, 2])})
        else:
            if not plain:
                continue
            pk = rng.choice(list(plain))
            if pk == "pd":
                p["ops"].append({"op": "pd", "p": float(rng.choice([0.5, 1, 2])), "reset": rng.random() < 0.4})
            else:
                p["ops"].append({"op": pk})
    return p


# ------------------------------------------------------------------ implementation
def arr_np(lin, which):
    a = lin[which]
    return None if a is None else np.array(a, dtype=complex)


def build_dop(o):
    from epgpy import opscalar, opmatrix
    cls = opscalar.ScalarOp if o["kind"] == "scalar" else opmatrix.MatrixOp
    dk, d2k = ("darrs", "d2arrs") if o["kind"] == "scalar" else ("dmats", "d2mats")
    kw = {dk: {p: (arr_np(l, "arr"), arr_np(l, "arr0")) for p, l in o["darrs"].items()},
          d2k: {pq: (arr_np(l, "arr"), arr_np(l, "arr0")) for pq, l in o["d2arrs"].items()}}
    if o["order1_arg"] is not None:
        kw["order1"] = o["order1_arg"]
    if o["order2_arg"] is not None:
        kw["order2"] = o["order2_arg"]
    return cls(arr_np(o["lin"], "arr"), arr_np(o["lin"], "arr0"), **kw)


def build(o):
    return build_dop(o) if o["op"] == "dop" else prog.build_op(o)


def snap_d(sm):
    o1 = {v: prog.snapshot(s) for v, s in getattr(sm, "order1", {}).items()}
    o2 = {}
    for k, s in getattr(sm, "order2", {}).items():
        o2[sp(*k)] = prog.snapshot(s)
    return prog.snapshot(sm), o1, o2


def run_impl_d(p, inplace=True):
    """inplace=True: as simulate() does, snapshot after every operator.
    inplace=False: manual stepping, keeping EVERY intermediate state matrix and taking all snapshots only
    at the end -- an operator that touches its input's partials is then visible in the earlier snapshots"""
    import epgpy as epg
    sm = epg.StateMatrix(density=p["pd"])
    if inplace:
        out = []
        for o in p["ops"]:
            sm = build(o)(sm, inplace=True)
            out.append(snap_d(sm))
        return out
    kept = []
    for o in p["ops"]:
        sm = build(o)(sm)
        kept.append(sm)
    return [snap_d(x) for x in kept]


# ------------------------------------------------------------------ Gallina
def vrank(v):
    return VARNAMES.index(v)


def prank(p):
    return PARAMS.index(p)


def c_lin(l):
    if l["kind"] == "scalar":
        return "(LScalar %s %s)" % (prog.c_triple(l["arr"]), core.coq_opt(l["arr0"], prog.c_triple))
    return "(LMatrix %s %s)" % (prog.c_mat(l["arr"]), core.coq_opt(l["arr0"], prog.c_mat))


def c_coefs(d):
    return core.clist(["(%d%%nat, %s)" % (prank(p), core.qi(c)) for p, c in d.items()])


def c_pair(k, f):
    a, b = sorted((f(k[0]), f(k[1])))
    return "(%d%%nat, %d%%nat)" % (a, b)


def c_dop(o):
    darrs = core.clist(["(%d%%nat, %s)" % (prank(p), c_lin(l)) for p, l in o["darrs"].items()])
    d2 = core.clist(["(%s, %s)" % (c_pair(pq, prank), c_lin(l)) for pq, l in o["d2arrs"].items()])
    o1 = core.clist(["(%d%%nat, %s)" % (vrank(v), c_coefs(cs)) for v, cs in o["order1"].items()])
    o2 = core.clist(["(%s, %s)" % (c_pair(k, vrank), c_coefs(cs)) for k, cs in o["order2"].items()])
    p2 = core.clist([c_pair(pq, prank) for pq in o["d2arrs"]])
    return "(DOp (mkDop %s %s %s %s %s %s %s))" % (c_lin(o["lin"]), darrs, d2, o1, o2, core.coq_bool(o["auto"]), p2)


def c_dinstr(o):
    if o["op"] == "dop":
        return c_dop(o)
    if o["op"] == "shift":
        return "(DOp (mkDop (LShift %s %s) [] [] [] [] true []))" % (core.zlit(o["d"]), core.coq_opt(o["nmax"], lambda n: "%d%%nat" % n))
    return "(DPlain %s)" % prog.c_op(o)


def c_assoc(d, keyf):
    return core.clist(["(%s, %s)" % (keyf(k), prog.c_sm(s)) for k, s in d.items()])


def c_obs(snap):
    main, o1, o2 = snap
    return "%s %s %s" % (prog.c_sm(main), c_assoc(o1, lambda v: "%d%%nat" % vrank(v)),
                         c_assoc(o2, lambda k: c_pair(k, vrank)))


HEADER = prog.HEADER + """From EPG Require Import Diff.
Notation LScalar := (@LScalar QIops). Notation LMatrix := (@LMatrix QIops). Notation LShift := (@LShift QIops).
Notation mkDop := (@mkDop QIops). Notation DOp := (@DOp QIops). Notation DPlain := (@DPlain QIops).
Definition chk (prog : list (dinstr QIops)) (pd : QI) (obs : list (sm QIops * list (nat * sm QIops) * list ((nat*nat) * sm QIops))) : bool :=
  (fix go (prog : list (dinstr QIops)) (ds : dstate QIops) obs {struct prog} : bool :=
     match prog, obs with
     | [], [] => true
     | i :: t, (m, o1, o2) :: t' => let ds' := dstep i ds in dstate_eqb ds' m o1 o2 && go t ds' t'
     | _, _ => false
     end) prog (@dinit QIops (@init QIops pd)) obs.
"""


def term(p, snaps):
    progc = core.clist([c_dinstr(o) for o in p["ops"]])
    obs = core.clist(["(%s, %s, %s)" % (prog.c_sm(m), c_assoc(o1, lambda v: "%d%%nat" % vrank(v)),
                                         c_assoc(o2, lambda k: c_pair(k, vrank))) for m, o1, o2 in snaps])
    return "(chk %s %s %s)" % (progc, core.qi(p["pd"]), obs)


def signature(p):
    return [o["op"] if o["op"] != "dop" else "dop:%s" % o["kind"] for o in p["ops"]]
