import sys, os, argparse, importlib, json, traceback
from . import core


def main():
    ap = argparse.ArgumentParser()
    ap.add_argument("pid")
    ap.add_argument("--tier", default=os.environ.get("VERIF_TIER", "quick"))
    ap.add_argument("--replay", default=None)
    a = ap.parse_args()
    seed = int(os.environ.get("VERIF_SEED", "0") or 0)
    tier = a.tier if a.tier in ("quick", "thorough") else "quick"
    pid = a.pid.upper()
    mod = importlib.import_module("props.%s" % pid.lower())
    ctx = core.Ctx(pid, tier, seed)
    if a.replay:
        rc = mod.replay(ctx, json.load(open(a.replay)))
        sys.exit(rc)
    try:
        mod.run(ctx)
    except Exception as e:  # machinery failure: property no longer shown to hold
        traceback.print_exc()
        ctx.report("check machinery raised %s: %s" % (type(e).__name__, e),
                   {"theorem_or_correspondence": "harness of %s" % pid, "traceback": traceback.format_exc()[-3000:]},
                   found_input=False)
    sys.exit(ctx.finish())


if __name__ == "__main__":
    main()
