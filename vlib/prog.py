"""Case language for un-batched 1-D programs: generator (exact dyadic values with a
worst-case mantissa budget so that binary64 arithmetic is exact), implementation
driver, and Gallina printers."""
import numpy as np
from fractions import Fraction
from . import core

HALF = [x / 2 for x in range(-2, 3)]


def cdy(rng, nz=False):
    while True:
        z = complex(rng.choice(HALF), rng.choice(HALF))
        if not nz or z != 0:
            return z


def rdy(rng):
    return float(rng.choice(HALF))


class Budget:
    """u: values are multiples of 2^-u; m: |re|,|im| <= 2^m (states); ue, me for equilibrium"""

    def __init__(self, u=2, m=1):
        self.u, self.m, self.ue, self.me = u, m, 2, 1

    def can(self, kind, has0):
        u, m = self.after(kind, has0)
        return u + m + 1 <= 48

    def after(self, kind, has0):
        dm = 1 if kind == "scalar" else 3
        if has0:
            return max(self.u, self.ue) + 1, max(self.m, self.me) + dm + 1
        return self.u + 1, self.m + dm

    def do(self, kind, has0):
        self.u, self.m = self.after(kind, has0)


def gen_scalar(rng, has0=None):
    a1 = cdy(rng)
    arr = [a1.conjugate(), a1, rdy(rng)]
    arr0 = None
    if has0 if has0 is not None else rng.random() < 0.5:
        b1 = cdy(rng)
        arr0 = [b1.conjugate(), b1, rdy(rng)]
    return {"op": "scalar", "arr": arr, "arr0": arr0}


def gen_mat(rng):
    m00, m01, m02, m20 = cdy(rng), cdy(rng), cdy(rng), cdy(rng)
    return [[m00, m01, m02],
            [m01.conjugate(), m00.conjugate(), m02.conjugate()],
            [m20, m20.conjugate(), rdy(rng)]]


def gen_matrix(rng, has0=None):
    mat0 = None
    if has0 if has0 is not None else rng.random() < 0.3:
        mat0 = gen_mat(rng)
    return {"op": "matrix", "mat": gen_mat(rng), "mat0": mat0}


def gen_shift(rng, nmax_p=0.2):
    d = rng.choice([1, 1, 1, 2, 2, 3, 5, 9]) * rng.choice([1, 1, -1])
    nmax = rng.choice([1, 2, 3, 4]) if rng.random() < nmax_p else None
    return {"op": "shift", "d": d, "nmax": nmax}


def gen_init(rng, n):
    """random well-formed initial state with n phase states on each side"""
    rows = [[0j, 0j, 0j] for _ in range(2 * n + 1)]
    for k in range(0, n + 1):
        fp, fpm = cdy(rng), cdy(rng)
        z = cdy(rng) if k > 0 else complex(rdy(rng))
        # F+(k), F+(-k)
        rows[n + k][0] = fp
        rows[n - k][1] = fp.conjugate()
        if k > 0:
            rows[n - k][0] = fpm
            rows[n + k][1] = fpm.conjugate()
        else:
            rows[n][1] = rows[n][0].conjugate()
        rows[n + k][2] = z
        rows[n - k][2] = z.conjugate()
    return rows


def gen_program(rng, maxlen=12, kinds=None, init_p=0.3, nmax_p=0.2, global_nmax_p=0.1):
    kinds = kinds or ["scalar", "matrix", "shift", "shift", "spoil", "reset", "pd", "wait"]
    pd = float(rng.choice([0.25, 0.5, 1, 1, 1.5, 2]))
    prog = {"pd": pd, "init": None, "max_nstate": None, "ops": []}
    bud = Budget()
    if rng.random() < init_p:
        prog["init"] = gen_init(rng, rng.choice([0, 1, 2, 3]))
        bud = Budget(1, 1)
    if rng.random() < global_nmax_p:
        prog["max_nstate"] = rng.choice([1, 2, 3, 5])
    n = rng.randint(1, maxlen)
    for _ in range(n):
        k = rng.choice(kinds)
        if k == "scalar":
            o = gen_scalar(rng)
            if not bud.can("scalar", o["arr0"] is not None):
                continue
            bud.do("scalar", o["arr0"] is not None)
        elif k == "matrix":
            o = gen_matrix(rng)
            if not bud.can("matrix", o["mat0"] is not None):
                continue
            bud.do("matrix", o["mat0"] is not None)
        elif k == "shift":
            o = gen_shift(rng, nmax_p)
        elif k == "pd":
            o = {"op": "pd", "p": float(rng.choice([0.25, 0.5, 1, 2, 3])), "reset": rng.random() < 0.5}
            bud.ue, bud.me = 2, 2
            if o["reset"]:
                bud.u, bud.m = 2, 2
        elif k == "reset":
            o = {"op": "reset"}
            bud.u, bud.m = bud.ue, bud.me
        else:
            o = {"op": k}
        prog["ops"].append(o)
    return prog


# ------------------------------------------------------------ implementation
def build_op(o):
    import epgpy as epg
    from epgpy import opscalar, opmatrix, operator
    k = o["op"]
    if k == "scalar":
        return opscalar.ScalarOp(np.array(o["arr"], dtype=complex),
                                 None if o["arr0"] is None else np.array(o["arr0"], dtype=complex))
    if k == "matrix":
        return opmatrix.MatrixOp(np.array(o["mat"], dtype=complex),
                                 None if o["mat0"] is None else np.array(o["mat0"], dtype=complex))
    if k == "shift":
        return epg.S(int(o["d"]), nmax=o["nmax"])
    if k == "spoil":
        return epg.SPOILER
    if k == "reset":
        return epg.RESET
    if k == "pd":
        return epg.PD(o["p"], reset=o["reset"])
    if k == "wait":
        return epg.Wait(1.0)
    raise ValueError(k)


def init_sm(prog):
    import epgpy as epg
    opts = {}
    if prog.get("max_nstate"):
        opts["max_nstate"] = prog["max_nstate"]
    if prog.get("init") is not None:
        return epg.StateMatrix(np.array(prog["init"], dtype=complex), density=prog["pd"], **opts)
    return epg.StateMatrix(density=prog["pd"], **opts)


def snapshot(sm):
    st = np.array(sm.states)
    eq = np.array(sm.equilibrium)
    st = st.reshape((-1,) + st.shape[-2:])[0]
    eq = eq.reshape((-1,) + eq.shape[-2:])[0]
    return st.tolist(), eq.tolist()


def run_impl(prog, inplace=True):
    """returns list of (states, equilibrium) after each op; raises on exceptions"""
    sm = init_sm(prog)
    out = [snapshot(sm)]
    for o in prog["ops"]:
        sm = build_op(o)(sm, inplace=inplace)
        out.append(snapshot(sm))
    return out


# ------------------------------------------------------------ Gallina printers
def c_triple(v):
    return core.triple(v)


def c_mat(m):
    return "(mkM %s %s %s)" % tuple(c_triple(r) for r in m)


def c_op(o, global_nmax=None):
    k = o["op"]
    if k == "scalar":
        return "(OScalar %s %s)" % (c_triple(o["arr"]), core.coq_opt(o["arr0"], c_triple))
    if k == "matrix":
        return "(OMatrix %s %s)" % (c_mat(o["mat"]), core.coq_opt(o["mat0"], c_mat))
    if k == "shift":
        nmax = global_nmax or o["nmax"]
        return "(OShift %s %s)" % (core.zlit(o["d"]), core.coq_opt(nmax, lambda n: "%d%%nat" % n))
    if k == "spoil":
        return "OSpoil"
    if k == "reset":
        return "OReset"
    if k == "pd":
        return "(OPD %s %s)" % (core.qi(o["p"]), core.coq_bool(o["reset"]))
    if k == "wait":
        return "OWait"
    raise ValueError(k)


def c_ops(prog):
    return core.clist([c_op(o, prog.get("max_nstate")) for o in prog["ops"]])


def c_sm(snap):
    st, eq = snap
    return "(mkSM %s %s)" % (core.clist([c_triple(r) for r in st]), core.clist([c_triple(r) for r in eq]))


HEADER = """From Coq Require Import List ZArith QArith Qcanon.
From EPG Require Import Scalar QI State Ops.
Import ListNotations.
Open Scope Z_scope.
Notation mk3 := (@mk3 QIops). Notation mkM := (@mkM QIops). Notation mkSM := (@mkSM QIops).
Notation OScalar := (@OScalar QIops). Notation OMatrix := (@OMatrix QIops). Notation OShift := (@OShift QIops).
Notation OSpoil := (@OSpoil QIops). Notation OReset := (@OReset QIops). Notation OPD := (@OPD QIops).
Notation OWait := (@OWait QIops).
"""


def signature(prog):
    return [o["op"] for o in prog["ops"]]
