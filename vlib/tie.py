"""Tie no. 3: the generated real-number definitions (Gen/*.v), evaluated inside Coq with the
Interval tactic at rational sample points, must agree with what the functions of /repo return."""
import os, re, importlib
import numpy as np
from fractions import Fraction
from . import core

HEADER = """From Coq Require Import Reals.
From Coquelicot Require Import Coquelicot.
From Interval Require Import Tactic.
From EPG Require Import Scalar State CInst Transition Evolution.
Local Open Scope R_scope.
Ltac tie n := tryif assert_succeeds (solve [repeat split; simpl; interval with (i_prec 90)]) then idtac "TIE-OK" n else idtac "TIE-FAIL" n.
"""

RANGES = {
    "alpha": (-360, 360, 4), "phi": (-360, 360, 4),
    "tau": (1, 400, 8), "T1": (800, 24000, 8), "T2": (80, 2400, 8), "g": (-40, 40, 400),
    "rT_re": (0, 40, 16), "rT_im": (-64, 64, 16), "rL": (0, 48, 16), "r0": (0, 48, 16),
}


def rq(rng, name):
    lo, hi, den = RANGES[name]
    return Fraction(rng.randint(lo, hi), den)


def rlit(q):
    q = Fraction(q)
    if q.denominator == 1:
        return "(%d)" % q.numerator if q.numerator >= 0 else "(- %d)" % (-q.numerator)
    return "(%d / %d)" % (q.numerator, q.denominator) if q.numerator >= 0 else "(- (%d / %d))" % (-q.numerator, q.denominator)


def proj_terms(kind, call):
    """list of (coq real term, python extractor) for every real component of the result"""
    comps = ["fp", "fm", "fz"]
    out = []
    if kind == "mat":
        for i in range(3):
            for j in range(3):
                for part, ri in (("fst", 0), ("snd", 1)):
                    out.append(("%s (%s (row%d %s))" % (part, comps[j], i, call), ("mat", i, j, ri)))
    elif kind == "arr2":
        for j in range(3):
            for part, ri in (("fst", 0), ("snd", 1)):
                out.append(("%s (%s (fst %s))" % (part, comps[j], call), ("arr", j, ri)))
        for j in range(3):
            for part, ri in (("fst", 0), ("snd", 1)):
                out.append(("%s (%s (match snd %s with Some x => x | None => @t0 Cops end))" % (part, comps[j], call), ("arr0", j, ri)))
    return out


def extract(val, key):
    if key[0] == "mat":
        z = complex(np.asarray(val).reshape(-1, 3, 3)[0][key[1]][key[2]])
        return z.real if key[3] == 0 else z.imag
    arr, arr0 = val
    a = arr if key[0] == "arr" else arr0
    if a is None:
        return 0.0
    z = complex(np.asarray(a).reshape(-1, 3)[0][key[1]])
    return z.real if key[2] == 0 else z.imag


def run(ctx, entries, npoints):
    """entries: list of (coq_name, python callable, [param names], kind, coq binder order)"""
    goals = []
    meta = []
    for cname, pyf, params, kind in entries:
        for _ in range(npoints):
            pt = {}
            for p in params:
                if p == "rT":
                    pt["rT_re"], pt["rT_im"] = rq(ctx.rng, "rT_re"), rq(ctx.rng, "rT_im")
                else:
                    pt[p] = rq(ctx.rng, p)
            pyargs = []
            coqargs = []
            for p in params:
                if p == "rT":
                    pyargs.append(complex(float(pt["rT_re"]), float(pt["rT_im"])))
                    coqargs += [rlit(pt["rT_re"]), rlit(pt["rT_im"])]
                else:
                    pyargs.append(float(pt[p]))
                    coqargs.append(rlit(pt[p]))
            try:
                val = pyf(*pyargs)
            except Exception as e:
                ctx.report("%s raised %s at %s" % (cname, e, pt), {"function": cname, "point": {k: str(v) for k, v in pt.items()}}, found_input=False)
                continue
            call = "(%s %s)" % (cname, " ".join(coqargs))
            conj = []
            for term, key in proj_terms(kind, call):
                lit = extract(val, key)
                tol = Fraction(1, 10 ** 9) * (1 + abs(Fraction(lit)))
                conj.append("Rabs (%s - %s) <= %s" % (term, rlit(Fraction(lit)), rlit(tol)))
            goals.append("Goal %s.\nProof. unfold %s. tie %d%%nat. Abort." % (" /\\\n  ".join(conj), cname, len(goals)))
            meta.append((cname, {k: str(v) for k, v in pt.items()}))
    # shard
    nsh = min(core.NPROC, max(1, len(goals) // 4))
    files = []
    for s in range(nsh):
        path = os.path.join(core.CASES, "%s_p%d_tie_%d.v" % (ctx.pid, os.getpid(), s))
        with open(path, "w") as f:
            f.write(HEADER + "\n".join(goals[s::nsh]) + "\n")
        files.append(path)
    res = core.coqc_many(files)
    ctx._case_files += files
    ok, fail = set(), set()
    for path in files:
        rc, out = res[path]
        if rc != 0:
            ctx.report("interval tie shard failed to compile", {"theorem_or_correspondence": "Interval tie of Gen/*.v", "coq_output": out[-1500:]}, found_input=False)
            continue
        ok |= {int(m) for m in re.findall(r"TIE-OK (\d+)", out)}
        fail |= {int(m) for m in re.findall(r"TIE-FAIL (\d+)", out)}
    missing = set(range(len(goals))) - ok - fail
    for i in sorted(fail | missing):
        cname, pt = meta[i]
        ctx.report("generated definition %s disagrees with the implementation at %s (translator or source changed meaning)" % (cname, pt),
                   {"theorem_or_correspondence": "Interval tie Gen.%s" % cname, "point": pt}, found_input=False)
    ctx.cov["interval_tie_points"] = ctx.cov.get("interval_tie_points", 0) + len(ok)
    return len(ok), len(fail | missing)


def transition_entries():
    from epgpy import transition as t
    M = "mat"
    ab = ["alpha", "phi"]
    return [
        ("rotation_operator", t.rotation_operator, ab, M), ("rotation_alpha", t.rotation_alpha, ["alpha"], M),
        ("rotation_phi", t.rotation_phi, ["phi"], M), ("rotation_d_alpha", t.rotation_d_alpha, ab, M),
        ("rotation_d_phi", t.rotation_d_phi, ab, M), ("rotation_alpha_d", t.rotation_alpha_d, ["alpha"], M),
        ("rotation_phi_d", t.rotation_phi_d, ["phi"], M), ("rotation_d2_alpha", t.rotation_d2_alpha, ab, M),
        ("rotation_d_alpha_phi", t.rotation_d_alpha_phi, ab, M), ("rotation_d2_phi", t.rotation_d2_phi, ab, M),
        ("rotation_alpha_d2", t.rotation_alpha_d2, ["alpha"], M), ("rotation_phi_d2", t.rotation_phi_d2, ["phi"], M),
    ]


def evolution_entries():
    from epgpy import evolution as e
    A = "arr2"
    r3, p2, e4 = ["rT", "rL", "r0"], ["tau", "g"], ["tau", "T1", "T2", "g"]
    out = [("evolution_operator", e.evolution_operator, r3, A)]
    for n in ["evolution_d_rT", "evolution_d_rL", "evolution_d_r0", "evolution_d2_rT", "evolution_d2_rL", "evolution_d2_r0"]:
        out.append((n, getattr(e, n), r3, A))
    for n in ["precession_operator", "precession_d_tau", "precession_d_g", "precession_d2_tau", "precession_d2_g", "precession_d_tau_g"]:
        out.append((n, getattr(e, n), p2, A))
    for n in ["relaxation_operator", "relaxation_d_tau", "relaxation_d_T1", "relaxation_d_T2", "relaxation_d_g", "relaxation_d2_tau",
              "relaxation_d2_T1", "relaxation_d2_T2", "relaxation_d2_g", "relaxation_d_tau_T1", "relaxation_d_tau_T2",
              "relaxation_d_tau_g", "relaxation_d_T2_g"]:
        out.append((n, getattr(e, n), e4, A))
    return out


def glue_entries():
    """class constructors: T(alpha,phi).mat etc. against the glue aliases T_op, T_d_alpha ..."""
    import epgpy as epg

    def T_op(a, p): return epg.T(a, p).mat
    def T_d(par):
        return lambda a, p: epg.T(a, p, order1=True, order2=True).dmats[par][0]
    def T_d2(pq):
        return lambda a, p: epg.T(a, p, order1=True, order2=True).d2mats[pq][0]
    def Phi_op(p): return epg.Phi(p).mat
    out = [("T_op", T_op, ["alpha", "phi"], "mat"), ("Phi_op", Phi_op, ["phi"], "mat"),
           ("T_d_alpha", T_d("alpha"), ["alpha", "phi"], "mat"), ("T_d_phi", T_d("phi"), ["alpha", "phi"], "mat"),
           ("T_d2_alpha_alpha", T_d2(("alpha", "alpha")), ["alpha", "phi"], "mat"),
           ("T_d2_alpha_phi", T_d2(("alpha", "phi")), ["alpha", "phi"], "mat"),
           ("T_d2_phi_phi", T_d2(("phi", "phi")), ["alpha", "phi"], "mat"),
           ("Phi_d_phi", lambda p: epg.Phi(p, order1=True, order2=True).dmats["phi"][0], ["phi"], "mat"),
           ("Phi_d2_phi_phi", lambda p: epg.Phi(p, order1=True, order2=True).d2mats[("phi", "phi")][0], ["phi"], "mat")]

    def sc(cls, params, which, key=None):
        def f(*args):
            op = cls(*args, order1=True, order2=True)
            if which == "op":
                return op.arr, op.arr0
            d = op.darrs if which == "d1" else op.d2arrs
            return tuple(d[key])
        return f
    E4, P2 = ["tau", "T1", "T2", "g"], ["tau", "g"]
    out.append(("E_op", sc(epg.E, E4, "op"), E4, "arr2"))
    out.append(("P_op", sc(epg.P, P2, "op"), P2, "arr2"))
    for p in ["tau", "T1", "T2", "g"]:
        out.append(("E_d_%s" % p, sc(epg.E, E4, "d1", p), E4, "arr2"))
    for pq in [("tau", "tau"), ("T1", "T1"), ("T2", "T2"), ("g", "g"), ("T1", "tau"), ("T2", "tau"), ("g", "tau"), ("T2", "g")]:
        out.append(("E_d2_%s_%s" % pq, sc(epg.E, E4, "d2", pq), E4, "arr2"))
    for p in ["tau", "g"]:
        out.append(("P_d_%s" % p, sc(epg.P, P2, "d1", p), P2, "arr2"))
    for pq in [("tau", "tau"), ("g", "g"), ("g", "tau")]:
        out.append(("P_d2_%s_%s" % pq, sc(epg.P, P2, "d2", pq), P2, "arr2"))

    def Rf(which, key=None):
        def f(rT, rL, r0):
            op = epg.R(rT, rL, r0=r0, order1=True, order2=True)
            if which == "op":
                return op.arr, op.arr0
            d = op.darrs if which == "d1" else op.d2arrs
            return tuple(d[key])
        return f
    R3 = ["rT", "rL", "r0"]
    out.append(("R_op", Rf("op"), R3, "arr2"))
    for p in R3:
        out.append(("R_d_%s" % p, Rf("d1", p), R3, "arr2"))
        out.append(("R_d2_%s_%s" % (p, p), Rf("d2", (p, p)), R3, "arr2"))
    return out
